//! kvh — shared harness utilities for the kanidm Coq verification checks.
//!
//! Every check binary (src/bin/cNN.rs) follows the same protocol:
//!
//!   cNN --seed S --tier quick|thorough --out DIR
//!
//! It generates cases from one SplitMix64 stream, runs the REAL kanidm
//! implementation on each case, and writes into DIR:
//!   cases_K.v    shards of Coq source: `Definition cases : list case := [...]`
//!                where every case carries the input AND the implementation's
//!                observed output, followed by one `Eval vm_compute` that
//!                reports the indices where the Coq model disagrees with the
//!                implementation (`agree`) and where the property's executable
//!                predicate fails on the implementation's output (`pcheck`).
//!   cases_K.txt  one human readable line per case (same order), used in replays
//!   meta.json    measured statistics for the evidence file.
use std::collections::BTreeMap;
use std::collections::BTreeSet;
use std::fmt::Write as _;
use std::io::Write as _;
use std::path::PathBuf;

// ---------------------------------------------------------------- PRNG

/// SplitMix64: the single source of randomness of every check.
#[derive(Clone, Debug)]
pub struct Rng(pub u64);

impl Rng {
    pub fn new(seed: u64) -> Self {
        Rng(seed.wrapping_mul(0x9E3779B97F4A7C15) ^ 0xD1B54A32D192ED03)
    }
    pub fn next(&mut self) -> u64 {
        self.0 = self.0.wrapping_add(0x9E3779B97F4A7C15);
        let mut z = self.0;
        z = (z ^ (z >> 30)).wrapping_mul(0xBF58476D1CE4E5B9);
        z = (z ^ (z >> 27)).wrapping_mul(0x94D049BB133111EB);
        z ^ (z >> 31)
    }
    /// uniform in 0..n (n > 0)
    pub fn below(&mut self, n: u64) -> u64 {
        self.next() % n
    }
    pub fn range(&mut self, lo: u64, hi_incl: u64) -> u64 {
        lo + self.below(hi_incl - lo + 1)
    }
    pub fn chance(&mut self, num: u64, den: u64) -> bool {
        self.below(den) < num
    }
    pub fn pick<'a, T>(&mut self, xs: &'a [T]) -> &'a T {
        &xs[self.below(xs.len() as u64) as usize]
    }
    pub fn shuffle<T>(&mut self, xs: &mut [T]) {
        for i in (1..xs.len()).rev() {
            let j = self.below(i as u64 + 1) as usize;
            xs.swap(i, j);
        }
    }
    pub fn bytes(&mut self, n: usize) -> Vec<u8> {
        (0..n).map(|_| self.next() as u8).collect()
    }
    pub fn fork(&mut self) -> Rng {
        Rng(self.next())
    }
}

// ---------------------------------------------------------------- Coq printers

pub fn cn(n: u64) -> String {
    format!("{}%N", n)
}
pub fn cn128(n: u128) -> String {
    format!("{}%N", n)
}
pub fn cz(n: i64) -> String {
    if n < 0 {
        format!("({})%Z", n)
    } else {
        format!("{}%Z", n)
    }
}
pub fn cnat(n: usize) -> String {
    assert!(n < 5000, "nat literal too large");
    format!("{}%nat", n)
}
pub fn cbool(b: bool) -> String {
    if b { "true".into() } else { "false".into() }
}
pub fn clist<T, F: Fn(&T) -> String>(xs: &[T], f: F) -> String {
    let mut s = String::from("[");
    for (i, x) in xs.iter().enumerate() {
        if i > 0 {
            s.push_str("; ");
        }
        s.push_str(&f(x));
    }
    s.push(']');
    s
}
pub fn clist_s(xs: &[String]) -> String {
    clist(xs, |x| x.clone())
}
pub fn copt<T, F: Fn(&T) -> String>(x: &Option<T>, f: F) -> String {
    match x {
        None => "None".into(),
        Some(v) => format!("(Some {})", f(v)),
    }
}
pub fn cpair(a: &str, b: &str) -> String {
    format!("({}, {})", a, b)
}
/// bytes as `list N`
pub fn cbytes(b: &[u8]) -> String {
    clist(b, |x| cn(*x as u64))
}
/// a UTF-8 string as its `list N` of bytes
pub fn cstr(s: &str) -> String {
    cbytes(s.as_bytes())
}
/// constructor application
pub fn capp(ctor: &str, args: &[String]) -> String {
    if args.is_empty() {
        ctor.to_string()
    } else {
        let mut s = format!("({}", ctor);
        for a in args {
            s.push(' ');
            s.push_str(a);
        }
        s.push(')');
        s
    }
}

// ---------------------------------------------------------------- interning

/// Maps arbitrary keys (uuids, names) to small integers in order of first
/// appearance, so that case files never contain run-dependent identifiers.
#[derive(Default)]
pub struct Intern<K: Ord + Clone> {
    map: BTreeMap<K, u64>,
}
impl<K: Ord + Clone> Intern<K> {
    pub fn new() -> Self {
        Intern { map: BTreeMap::new() }
    }
    pub fn id(&mut self, k: &K) -> u64 {
        let n = self.map.len() as u64;
        *self.map.entry(k.clone()).or_insert(n)
    }
    pub fn get(&self, k: &K) -> Option<u64> {
        self.map.get(k).copied()
    }
}

// ---------------------------------------------------------------- arguments

pub struct Args {
    pub seed: u64,
    pub thorough: bool,
    pub out: PathBuf,
    pub extra: Vec<String>,
}

pub fn parse_args() -> Args {
    let mut seed = 1u64;
    let mut thorough = false;
    let mut out = PathBuf::from(".");
    let mut extra = vec![];
    let mut it = std::env::args().skip(1);
    while let Some(a) = it.next() {
        match a.as_str() {
            "--seed" => seed = it.next().and_then(|s| s.parse().ok()).unwrap_or(1),
            "--tier" => thorough = it.next().map(|s| s == "thorough").unwrap_or(false),
            "--out" => out = PathBuf::from(it.next().unwrap_or_else(|| ".".into())),
            _ => extra.push(a),
        }
    }
    Args { seed, thorough, out, extra }
}

// ---------------------------------------------------------------- case sink

/// Collects cases and writes sharded Coq files.
pub struct Sink {
    out: PathBuf,
    /// Coq module of the model, e.g. "KV.C07.Model"
    module: String,
    /// extra `Require Import`s
    imports: Vec<String>,
    shard_size: usize,
    coq: Vec<String>,
    txt: Vec<String>,
    shard: usize,
    pub total: usize,
    distinct: BTreeSet<u64>,
    pub nontrivial_distinct: BTreeSet<u64>,
    pub stats: BTreeMap<String, u64>,
    samples: Vec<String>,
    sample_kinds: BTreeMap<String, u32>,
    pub rule: String,
    pub exhaustive: bool,
}

fn fnv(s: &str) -> u64 {
    let mut h = 0xcbf29ce484222325u64;
    for b in s.as_bytes() {
        h ^= *b as u64;
        h = h.wrapping_mul(0x100000001b3);
    }
    h
}

impl Sink {
    pub fn new(args: &Args, module: &str, shard_size: usize) -> Self {
        std::fs::create_dir_all(&args.out).expect("mkdir out");
        // remove stale shards
        if let Ok(rd) = std::fs::read_dir(&args.out) {
            for e in rd.flatten() {
                let n = e.file_name().to_string_lossy().to_string();
                if n.starts_with("cases_") || n == "meta.json" {
                    let _ = std::fs::remove_file(e.path());
                }
            }
        }
        Sink {
            out: args.out.clone(),
            module: module.to_string(),
            imports: vec![],
            shard_size,
            coq: vec![],
            txt: vec![],
            shard: 0,
            total: 0,
            distinct: BTreeSet::new(),
            nontrivial_distinct: BTreeSet::new(),
            stats: BTreeMap::new(),
            samples: vec![],
            sample_kinds: BTreeMap::new(),
            rule: String::new(),
            exhaustive: false,
        }
    }
    pub fn import(&mut self, m: &str) {
        self.imports.push(m.to_string());
    }
    pub fn bump(&mut self, key: &str) {
        *self.stats.entry(key.to_string()).or_insert(0) += 1;
    }
    pub fn add_stat(&mut self, key: &str, n: u64) {
        *self.stats.entry(key.to_string()).or_insert(0) += n;
    }
    /// `coq`: the Coq term of type `case`; `txt`: readable line; `nontrivial`: by the check's stated rule.
    pub fn case(&mut self, coq: String, txt: String, nontrivial: bool) {
        let h = fnv(&txt);
        self.distinct.insert(h);
        if nontrivial {
            self.nontrivial_distinct.insert(h);
        }
        {
            // keep up to 3 samples per leading word so every kind of case is shown
            let kind = txt.split_whitespace().next().unwrap_or("").to_string();
            let k = self.sample_kinds.entry(kind).or_insert(0);
            if *k < 3 && self.samples.len() < 15 {
                *k += 1;
                let mut t = txt.clone();
                if t.len() > 1500 { t.truncate(1500); t.push_str("..."); }
                self.samples.push(t);
            }
        }
        self.coq.push(coq);
        self.txt.push(txt);
        self.total += 1;
        if self.coq.len() >= self.shard_size {
            self.flush();
        }
    }
    fn flush(&mut self) {
        if self.coq.is_empty() {
            return;
        }
        let mut s = String::new();
        let _ = writeln!(s, "From Coq Require Import List NArith ZArith Bool.");
        let _ = writeln!(s, "Import ListNotations.");
        let _ = writeln!(s, "Require Import KV.Base.Run.");
        let _ = writeln!(s, "Require Import {}.", self.module);
        for m in &self.imports {
            let _ = writeln!(s, "Require Import {}.", m);
        }
        let _ = writeln!(s, "Definition cases : list case := [");
        for (i, c) in self.coq.iter().enumerate() {
            let _ = writeln!(s, "  {}{}", c, if i + 1 < self.coq.len() { ";" } else { "" });
        }
        let _ = writeln!(s, "].");
        let _ = writeln!(s, "Eval vm_compute in (run_report agree pcheck known cases).");
        let p = self.out.join(format!("cases_{}.v", self.shard));
        std::fs::File::create(&p).and_then(|mut f| f.write_all(s.as_bytes())).expect("write shard");
        let p = self.out.join(format!("cases_{}.txt", self.shard));
        let mut f = std::fs::File::create(&p).expect("txt");
        for t in &self.txt {
            let _ = writeln!(f, "{}", t.replace('\n', " "));
        }
        self.coq.clear();
        self.txt.clear();
        self.shard += 1;
    }
    pub fn finish(mut self) {
        self.flush();
        let meta = serde_json::json!({
            "evaluations": self.total,
            "distinct": self.distinct.len(),
            "distinct_nontrivial": self.nontrivial_distinct.len(),
            "rule": self.rule,
            "samples": self.samples,
            "distribution": self.stats,
            "shards": self.shard,
            "exhaustive": self.exhaustive,
        });
        std::fs::write(self.out.join("meta.json"), serde_json::to_string_pretty(&meta).expect("json")).expect("meta");
    }
}

/// Run a closure, catching panics; returns Err(message) on panic.
pub fn guarded<T, F: FnOnce() -> T + std::panic::UnwindSafe>(f: F) -> Result<T, String> {
    std::panic::catch_unwind(f).map_err(|e| {
        if let Some(s) = e.downcast_ref::<&str>() {
            s.to_string()
        } else if let Some(s) = e.downcast_ref::<String>() {
            s.clone()
        } else {
            "panic".to_string()
        }
    })
}
