//! C18 — dynamic groups contain exactly the matching entries.
//!
//! Drives a REAL in-memory QueryServer (fresh per history, fully initialised: built-in entries
//! and the built-in dynamic groups idm_all_persons / idm_all_accounts included) through random
//! histories of committed write transactions with the internal identity: create (batches of
//! candidate groups, persons and dynamic groups), modify (single, filter-selected or batch
//! modifies of candidates and dynamic groups: description, rename, dyngroup_filter, direct
//! tampering with dynmember) and delete. Dynamic-group filters are random AND/OR/NOT trees over
//! a fixed pool of filter leaves on class, name, description, displayname, mail.
//!
//! After every transaction the whole directory is read back in a fresh read transaction: every
//! live and every recycled entry with its TRUTH VECTOR (the real Entry::entry_match_no_index on
//! every pool leaf), and for each live dynamic group its stored dyngroup_filter (parsed back) and
//! dynmember. The Coq model (KV.C18.Model) replays the same operations (`agree`); `pcheck`
//! recomputes, from the dumps alone, that every dynmember is exactly the set of live entries
//! whose truth vector satisfies the group's filter.
//!
//! `--probe` prints the two minimal failing scenarios on the real server (stderr only).
use kanidm_proto::internal::Filter as ProtoFilter;
use kanidm_proto::internal::FsType;
use kanidmd_lib::be::{Backend, BackendConfig};
use kanidmd_lib::entry::{Entry, EntryInit, EntryNew};
use kanidmd_lib::filter::{Filter, FilterResolved as FR, FilterValidResolved};
use kanidmd_lib::prelude::*;
use kanidmd_lib::schema::Schema;
use kanidmd_lib::{filter, filter_rec};
use kvh::*;
use std::panic::AssertUnwindSafe;

const NS: u64 = 1_000_000_000;

fn open_server(ct: Duration) -> QueryServer {
    let schema_outer = Schema::new().expect("schema");
    let idxmeta = {
        let schema_txn = schema_outer.write();
        schema_txn.reload_idxmeta()
    };
    let cfg = BackendConfig::new(None, 1, FsType::Generic, Some(2048));
    let be = Backend::new(cfg, idxmeta, false).expect("be");
    QueryServer::new(be, schema_outer, "example.com".to_string(), ct).expect("qs")
}

// ------------------------------------------------------------------ leaf pool and filter trees

#[derive(Clone, Debug, PartialEq)]
struct LeafSpec {
    kind: u64, // 0 Eq, 1 Cnt, 4 Pres  (KV.C18.Model.kcode)
    attr: &'static str,
    val: &'static str,
}

const ATTRS: [&str; 5] = ["class", "name", "description", "displayname", "mail"];

fn pool() -> Vec<LeafSpec> {
    let mut v = vec![];
    for c in ["group", "person", "account", "dyngroup"] {
        v.push(LeafSpec { kind: 0, attr: "class", val: c });
    }
    for d in ["red", "green", "blue"] {
        v.push(LeafSpec { kind: 0, attr: "description", val: d });
    }
    for d in ["r", "ee", "l"] {
        v.push(LeafSpec { kind: 1, attr: "description", val: d });
    }
    for n in ["ca1", "cb2", "pa3", "cb4", "da2", "db3"] {
        v.push(LeafSpec { kind: 0, attr: "name", val: n });
    }
    for n in ["a", "b", "c", "p", "d", "1", "2"] {
        v.push(LeafSpec { kind: 1, attr: "name", val: n });
    }
    for a in ["description", "displayname", "mail"] {
        v.push(LeafSpec { kind: 4, attr: a, val: "" });
    }
    v
}

fn attr_id(a: &str) -> u64 {
    ATTRS.iter().position(|x| *x == a).expect("attr") as u64
}

/// value ids: position of the (attr,value) string in the pool's value table (Pres: 0)
fn val_id(p: &[LeafSpec], l: &LeafSpec) -> u64 {
    if l.kind == 4 {
        return 0;
    }
    let mut vals: Vec<&str> = vec![];
    for x in p {
        if x.kind != 4 && !vals.contains(&x.val) {
            vals.push(x.val);
        }
    }
    1 + vals.iter().position(|x| *x == l.val).expect("val") as u64
}

#[derive(Clone, Debug, PartialEq)]
enum F {
    Leaf(usize),
    And(Vec<F>),
    Or(Vec<F>),
    Not(Box<F>),
}

impl F {
    fn proto(&self, p: &[LeafSpec]) -> ProtoFilter {
        match self {
            F::Leaf(i) => {
                let l = &p[*i];
                match l.kind {
                    0 => ProtoFilter::Eq(l.attr.to_string(), l.val.to_string()),
                    1 => ProtoFilter::Cnt(l.attr.to_string(), l.val.to_string()),
                    _ => ProtoFilter::Pres(l.attr.to_string()),
                }
            }
            F::And(l) => ProtoFilter::And(l.iter().map(|x| x.proto(p)).collect()),
            F::Or(l) => ProtoFilter::Or(l.iter().map(|x| x.proto(p)).collect()),
            F::Not(g) => ProtoFilter::AndNot(Box::new(g.proto(p))),
        }
    }
    fn from_proto(f: &ProtoFilter, p: &[LeafSpec]) -> F {
        let find = |kind: u64, a: &str, v: &str| -> F {
            F::Leaf(
                p.iter()
                    .position(|l| l.kind == kind && l.attr == a && (kind == 4 || l.val == v))
                    .unwrap_or_else(|| panic!("leaf not in pool: {} {} {}", kind, a, v)),
            )
        };
        match f {
            ProtoFilter::Eq(a, v) => find(0, a, v),
            ProtoFilter::Cnt(a, v) => find(1, a, v),
            ProtoFilter::Pres(a) => find(4, a, ""),
            ProtoFilter::And(l) => F::And(l.iter().map(|x| F::from_proto(x, p)).collect()),
            ProtoFilter::Or(l) => F::Or(l.iter().map(|x| F::from_proto(x, p)).collect()),
            ProtoFilter::AndNot(g) => F::Not(Box::new(F::from_proto(g, p))),
            ProtoFilter::SelfUuid => panic!("selfuuid"),
        }
    }
    fn coq(&self, p: &[LeafSpec]) -> String {
        match self {
            F::Leaf(i) => {
                let l = &p[*i];
                let k = match l.kind { 0 => "KEq", 1 => "KCnt", _ => "KPres" };
                format!("(FLeaf {} {}%N {}%N None)", k, attr_id(l.attr), val_id(p, l))
            }
            F::And(l) => format!("(FAnd {} None)", clist(l, |x| x.coq(p))),
            F::Or(l) => format!("(FOr {} None)", clist(l, |x| x.coq(p))),
            F::Not(g) => format!("(FAndNot {} None)", g.coq(p)),
        }
    }
    fn txt(&self, p: &[LeafSpec]) -> String {
        match self {
            F::Leaf(i) => {
                let l = &p[*i];
                match l.kind { 0 => format!("{}={}", l.attr, l.val), 1 => format!("{}~{}", l.attr, l.val), _ => format!("{}=*", l.attr) }
            }
            F::And(l) => format!("&({})", l.iter().map(|x| x.txt(p)).collect::<Vec<_>>().join(" ")),
            F::Or(l) => format!("|({})", l.iter().map(|x| x.txt(p)).collect::<Vec<_>>().join(" ")),
            F::Not(g) => format!("!{}", g.txt(p)),
        }
    }
}

fn gen_filter(rng: &mut Rng, p: &[LeafSpec], depth: u32, neg_ok: bool) -> F {
    // leaves usable by generated filters: everything except class=dyngroup is fair game too
    let k = if depth == 0 { 0 } else { rng.below(100) };
    if k < 45 {
        F::Leaf(rng.below(p.len() as u64) as usize)
    } else if k < 65 {
        let n = rng.range(1, 3);
        F::And((0..n).map(|_| gen_filter(rng, p, depth - 1, neg_ok)).collect())
    } else if k < 85 {
        let n = rng.range(1, 3);
        F::Or((0..n).map(|_| gen_filter(rng, p, depth - 1, neg_ok)).collect())
    } else if neg_ok {
        F::Not(Box::new(gen_filter(rng, p, depth - 1, neg_ok)))
    } else {
        F::Leaf(rng.below(p.len() as u64) as usize)
    }
}

fn resolved_leaves(wr: &mut QueryServerWriteTransaction, p: &[LeafSpec]) -> Vec<Filter<FilterValidResolved>> {
    p.iter()
        .map(|l| {
            let a = Attribute::from(l.attr);
            let fr = match l.kind {
                0 => FR::Eq(a.clone(), wr.clone_partialvalue(&a, l.val).expect("pv"), None),
                1 => FR::Cnt(a.clone(), wr.clone_partialvalue(&a, l.val).expect("pv"), None),
                _ => FR::Pres(a, None),
            };
            Filter::verif_from_resolved(fr)
        })
        .collect()
}

// ------------------------------------------------------------------ observation

#[derive(Clone, Debug, PartialEq)]
struct Grp {
    id: u64,
    f: F,
    dm: Vec<u64>,
}

#[derive(Clone, Debug, PartialEq, Default)]
struct Obs {
    ok: bool,
    ents: Vec<(u64, Vec<usize>)>,
    grps: Vec<Grp>,
    dead: Vec<(u64, Vec<usize>)>,
}

struct Ctx {
    pool: Vec<LeafSpec>,
    leaves: Vec<Filter<FilterValidResolved>>,
    ids: Intern<Uuid>,
}

fn observe(qs: &QueryServer, rt: &tokio::runtime::Runtime, cx: &mut Ctx) -> Obs {
    rt.block_on(async {
        let mut r = qs.read().await.expect("read");
        let mut live = r.internal_search(filter!(f_pres(Attribute::Class))).expect("search live");
        live.sort_by_key(|e| e.get_uuid());
        let mut rec = r.internal_search(filter_rec!(f_pres(Attribute::Class))).expect("search rec");
        rec.sort_by_key(|e| e.get_uuid());
        let mut o = Obs { ok: true, ..Default::default() };
        for e in live.iter() {
            let id = cx.ids.id(&e.get_uuid());
            let tv: Vec<usize> = (0..cx.leaves.len()).filter(|i| e.entry_match_no_index(&cx.leaves[*i])).collect();
            o.ents.push((id, tv));
        }
        for e in live.iter() {
            if e.attribute_equality(Attribute::Class, &EntryClass::DynGroup.into()) {
                let id = cx.ids.id(&e.get_uuid());
                let pf = e.get_ava_single_protofilter(Attribute::DynGroupFilter).expect("dyngroup without filter");
                let f = F::from_proto(pf, &cx.pool);
                let mut dm: Vec<u64> = e
                    .get_ava_refer(Attribute::DynMember)
                    .map(|s| s.iter().map(|u| cx.ids.id(u)).collect())
                    .unwrap_or_default();
                dm.sort();
                dm.dedup();
                o.grps.push(Grp { id, f, dm });
            }
        }
        for e in rec.iter() {
            let id = cx.ids.id(&e.get_uuid());
            let tv: Vec<usize> = (0..cx.leaves.len()).filter(|i| e.entry_match_no_index(&cx.leaves[*i])).collect();
            o.dead.push((id, tv));
        }
        o.ents.sort();
        o.grps.sort_by_key(|g| g.id);
        o.dead.sort();
        o
    })
}

/// harness-side copy of the property (statistics and the non-triviality rule only)
fn eval(f: &F, tv: &[usize]) -> bool {
    match f {
        F::Leaf(i) => tv.contains(i),
        F::And(l) => l.iter().all(|x| eval(x, tv)),
        F::Or(l) => l.iter().any(|x| eval(x, tv)),
        F::Not(g) => !eval(g, tv),
    }
}
fn obs_exact(o: &Obs) -> bool {
    o.grps.iter().all(|g| {
        let want: Vec<u64> = o.ents.iter().filter(|(_, tv)| eval(&g.f, tv)).map(|(i, _)| *i).collect();
        want == g.dm
    })
}

// ------------------------------------------------------------------ operations

#[derive(Clone, Copy, Debug, PartialEq)]
enum Kind {
    Cand,
    Person,
    Dyn,
}

#[derive(Clone, Debug)]
struct Own {
    uuid: Uuid,
    kind: Kind,
    alive: bool,
    filt: Option<F>,
}

#[derive(Clone, Debug)]
enum Md {
    SetDesc(&'static str),
    PurgeDesc,
    Rename(String),
    SetFilter(F),
    PurgeDynMember,
    AddDynMember(usize),
}

#[derive(Clone, Debug)]
struct NewEnt {
    own: usize,
    name: String,
    desc: Option<&'static str>,
}

#[derive(Clone, Debug)]
enum HOp {
    Create(Vec<NewEnt>),
    /// how: 0 = internal_modify_uuid (one target), 1 = internal_batch_modify, 2 = internal_modify with an Or-of-uuid filter (one shared modlist)
    Modify(Vec<(usize, Vec<Md>)>, u8),
    Delete(Vec<usize>),
}

fn f_uuid(u: Uuid) -> FC {
    f_eq(Attribute::Uuid, PartialValue::Uuid(u))
}

fn modlist(cx: &Ctx, owns: &[Own], mds: &[Md]) -> ModifyList<ModifyInvalid> {
    let mut v = vec![];
    for m in mds {
        match m {
            Md::SetDesc(d) => {
                v.push(Modify::Purged(Attribute::Description));
                v.push(Modify::Present(Attribute::Description, Value::new_utf8s(d)));
            }
            Md::PurgeDesc => v.push(Modify::Purged(Attribute::Description)),
            Md::Rename(n) => {
                v.push(Modify::Purged(Attribute::Name));
                v.push(Modify::Present(Attribute::Name, Value::new_iname(n)));
            }
            Md::SetFilter(f) => {
                v.push(Modify::Purged(Attribute::DynGroupFilter));
                v.push(Modify::Present(Attribute::DynGroupFilter, Value::JsonFilt(f.proto(&cx.pool))));
            }
            Md::PurgeDynMember => v.push(Modify::Purged(Attribute::DynMember)),
            Md::AddDynMember(i) => v.push(Modify::Present(Attribute::DynMember, Value::Refer(owns[*i].uuid))),
        }
    }
    ModifyList::new_list(v)
}

fn mk_entry(cx: &Ctx, owns: &[Own], n: &NewEnt) -> Entry<EntryInit, EntryNew> {
    let o = &owns[n.own];
    let mut e: Entry<EntryInit, EntryNew> = match o.kind {
        Kind::Cand => kanidmd_lib::entry_init!(
            (Attribute::Class, EntryClass::Object.to_value()),
            (Attribute::Class, EntryClass::Group.to_value()),
            (Attribute::Name, Value::new_iname(&n.name)),
            (Attribute::Uuid, Value::Uuid(o.uuid))
        ),
        Kind::Person => kanidmd_lib::entry_init!(
            (Attribute::Class, EntryClass::Object.to_value()),
            (Attribute::Class, EntryClass::Account.to_value()),
            (Attribute::Class, EntryClass::Person.to_value()),
            (Attribute::Name, Value::new_iname(&n.name)),
            (Attribute::DisplayName, Value::new_utf8s(&n.name)),
            (Attribute::Uuid, Value::Uuid(o.uuid))
        ),
        Kind::Dyn => kanidmd_lib::entry_init!(
            (Attribute::Class, EntryClass::Object.to_value()),
            (Attribute::Class, EntryClass::Group.to_value()),
            (Attribute::Class, EntryClass::DynGroup.to_value()),
            (Attribute::Name, Value::new_iname(&n.name)),
            (Attribute::Uuid, Value::Uuid(o.uuid)),
            (
                Attribute::DynGroupFilter,
                Value::JsonFilt(o.filt.as_ref().expect("filter").proto(&cx.pool))
            )
        ),
    };
    if let Some(d) = n.desc {
        e.add_ava(Attribute::Description, Value::new_utf8s(d));
    }
    e
}

/// One write transaction; committed iff the operation succeeded.
fn run_op(qs: &QueryServer, rt: &tokio::runtime::Runtime, cx: &Ctx, owns: &[Own], op: &HOp, t: u64, log: &mut String) -> bool {
    rt.block_on(async {
        let mut wr = qs.write(Duration::from_nanos(t)).await.expect("write");
        let res: Result<Result<(), OperationError>, _> = std::panic::catch_unwind(AssertUnwindSafe(|| match op {
            HOp::Create(ns) => wr.internal_create(ns.iter().map(|n| mk_entry(cx, owns, n)).collect()),
            HOp::Modify(ts, how) => match how {
                0 => wr.internal_modify_uuid(owns[ts[0].0].uuid, &modlist(cx, owns, &ts[0].1)),
                1 => wr.internal_batch_modify(ts.iter().map(|(i, m)| (owns[*i].uuid, modlist(cx, owns, m)))),
                _ => wr.internal_modify(
                    &filter!(f_or(ts.iter().map(|(i, _)| f_uuid(owns[*i].uuid)).collect())),
                    &modlist(cx, owns, &ts[0].1),
                ),
            },
            HOp::Delete(is) => wr.internal_delete(&filter!(f_or(is.iter().map(|i| f_uuid(owns[*i].uuid)).collect()))),
        }));
        match res {
            Ok(Ok(())) => match wr.commit() {
                Ok(()) => true,
                Err(e) => {
                    log.push_str(&format!(" commit-err={:?}", e));
                    false
                }
            },
            Ok(Err(e)) => {
                log.push_str(&format!(" err={:?}", e));
                false
            }
            Err(_) => {
                log.push_str(" PANIC");
                false
            }
        }
    })
}

// ------------------------------------------------------------------ Coq printing

fn c_tv(cx: &Ctx, tv: &[usize]) -> String {
    let p = &cx.pool;
    format!("{}%N", clist(tv, |i| format!("({},{},{})", p[*i].kind, attr_id(p[*i].attr), val_id(p, &p[*i]))))
}
fn c_ent(cx: &Ctx, e: &(u64, Vec<usize>)) -> String {
    format!("({}, {})", cn(e.0), c_tv(cx, &e.1))
}
fn c_ids(v: &[u64]) -> String {
    format!("{}%N", clist(v, |x| x.to_string()))
}
fn c_grp(cx: &Ctx, g: &Grp) -> String {
    format!("(mkG {} {} {})", cn(g.id), g.f.coq(&cx.pool), c_ids(&g.dm))
}
/// `stat` entries (the built-in ones that are not dynamic groups) are bound once per case as `b`
fn c_obs(cx: &Ctx, o: &Obs, stat: &[(u64, Vec<usize>)]) -> String {
    let is_stat = |e: &(u64, Vec<usize>)| stat.binary_search(e).is_ok();
    let all_present = stat.iter().all(|s| o.ents.binary_search(s).is_ok());
    let ents = if all_present {
        let rest: Vec<_> = o.ents.iter().filter(|e| !is_stat(e)).cloned().collect();
        format!("(b ++ {})", clist(&rest, |e| c_ent(cx, e)))
    } else {
        clist(&o.ents, |e| c_ent(cx, e))
    };
    format!(
        "(mkO {} {} {} {})",
        cbool(o.ok),
        ents,
        clist(&o.grps, |g| c_grp(cx, g)),
        clist(&o.dead, |e| c_ent(cx, e))
    )
}

fn main() {
    let args = parse_args();
    let rt = tokio::runtime::Builder::new_current_thread().enable_all().build().expect("rt");
    if args.extra.iter().any(|a| a == "--probe") {
        probe(&rt);
        return;
    }
    let mut rng = Rng::new(args.seed);
    let mut sink = Sink::new(&args, "KV.C18.Model", 6);
    sink.import("KV.Base.Filter");
    sink.rule = "random histories (quick 6-14 ops, thorough 10-28) of committed internal-identity transactions on a fresh, fully initialised \
in-memory QueryServer: create batches of candidate groups / persons / dynamic groups, single / batch / filter-selected modifies \
(description, rename, dyngroup_filter, tampering with dynmember), deletes; dyngroup filters are random AND/OR/NOT trees (depth<=3) over a \
pool of 26 leaves on class, name, description, displayname, mail; four flavours (with/without deletes, one/many own dynamic groups alive). \
non-trivial = a history in which the dynmember of some own dynamic group changed at least twice, at least one change was caused by an \
operation on a candidate (not on the group itself), and every read-back state was exact".into();
    let p = pool();
    let t0: u64 = 1_700_000_000 * NS;
    let n_hist = if args.thorough { 420 } else { 48 };
    for hid in 0..n_hist {
        let qs = open_server(Duration::from_nanos(t0));
        rt.block_on(qs.initialise_helper(Duration::from_nanos(t0), DOMAIN_TGT_LEVEL)).expect("init");
        let leaves = rt.block_on(async {
            let mut wr = qs.write(Duration::from_nanos(t0 + 1)).await.expect("write");
            resolved_leaves(&mut wr, &p)
        });
        let mut cx = Ctx { pool: p.clone(), leaves, ids: Intern::new() };
        let init = observe(&qs, &rt, &mut cx);
        let stat: Vec<(u64, Vec<usize>)> =
            init.ents.iter().filter(|e| !init.grps.iter().any(|g| g.id == e.0)).cloned().collect();

        let flavour = rng.below(100);
        let allow_delete = !(flavour < 50);
        let multi = flavour >= 30 && flavour < 50 || flavour >= 70;
        let neg_ok = !(multi && rng.chance(1, 2));
        let len = if args.thorough { rng.range(10, 28) } else { rng.range(6, 14) } as usize;
        let mut owns: Vec<Own> = vec![];
        let mut name_ctr = 0u32;
        let mut fresh_name = |rng: &mut Rng, k: Kind| -> String {
            name_ctr += 1;
            let a = match k { Kind::Cand => 'c', Kind::Person => 'p', Kind::Dyn => 'd' };
            let b = if rng.chance(1, 2) { 'a' } else { 'b' };
            format!("{}{}{}", a, b, name_ctr)
        };
        let descs: [&'static str; 3] = ["red", "green", "blue"];
        let mut steps: Vec<(HOp, Obs)> = vec![];
        let mut prev = init.clone();
        let mut log = String::new();
        let mut t = t0 + NS;
        let mut cand_caused = 0u32;
        let mut dm_changes = 0u32;
        for _ in 0..len {
            let live_c: Vec<usize> = (0..owns.len()).filter(|i| owns[*i].alive && owns[*i].kind != Kind::Dyn).collect();
            let live_d: Vec<usize> = (0..owns.len()).filter(|i| owns[*i].alive && owns[*i].kind == Kind::Dyn).collect();
            let k = rng.below(100);
            let op = if k < 40 || (live_c.is_empty() && live_d.is_empty()) {
                // create a batch
                let n = rng.range(1, 3);
                let mut ns = vec![];
                let mut dyn_now = live_d.len();
                for _ in 0..n {
                    let want_dyn = rng.chance(if dyn_now == 0 { 5 } else { 2 }, 10) && (multi || dyn_now == 0);
                    let kind = if want_dyn { Kind::Dyn } else if rng.chance(1, 3) { Kind::Person } else { Kind::Cand };
                    if kind == Kind::Dyn {
                        dyn_now += 1;
                    }
                    let uuid = Uuid::from_u128(0xc18c_0000_0000_0000_0000_0000_0000_0000u128 + ((hid as u128) << 32) + owns.len() as u128 + 1);
                    let filt = if kind == Kind::Dyn { Some(gen_filter(&mut rng, &p, 3, neg_ok)) } else { None };
                    owns.push(Own { uuid, kind, alive: false, filt });
                    let desc = if kind == Kind::Dyn {
                        if rng.chance(1, 4) { Some(*rng.pick(&descs)) } else { None }
                    } else if rng.chance(3, 4) {
                        Some(*rng.pick(&descs))
                    } else {
                        None
                    };
                    ns.push(NewEnt { own: owns.len() - 1, name: fresh_name(&mut rng, kind), desc });
                }
                HOp::Create(ns)
            } else if k < 85 || !allow_delete {
                // modify 1..3 distinct live own entries
                let mut all: Vec<usize> = live_c.iter().chain(live_d.iter()).copied().collect();
                rng.shuffle(&mut all);
                // bias towards touching a dynamic group sometimes
                let n = (rng.range(1, 3) as usize).min(all.len());
                let mut ts: Vec<usize> = all[..n].to_vec();
                if !live_d.is_empty() && rng.chance(1, 4) && !ts.iter().any(|i| owns[*i].kind == Kind::Dyn) {
                    ts[0] = *rng.pick(&live_d);
                }
                let how = if ts.len() == 1 { if rng.chance(1, 3) { 1 } else { 0 } } else if rng.chance(1, 4) { 2 } else { 1 };
                let mut tms = vec![];
                if how == 2 {
                    let m = if rng.chance(1, 4) { Md::PurgeDesc } else { Md::SetDesc(*rng.pick(&descs)) };
                    for i in ts.iter() {
                        tms.push((*i, vec![m.clone()]));
                    }
                } else {
                    for i in ts.iter() {
                        let mut mds = vec![];
                        let r = rng.below(100);
                        if owns[*i].kind == Kind::Dyn {
                            if r < 45 {
                                mds.push(Md::SetFilter(gen_filter(&mut rng, &p, 3, neg_ok)));
                            } else if r < 60 {
                                mds.push(Md::SetDesc(*rng.pick(&descs)));
                            } else if r < 70 {
                                mds.push(Md::PurgeDesc);
                            } else if r < 80 {
                                mds.push(Md::Rename(fresh_name(&mut rng, Kind::Dyn)));
                            } else if r < 90 || live_c.is_empty() {
                                mds.push(Md::PurgeDynMember);
                            } else {
                                mds.push(Md::AddDynMember(*rng.pick(&live_c)));
                            }
                        } else if r < 55 {
                            mds.push(Md::SetDesc(*rng.pick(&descs)));
                        } else if r < 75 {
                            mds.push(Md::PurgeDesc);
                        } else {
                            mds.push(Md::Rename(fresh_name(&mut rng, owns[*i].kind)));
                            if rng.chance(1, 3) {
                                mds.push(Md::SetDesc(*rng.pick(&descs)));
                            }
                        }
                        tms.push((*i, mds));
                    }
                }
                HOp::Modify(tms, how)
            } else {
                let mut all: Vec<usize> = live_c.iter().chain(live_d.iter()).copied().collect();
                rng.shuffle(&mut all);
                let n = (rng.range(1, 2) as usize).min(all.len());
                HOp::Delete(all[..n].to_vec())
            };
            t += NS;
            let ok = run_op(&qs, &rt, &cx, &owns, &op, t, &mut log);
            let mut ob = observe(&qs, &rt, &mut cx);
            ob.ok = ok;
            if ok {
                match &op {
                    HOp::Create(ns) => ns.iter().for_each(|n| owns[n.own].alive = true),
                    HOp::Modify(ts, _) => ts.iter().for_each(|(i, mds)| {
                        mds.iter().for_each(|m| if let Md::SetFilter(f) = m { owns[*i].filt = Some(f.clone()) })
                    }),
                    HOp::Delete(is) => is.iter().for_each(|i| owns[*i].alive = false),
                }
            }
            // statistics for the non-triviality rule
            let touched_groups: Vec<u64> = match &op {
                HOp::Create(ns) => ns.iter().filter(|n| owns[n.own].kind == Kind::Dyn).map(|n| cx.ids.id(&owns[n.own].uuid)).collect(),
                HOp::Modify(ts, _) => ts.iter().filter(|(i, _)| owns[*i].kind == Kind::Dyn).map(|(i, _)| cx.ids.id(&owns[*i].uuid)).collect(),
                HOp::Delete(_) => vec![],
            };
            for g in ob.grps.iter() {
                if let Some(pg) = prev.grps.iter().find(|x| x.id == g.id) {
                    if pg.dm != g.dm && !stat.iter().any(|s| s.0 == g.id) {
                        dm_changes += 1;
                        if !touched_groups.contains(&g.id) {
                            cand_caused += 1;
                        }
                    }
                }
            }
            // coverage of the two situations the pre-fix tree got wrong
            if ok && ob.grps.iter().any(|g| touched_groups.contains(&g.id) && ob.dead.iter().any(|(_, tv)| eval(&g.f, tv))) {
                sink.bump("reevaluation_while_a_recycled_entry_matches");
            }
            if ok && ob.grps.iter().any(|g| ob.grps.iter().any(|h| h.id != g.id && touched_groups.contains(&h.id) && (g.dm.contains(&h.id) || prev.grps.iter().any(|pg| pg.id == g.id && pg.dm.contains(&h.id))))) {
                sink.bump("dyngroup_entry_changed_while_member_of_another_group");
            }
            prev = ob.clone();
            steps.push((op, ob));
        }
        drop(qs);

        // ---- print the case
        let all_exact = obs_exact(&init) && steps.iter().all(|(_, o)| obs_exact(o));
        let idof = |cx: &Ctx, i: usize| cx.ids.get(&owns[i].uuid).expect("interned");
        let tv_of = |o: &Obs, id: u64| -> Vec<usize> { o.ents.iter().find(|e| e.0 == id).map(|e| e.1.clone()).unwrap_or_default() };
        let filt_of = |o: &Obs, id: u64, i: usize| -> Option<F> {
            if owns[i].kind != Kind::Dyn {
                return None;
            }
            o.grps.iter().find(|g| g.id == id).map(|g| g.f.clone()).or_else(|| match &owns[i].filt { Some(f) => Some(f.clone()), None => None })
        };
        let c_target = |cx: &Ctx, o: &Obs, i: usize, newf: Option<&F>| -> String {
            let id = idof(cx, i);
            // the filter the operation leaves on the entry: read back when the operation committed
            let f = if o.ok { filt_of(o, id, i) } else { newf.cloned().or_else(|| filt_of(o, id, i)) };
            format!("(mkT {} {} {})", cn(id), c_tv(cx, &tv_of(o, id)), copt(&f, |f| f.coq(&cx.pool)))
        };
        let mut coq_steps = vec![];
        let mut txt = format!("hist#{} del={} multi={} neg={} exact={}:", hid, allow_delete as u8, multi as u8, neg_ok as u8, all_exact as u8);
        for (op, ob) in steps.iter() {
            let (c, tx) = match op {
                HOp::Create(ns) => {
                    let ts: Vec<String> = ns.iter().map(|n| c_target(&cx, ob, n.own, owns[n.own].filt.as_ref())).collect();
                    sink.bump("op_create");
                    let d: Vec<String> = ns
                        .iter()
                        .map(|n| {
                            format!(
                                "{}#{}{}{}",
                                n.name,
                                idof(&cx, n.own),
                                n.desc.map(|d| format!(":{}", d)).unwrap_or_default(),
                                match ob.grps.iter().find(|g| g.id == idof(&cx, n.own)) { Some(g) => format!(" F={}", g.f.txt(&p)), None => String::new() }
                            )
                        })
                        .collect();
                    (format!("(OCreate {})", clist_s(&ts)), format!("C[{}]", d.join("; ")))
                }
                HOp::Modify(tms, how) => {
                    let ts: Vec<String> = tms
                        .iter()
                        .map(|(i, mds)| {
                            let nf = mds.iter().find_map(|m| if let Md::SetFilter(f) = m { Some(f) } else { None });
                            c_target(&cx, ob, *i, nf)
                        })
                        .collect();
                    sink.bump(["op_modify_uuid", "op_batch_modify", "op_modify_filter"][*how as usize]);
                    let d: Vec<String> = tms
                        .iter()
                        .map(|(i, mds)| {
                            format!(
                                "#{}{}",
                                idof(&cx, *i),
                                mds.iter()
                                    .map(|m| match m {
                                        Md::SetDesc(d) => format!(" desc={}", d),
                                        Md::PurgeDesc => " desc-".to_string(),
                                        Md::Rename(n) => format!(" name={}", n),
                                        Md::SetFilter(f) => format!(" F={}", f.txt(&p)),
                                        Md::PurgeDynMember => " dynmember-".to_string(),
                                        Md::AddDynMember(j) => format!(" dynmember+#{}", idof(&cx, *j)),
                                    })
                                    .collect::<String>()
                            )
                        })
                        .collect();
                    (format!("(OModify {})", clist_s(&ts)), format!("M{}[{}]", how, d.join("; ")))
                }
                HOp::Delete(is) => {
                    sink.bump("op_delete");
                    let ids: Vec<u64> = is.iter().map(|i| idof(&cx, *i)).collect();
                    (format!("(ODelete {})", c_ids(&ids)), format!("D{:?}", ids))
                }
            };
            let own_g: Vec<String> = ob
                .grps
                .iter()
                .filter(|g| !stat.iter().any(|s| s.0 == g.id) && !init.grps.iter().any(|x| x.id == g.id))
                .map(|g| {
                    let n0 = init.ents.len() as u64;
                    let own: Vec<u64> = g.dm.iter().copied().filter(|x| *x >= n0).collect();
                    format!("g{}={}b+{:?}", g.id, g.dm.len() - own.len(), own)
                })
                .collect();
            txt.push_str(&format!(" {}{} => {}{} |", tx, if ob.ok { "" } else { " FAILED" }, own_g.join(" "), if obs_exact(ob) { "" } else { " INEXACT" }));
            coq_steps.push(format!("({}, {})", c, c_obs(&cx, ob, &stat)));
        }
        if !log.is_empty() {
            txt.push_str(&format!(" log:{}", log));
        }
        let coq = format!(
            "(let b := {} in CHist {} {})",
            clist(&stat, |e| c_ent(&cx, e)),
            c_obs(&cx, &init, &stat),
            clist_s(&coq_steps)
        );
        let nontrivial = all_exact && dm_changes >= 2 && cand_caused >= 1;
        sink.case(coq, txt, nontrivial);
        sink.bump(if all_exact { "history_all_states_exact" } else { "history_with_inexact_state" });
        if steps.iter().any(|(_, o)| !o.ok) {
            sink.bump("history_with_failed_op");
        }
        sink.add_stat("dynmember_changes_of_own_groups", dm_changes as u64);
        sink.add_stat("dynmember_changes_caused_by_candidates", cand_caused as u64);
        sink.add_stat("entries_in_initial_directory", init.ents.len() as u64);
    }
    sink.finish();
}

/// The two minimal failing scenarios on the real server (stderr only).
fn probe(rt: &tokio::runtime::Runtime) {
    let t0: u64 = 1_700_000_000 * NS;
    let qs = open_server(Duration::from_nanos(t0));
    rt.block_on(qs.initialise_helper(Duration::from_nanos(t0), DOMAIN_TGT_LEVEL)).expect("init");
    let c1 = Uuid::from_u128(0xc18c_ffff_0000_0000_0000_0000_0000_0001u128);
    let d1 = Uuid::from_u128(0xc18c_ffff_0000_0000_0000_0000_0000_0101u128);
    let d2 = Uuid::from_u128(0xc18c_ffff_0000_0000_0000_0000_0000_0102u128);
    let ec1: Entry<EntryInit, EntryNew> = kanidmd_lib::entry_init!(
        (Attribute::Class, EntryClass::Object.to_value()),
        (Attribute::Class, EntryClass::Group.to_value()),
        (Attribute::Name, Value::new_iname("cand1")),
        (Attribute::Description, Value::new_utf8s("red")),
        (Attribute::Uuid, Value::Uuid(c1))
    );
    let mk_dyn = |name: &str, u: Uuid, desc: &str, f: &ProtoFilter| -> Entry<EntryInit, EntryNew> {
        kanidmd_lib::entry_init!(
            (Attribute::Class, EntryClass::Object.to_value()),
            (Attribute::Class, EntryClass::Group.to_value()),
            (Attribute::Class, EntryClass::DynGroup.to_value()),
            (Attribute::Name, Value::new_iname(name)),
            (Attribute::Description, Value::new_utf8s(desc)),
            (Attribute::Uuid, Value::Uuid(u)),
            (Attribute::DynGroupFilter, Value::JsonFilt(f.clone()))
        )
    };
    let dynmember = |g: Uuid| -> Vec<Uuid> {
        rt.block_on(async {
            let mut r = qs.read().await.expect("read");
            let e = r.internal_search_uuid(g).expect("g");
            e.get_ava_refer(Attribute::DynMember).map(|s| s.iter().copied().collect()).unwrap_or_default()
        })
    };
    let f_red = ProtoFilter::Eq("description".into(), "red".into());
    let mut t = t0 + NS;
    let mut step = |name: &str, f: &mut dyn FnMut(&mut QueryServerWriteTransaction) -> Result<(), OperationError>| {
        t += NS;
        rt.block_on(async {
            let mut wr = qs.write(Duration::from_nanos(t)).await.expect("write");
            let r = f(&mut wr);
            eprintln!("op {} -> {:?}", name, r);
            if r.is_ok() {
                wr.commit().expect("commit");
            }
        });
    };
    step("create dyn1 (filter description=red; own description blue)", &mut |wr| wr.internal_create(vec![mk_dyn("dyn1", d1, "blue", &f_red)]));
    step("create cand1 (description red)", &mut |wr| wr.internal_create(vec![ec1.clone()]));
    eprintln!("  dyn1.dynmember = {:?}", dynmember(d1));
    step("delete cand1", &mut |wr| wr.internal_delete_uuid(c1));
    eprintln!("  dyn1.dynmember = {:?}", dynmember(d1));
    step("modify dyn1: description := green", &mut |wr| {
        wr.internal_modify_uuid(d1, &ModifyList::new_purge_and_set(Attribute::Description, Value::new_utf8s("green")))
    });
    eprintln!("  K1: dyn1.dynmember = {:?}   (cand1 is in the recycle bin; expected [])", dynmember(d1));
    step("create dyn2 (filter description=red; own description red)", &mut |wr| wr.internal_create(vec![mk_dyn("dyn2", d2, "red", &f_red)]));
    eprintln!("  K2: dyn1.dynmember = {:?}   (expected to contain dyn2 {})", dynmember(d1), d2);
    eprintln!("      dyn2.dynmember = {:?}   (contains itself, and recycled cand1 by K1)", dynmember(d2));
    let v = rt.block_on(qs.verify());
    eprintln!("  QueryServer::verify() = {:?}", v);
}
