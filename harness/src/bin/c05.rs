//! C05 — a crash at any point recovers to the before or after state.
//!
//! The parent prepares a base database (file-backed QueryServer + fixed world). For every
//! representative write transaction it first runs a CHILD PROCESS (re-exec of this binary,
//! `--child`) in Log mode to record the storage-point trace of the transaction, then for every
//! storage point k = 1..n+1 it copies the base database, runs a child with the crash hook
//! Abort(k) (`kanidmd_lib::verif_hooks::c04`: abort() right BEFORE the k-th SQLite statement /
//! BEGIN / COMMIT, and at the crash-only point after COMMIT returned), and reopens the database
//! itself: persisted db_ts_max as read by QueryServer::new, initialise_helper, the first change
//! id issued at an EARLIER clock, the RUV, QueryServer::verify(), and the content.
use kanidm_proto::internal::{Filter as ProtoFilter, FsType};
use kanidmd_lib::be::{Backend, BackendConfig};
use kanidmd_lib::entry::{Entry, EntryInit, EntryNew};
use kanidmd_lib::filter;
use kanidmd_lib::prelude::*;
use kanidmd_lib::schema::Schema;
use kanidmd_lib::verif_hooks::c04 as hook;
use kvh::*;
use std::path::{Path, PathBuf};

const NE: u64 = 4;
const U_READER: Uuid = Uuid::from_u128(0xc05_0000_0000_0000_0000_0000_0000_0001);
const U_GROUP: Uuid = Uuid::from_u128(0xc05_0000_0000_0000_0000_0000_0000_0002);
const U_TARGET: Uuid = Uuid::from_u128(0xc05_0000_0000_0000_0000_0000_0000_0003);
const BASE: u64 = 1_900_000_000;

#[derive(Clone, Debug, PartialEq)]
enum Op {
    Create(u64, u64),
    Modify(u64, u64),
    Delete(u64),
    Acp(bool),
    Domain(u64),
    #[allow(dead_code)]
    Oauth2(u64, bool),
}

#[derive(Clone, Debug, PartialEq, Eq)]
struct View {
    ents: Vec<(u64, u64)>,
    acp: bool,
    dom: u64,
    o2: Vec<u64>,
}

fn ename(e: u64) -> String {
    format!("c05e{e}")
}

fn group_entry(u: Uuid, name: &str, desc: &str) -> Entry<EntryInit, EntryNew> {
    kanidmd_lib::entry_init!(
        (Attribute::Class, EntryClass::Object.to_value()),
        (Attribute::Class, EntryClass::Group.to_value()),
        (Attribute::Name, Value::new_iname(name)),
        (Attribute::Uuid, Value::Uuid(u)),
        (Attribute::Description, Value::new_utf8s(desc))
    )
}

fn num_suffix(s: &str, prefix: &str) -> u64 {
    s.strip_prefix(prefix).and_then(|r| r.parse::<u64>().ok()).map(|n| n + 1).unwrap_or(0)
}

fn label_code(l: &str) -> u64 {
    match l {
        "w:ts_max" => 1,
        "w:ruv" => 2,
        "w:identry" | "w:identry_del" => 3,
        "w:idl" => 4,
        "w:name" => 5,
        "commit" => 6,
        "post_commit" => 7,
        "begin_w" => 8,
        x if x.starts_with("r:") => 0,
        _ => 9,
    }
}

fn apply_model(v: &View, ops: &[Op]) -> Option<View> {
    let mut v = v.clone();
    for op in ops {
        match op {
            Op::Create(e, d) => {
                if v.ents.iter().any(|x| x.0 == *e) {
                    return None;
                }
                v.ents.push((*e, *d + 1));
                v.ents.sort();
            }
            Op::Modify(e, d) => {
                for x in v.ents.iter_mut() {
                    if x.0 == *e {
                        x.1 = *d + 1;
                    }
                }
            }
            Op::Delete(e) => {
                if !v.ents.iter().any(|x| x.0 == *e) {
                    return None;
                }
                v.ents.retain(|x| x.0 != *e);
            }
            Op::Acp(b) => {
                if v.acp == *b {
                    return None;
                }
                v.acp = *b;
            }
            Op::Domain(d) => v.dom = *d + 1,
            Op::Oauth2(c, b) => {
                if v.o2.contains(c) == *b {
                    return None;
                }
                if *b {
                    v.o2.push(*c);
                    v.o2.sort();
                } else {
                    v.o2.retain(|x| x != c);
                }
            }
        }
    }
    Some(v)
}

fn c_view(v: &View) -> String {
    capp(
        "mkcells",
        &[
            clist(&v.ents, |(e, d)| format!("({}, {})", cn(*e), cn(*d))),
            cbool(v.acp),
            cn(v.dom),
            clist(&v.o2, |c| cn(*c)),
        ],
    )
}
fn c_op(o: &Op) -> String {
    match o {
        Op::Create(e, d) => capp("OCreate", &[cn(*e), cn(*d + 1)]),
        Op::Modify(e, d) => capp("OModify", &[cn(*e), cn(*d + 1)]),
        Op::Delete(e) => capp("ODelete", &[cn(*e)]),
        Op::Acp(b) => capp("OAcp", &[cbool(*b)]),
        Op::Domain(d) => capp("ODomain", &[cn(*d + 1)]),
        Op::Oauth2(c, b) => capp("OOauth2", &[cn(*c), cbool(*b)]),
    }
}


async fn open_server(path: &Path, ct: Duration) -> QueryServer {
    let schema_outer = Schema::new().expect("schema");
    let idxmeta = {
        let schema_txn = schema_outer.write();
        schema_txn.reload_idxmeta()
    };
    let cfg = BackendConfig::new(Some(path), 2, FsType::Generic, Some(2048));
    let be = Backend::new(cfg, idxmeta, false).expect("be");
    QueryServer::new(be, schema_outer, "example.com".to_string(), ct).expect("qs")
}

fn txn_uuid(tidx: u64, n: u64) -> Uuid {
    Uuid::from_u128(0xc05_0000_0000_0000_0000_0001_0000_0000u128 + ((tidx as u128) << 16) + n as u128)
}

fn apply_op(w: &mut QueryServerWriteTransaction<'_>, tidx: u64, n: u64, op: &Op) -> Result<(), OperationError> {
    match op {
        Op::Create(e, d) => w.internal_create(vec![group_entry(txn_uuid(tidx, n), &ename(*e), &format!("d{d}"))]),
        Op::Modify(e, d) => w.internal_modify(
            &filter!(f_eq(Attribute::Name, PartialValue::new_iname(&ename(*e)))),
            &ModifyList::new_purge_and_set(Attribute::Description, Value::new_utf8s(&format!("d{d}"))),
        ),
        Op::Delete(e) => w.internal_delete(&filter!(f_eq(Attribute::Name, PartialValue::new_iname(&ename(*e))))),
        Op::Acp(true) => {
            let mut e: Entry<EntryInit, EntryNew> = kanidmd_lib::entry_init!(
                (Attribute::Class, EntryClass::Object.to_value()),
                (Attribute::Class, EntryClass::AccessControlProfile.to_value()),
                (Attribute::Class, EntryClass::AccessControlSearch.to_value()),
                (Attribute::Class, EntryClass::AccessControlReceiverGroup.to_value()),
                (Attribute::Class, EntryClass::AccessControlTargetScope.to_value()),
                (Attribute::Name, Value::new_iname("c05acp")),
                (Attribute::Uuid, Value::Uuid(txn_uuid(tidx, n))),
                (Attribute::Description, Value::new_utf8s("c05 profile under test")),
                (Attribute::AcpReceiverGroup, Value::Refer(U_GROUP)),
                (
                    Attribute::AcpTargetScope,
                    Value::new_json_filter(ProtoFilter::Eq("name".to_string(), "c05target".to_string()))
                )
            );
            for a in ["name", "description", "class", "uuid"] {
                e.add_ava(Attribute::AcpSearchAttr, Value::new_iutf8(a));
            }
            w.internal_create(vec![e])
        }
        Op::Acp(false) => w.internal_delete(&filter!(f_eq(Attribute::Name, PartialValue::new_iname("c05acp")))),
        Op::Domain(d) => w.internal_modify_uuid(
            UUID_DOMAIN_INFO,
            &ModifyList::new_purge_and_set(Attribute::DomainDisplayName, Value::new_utf8s(&format!("c05dom{d}"))),
        ),
        Op::Oauth2(_, _) => Err(OperationError::InvalidState),
    }
}

fn txns(thorough: bool) -> Vec<Vec<Op>> {
    let mut v = vec![
        vec![Op::Create(2, 1)],
        vec![Op::Modify(0, 3), Op::Delete(1), Op::Domain(4)],
    ];
    if thorough {
        v.push(vec![Op::Acp(true)]);
        v.push(vec![Op::Delete(0)]);
        v.push(vec![Op::Create(3, 2), Op::Create(2, 2), Op::Modify(1, 0), Op::Acp(true), Op::Domain(1)]);
        v.push(vec![Op::Domain(2)]);
    }
    v
}

async fn view(qs: &QueryServer) -> View {
    let mut rd = qs.read().await.expect("read");
    let mut ents = vec![];
    for e in 0..NE {
        let r = rd
            .internal_search(filter!(f_eq(Attribute::Name, PartialValue::new_iname(&ename(e)))))
            .expect("search");
        if let Some(x) = r.first() {
            let d = x
                .get_ava_set(Attribute::Description)
                .and_then(|vs| vs.to_proto_string_single())
                .unwrap_or_default();
            ents.push((e, num_suffix(&d, "d")));
        }
    }
    let reader = rd.internal_search_uuid(U_READER).expect("reader");
    let ident = Identity::from_impersonate_entry_readwrite(reader);
    let f = filter!(f_eq(Attribute::Name, PartialValue::new_iname("c05target")));
    let acp = match rd.impersonate_search_ext(f.clone(), f, &ident) {
        Ok(v) => v.iter().any(|e| e.get_ava_set(Attribute::Description).is_some()),
        Err(_) => false,
    };
    let dom = num_suffix(rd.get_domain_display_name(), "c05dom");
    View { ents, acp, dom, o2: vec![] }
}

/// child process: open the database, run transaction `tidx` at clock `ct` under the policy, exit 0
fn child(args: &Args) -> ! {
    let i = args.extra.iter().position(|a| a == "--child").expect("child");
    let path = PathBuf::from(&args.extra[i + 1]);
    let tidx: u64 = args.extra[i + 2].parse().expect("tidx");
    let k: u64 = args.extra[i + 3].parse().expect("k");
    let ct: u64 = args.extra[i + 4].parse().expect("ct");
    let log = PathBuf::from(&args.extra[i + 5]);
    let thorough = args.thorough;
    let rt = tokio::runtime::Builder::new_current_thread().enable_all().build().expect("rt");
    rt.block_on(async {
        let open_ct = Duration::from_secs(ct - 100);
        let qs = open_server(&path, open_ct).await;
        qs.initialise_helper(open_ct, DOMAIN_TGT_LEVEL).await.expect("init");
        let ops = txns(thorough)[tidx as usize].clone();
        hook::install(if k == 0 { hook::Policy::Log } else { hook::Policy::Abort(k) });
        let mut w = qs.write(Duration::from_secs(ct)).await.expect("write");
        for (n, op) in ops.iter().enumerate() {
            apply_op(&mut w, tidx, n as u64, op).expect("op");
        }
        w.commit().expect("commit");
        let (count, labels, _) = hook::take();
        let codes: Vec<String> = labels.iter().map(|l| label_code(l).to_string()).collect();
        std::fs::write(&log, format!("{}\n{}\n", count, codes.join(" "))).expect("log");
    });
    std::process::exit(0)
}

fn copy_db(from: &Path, to: &Path) {
    for ext in ["db", "db-wal", "db-shm"] {
        let _ = std::fs::remove_file(to.with_extension(ext));
    }
    std::fs::copy(from, to).expect("copy db");
    for ext in ["db-wal", "db-shm"] {
        let f = from.with_extension(ext);
        if f.exists() {
            std::fs::copy(&f, to.with_extension(ext)).expect("copy wal");
        }
    }
}

struct Reopened {
    ts_rel: u64,
    ruv_has: bool,
    verr: u64,
    view: View,
    cid_ok: bool,
    detail: String,
}

fn reopen(rt: &tokio::runtime::Runtime, path: &Path, ct_child: u64) -> Reopened {
    rt.block_on(async {
        // the restarted server's clock is EARLIER than the crashed transaction's
        let ct_r = Duration::from_secs(BASE + 500);
        let qs = open_server(path, ct_r).await;
        let raw = qs.verif_db_ts_max().expect("dbts").map(|d| d.as_nanos() as u64).unwrap_or(0);
        let child_ns = ct_child * 1_000_000_000;
        let ts_rel = if raw < child_ns { 0 } else if raw == child_ns { 1 } else { 2 };
        qs.initialise_helper(ct_r, DOMAIN_TGT_LEVEL).await.expect("init");
        let (ruv_has, max_ruv) = {
            let mut rd = qs.read().await.expect("read");
            let (data, _) = kanidmd_lib::verif_hooks::c09::ruv_dump_read(&mut rd);
            (
                data.iter().any(|(c, _)| c.ts.as_nanos() as u64 == child_ns),
                data.iter().map(|(c, _)| c.ts.as_nanos() as u64).max().unwrap_or(0),
            )
        };
        let v = view(&qs).await;
        // every committed change id is in the RUV; the next id must exceed them all and the persisted maximum
        let next = {
            let w = qs.write(ct_r).await.expect("write");
            let c = w.verif_cid().ts.as_nanos() as u64;
            drop(w);
            c
        };
        let cid_ok = next > raw && next > max_ruv && (!ruv_has || next > child_ns);
        let verr = qs.verify().await.iter().filter(|r| r.is_err()).count() as u64;
        Reopened {
            ts_rel,
            ruv_has,
            verr,
            view: v,
            cid_ok,
            detail: format!("raw_ts_max-child={} next-child={}", raw as i128 - child_ns as i128, next as i128 - child_ns as i128),
        }
    })
}

fn main() {
    let args = parse_args();
    if args.extra.iter().any(|a| a == "--child") {
        child(&args);
    }
    let mut sink = Sink::new(&args, "KV.C05.Model", 40);
    sink.rule = "representative write transactions on a file-backed database; for each, EVERY storage point k (1..n+1, n from a Log-mode child) is used as abort() point \
in a forked child process (re-exec --child); the parent reopens the database copy: persisted db_ts_max, RUV, verify(), content, first change id at an earlier clock. \
non-trivial = the child really aborted (k <= n)".into();
    let rt = tokio::runtime::Builder::new_current_thread().enable_all().build().expect("rt");
    let dir = args.out.join("scratch");
    let _ = std::fs::remove_dir_all(&dir);
    std::fs::create_dir_all(&dir).expect("scratch");
    let base = dir.join("c05_base.db");
    let work = dir.join("c05_work.db");
    let logf = dir.join("c05_trace.txt");
    // base database
    let before = rt.block_on(async {
        let ct = Duration::from_secs(BASE + 1);
        let qs = open_server(&base, ct).await;
        qs.initialise_helper(ct, DOMAIN_TGT_LEVEL).await.expect("init");
        let mut w = qs.write(Duration::from_secs(BASE + 2)).await.expect("write");
        let person: Entry<EntryInit, EntryNew> = kanidmd_lib::entry_init!(
            (Attribute::Class, EntryClass::Object.to_value()),
            (Attribute::Class, EntryClass::Account.to_value()),
            (Attribute::Class, EntryClass::Person.to_value()),
            (Attribute::Name, Value::new_iname("c05reader")),
            (Attribute::Uuid, Value::Uuid(U_READER)),
            (Attribute::Description, Value::new_utf8s("c05reader")),
            (Attribute::DisplayName, Value::new_utf8s("c05reader"))
        );
        let mut g = group_entry(U_GROUP, "c05readers", "readers");
        g.add_ava(Attribute::Member, Value::Refer(U_READER));
        let t = group_entry(U_TARGET, "c05target", "secret");
        let e0 = group_entry(Uuid::from_u128(0xc05_0000_0000_0000_0000_0000_0000_0010), &ename(0), "d1");
        let e1 = group_entry(Uuid::from_u128(0xc05_0000_0000_0000_0000_0000_0000_0011), &ename(1), "d2");
        w.internal_create(vec![person, g, t, e0, e1]).expect("world");
        w.commit().expect("commit world");
        let v = view(&qs).await;
        drop(qs);
        v
    });
    let exe = std::env::current_exe().expect("exe");
    let tier = if args.thorough { "thorough" } else { "quick" };
    let all = txns(args.thorough);
    for (tidx, ops) in all.iter().enumerate() {
        let ct_child = BASE + 1000 + tidx as u64;
        let run_child = |k: u64| -> bool {
            copy_db(&base, &work);
            let _ = std::fs::remove_file(&logf);
            let st = std::process::Command::new(&exe)
                .args(["--tier", tier, "--out"])
                .arg(&args.out)
                .arg("--child")
                .arg(&work)
                .args([tidx.to_string(), k.to_string(), ct_child.to_string()])
                .arg(&logf)
                .stdout(std::process::Stdio::null())
                .stderr(std::process::Stdio::null())
                .status()
                .expect("spawn child");
            st.success()
        };
        // Log-mode child: the storage-point trace of the transaction
        assert!(run_child(0), "log child failed");
        let txt = std::fs::read_to_string(&logf).expect("trace");
        let mut lines = txt.lines();
        let n: u64 = lines.next().expect("n").parse().expect("n");
        let trace: Vec<u64> = lines.next().unwrap_or("").split_whitespace().map(|x| x.parse().expect("code")).collect();
        assert_eq!(n as usize, trace.len());
        sink.add_stat("storage_points_total", n);
        let after = apply_model(&before, ops).expect("valid txn");
        for k in 1..=n + 1 {
            let finished = run_child(k);
            let r = reopen(&rt, &work, ct_child);
            let coq = capp(
                "CCrash",
                &[
                    c_view(&before),
                    clist(ops, c_op),
                    clist(&trace, |l| cn(*l)),
                    cn(k),
                    cbool(!finished),
                    cn(r.ts_rel),
                    cbool(r.ruv_has),
                    cn(r.verr),
                    c_view(&r.view),
                    cbool(r.cid_ok),
                ],
            );
            let state = if r.view == before { "BEFORE" } else if r.view == after { "AFTER" } else { "OTHER" };
            let txt = format!(
                "crash txn#{} ops={:?} k={}/{} label={} child_aborted={} -> {} ts_rel={} ruv_has={} verify_errs={} cid_ok={} {} view={:?}",
                tidx, ops, k, n, trace.get(k as usize - 1).map(|c| c.to_string()).unwrap_or("-".into()), !finished, state, r.ts_rel, r.ruv_has, r.verr, r.cid_ok, r.detail, r.view
            );
            sink.case(coq, txt, !finished);
            sink.bump(&format!("recovered_{}", state));
            sink.bump(if finished { "child_finished" } else { "child_aborted" });
        }
    }
    let _ = std::fs::remove_dir_all(&dir);
    sink.exhaustive = false;
    sink.finish();
}
