//! C13 — backup then restore reproduces the database.
//!
//! A REAL in-memory QueryServer (fixed start time) is driven through a random server-level
//! history (persons with password credentials and login sessions, groups with members,
//! renames, deletes, revives, recycle-bin and tombstone purges across the retention windows).
//! At the end the harness
//!   * answers a batch of searches on the live server,
//!   * takes `BackendTransaction::backup` twice from ONE read transaction (plain and gzip),
//!   * dumps the source backend (raw id2entry rows, db ids, key handles, in-memory RUV with id
//!     lists, per-server ranges, persisted ruv table, cached max id),
//!   * replays what `restore_server_core` does on a file-backed target: `restore` + commit,
//!     `reindex` + commit (dump "mid"), then closes the database and opens it again
//!     (`Backend::new` -> ruv_reload; dump "re"), starts a QueryServer on it, runs
//!     `QueryServer::verify()` and the same searches.
//! The target is either brand new or already holds another database.
//! Extra case kinds: the version gate on re-written backups (CGate), and what happens when the
//! restoring process goes on to create an entry (CInproc: the id the new entry receives and
//! how many restored entries are still there).
//! The Coq model (KV.C13.Model) computes backup/restore/commit/reopen on the source dump
//! (`agree`) and `pcheck` states the property on the implementation's own dumps.
use kanidm_proto::backup::BackupCompression;
use kanidm_proto::internal::FsType;
use kanidmd_lib::be::{Backend, BackendConfig, BackendTransaction};
use kanidmd_lib::entry::{Entry, EntryInit, EntryNew};
use kanidmd_lib::event::ReviveRecycledEvent;
use kanidmd_lib::prelude::*;
use kanidmd_lib::schema::Schema;
use kanidmd_lib::value::{AuthType, Session, SessionScope, SessionState};
use kanidmd_lib::valueset::ValueSet;
use kanidmd_lib::verif_hooks::c13 as hook;
use kanidmd_lib::verif_hooks::c36 as hook36;
use kanidmd_lib::{filter, filter_all, filter_rec};
use kvh::*;
use std::collections::{BTreeMap, BTreeSet};
use std::panic::AssertUnwindSafe;
use std::path::{Path, PathBuf};

const NS: u64 = 1_000_000_000;
const DAY: u64 = 86_400 * NS;

fn new_backend(path: Option<&Path>) -> (Backend, Schema) {
    let schema_outer = Schema::new().expect("schema");
    let idxmeta = {
        let schema_txn = schema_outer.write();
        schema_txn.reload_idxmeta()
    };
    let cfg = BackendConfig::new(path, 1, FsType::Generic, Some(2048));
    let be = Backend::new(cfg, idxmeta, false).expect("be");
    (be, schema_outer)
}

fn rm_db(path: &Path) {
    let _ = std::fs::remove_file(path);
    let _ = std::fs::remove_file(path.with_extension("db-wal"));
    let _ = std::fs::remove_file(path.with_extension("db-shm"));
}

// ------------------------------------------------------------------ dumps

#[derive(Clone, PartialEq)]
struct Row {
    id: u64,
    uuid: Uuid,
    body: Vec<u8>,
    cids: Vec<Cid>,
}

#[derive(Clone, PartialEq)]
struct Dump {
    s: Option<Uuid>,
    d: Option<Uuid>,
    ts: Option<Duration>,
    kh: String,
    rows: Vec<Row>,
    ruv: Vec<(Cid, Vec<u64>)>,
    ranged: Vec<(Uuid, Vec<Duration>)>,
    dbruv: Vec<Cid>,
    maxid: u64,
}

fn dump_be(be: &Backend) -> Dump {
    let mut w = be.write().expect("be write");
    let d = hook::dump(&mut w).expect("dump");
    let ents = kanidmd_lib::be::verif_all_entries(&mut w).expect("all entries");
    let mut by_id: BTreeMap<u64, (Uuid, Vec<Cid>)> = BTreeMap::new();
    for e in ents.iter() {
        by_id.insert(e.get_id(), (e.get_uuid(), hook::entry_cids(e)));
    }
    let mut rows = vec![];
    for (id, body) in d.rows.into_iter() {
        let (uuid, cids) = by_id.get(&id).cloned().unwrap_or((Uuid::nil(), vec![]));
        rows.push(Row { id, uuid, body, cids });
    }
    rows.sort_by_key(|r| r.id);
    let dbruv = w.verif_c13_db_ruv().expect("db ruv");
    let maxid = w.verif_c13_max_id().expect("max id");
    drop(w);
    Dump { s: d.s_uuid, d: d.d_uuid, ts: d.ts_max, kh: d.keyhandles, rows, ruv: d.ruv, ranged: d.ranged, dbruv, maxid }
}

/// Per-case canonical numbering: uuids / bodies / key handle blobs by first appearance,
/// timestamps and server ids by rank (order preserving, so the (ts, server) order of Cid is kept).
struct Ctx {
    uu: Intern<Uuid>,
    body: Intern<Vec<u8>>,
    kh: Intern<String>,
    ts: BTreeMap<Duration, u64>,
    sid: BTreeMap<Uuid, u64>,
}

impl Ctx {
    fn new(dumps: &[&Dump]) -> Self {
        let mut ts = BTreeSet::new();
        let mut sid = BTreeSet::new();
        for d in dumps {
            let mut add = |c: &Cid| {
                ts.insert(c.ts);
                sid.insert(c.s_uuid);
            };
            for r in &d.rows {
                r.cids.iter().for_each(&mut add);
            }
            d.ruv.iter().for_each(|(c, _)| add(c));
            d.dbruv.iter().for_each(&mut add);
            for (s, set) in &d.ranged {
                sid.insert(*s);
                set.iter().for_each(|t| {
                    ts.insert(*t);
                });
            }
        }
        Ctx {
            uu: Intern::new(),
            body: Intern::new(),
            kh: Intern::new(),
            ts: ts.into_iter().enumerate().map(|(i, t)| (t, i as u64 + 1)).collect(),
            sid: sid.into_iter().enumerate().map(|(i, s)| (s, i as u64 + 1)).collect(),
        }
    }
    fn cid(&self, c: &Cid) -> String {
        format!("({}, {})", cn(self.ts[&c.ts]), cn(self.sid[&c.s_uuid]))
    }
    fn ouuid(&mut self, u: &Option<Uuid>) -> String {
        match u {
            Some(u) => format!("(Some {})", cn(self.uu.id(u))),
            None => "None".into(),
        }
    }
    fn dump(&mut self, d: &Dump) -> String {
        let rows: Vec<String> = d
            .rows
            .iter()
            .map(|r| {
                let u = self.uu.id(&r.uuid);
                let b = self.body.id(&r.body);
                capp("mkrow", &[cn(r.id), cn(u), cn(b), clist(&r.cids, |c| self.cid(c))])
            })
            .collect();
        let ruv: Vec<String> = d.ruv.iter().map(|(c, l)| format!("({}, {})", self.cid(c), clist(l, |x| cn(*x)))).collect();
        let ranged: Vec<String> =
            d.ranged.iter().map(|(s, l)| format!("({}, {})", cn(self.sid[s]), clist(l, |t| cn(self.ts[t])))).collect();
        let s = self.ouuid(&d.s);
        let dd = self.ouuid(&d.d);
        let kh = self.kh.id(&d.kh);
        capp(
            "mkdump",
            &[
                s,
                dd,
                copt(&d.ts, |t| cn(t.as_nanos() as u64)),
                cn(kh),
                clist_s(&rows),
                clist_s(&ruv),
                clist_s(&ranged),
                clist(&d.dbruv, |c| self.cid(c)),
                cn(d.maxid),
            ],
        )
    }
}

fn err_code(e: &OperationError) -> u64 {
    match e {
        OperationError::DB0001MismatchedRestoreVersion => 1,
        OperationError::DB0002MismatchedRestoreVersion => 2,
        OperationError::SerdeJsonError => 3,
        OperationError::InvalidDbState => 4,
        OperationError::ConsistencyError(_) => 5,
        _ => 9,
    }
}

// ------------------------------------------------------------------ the source server and its history

fn open_server(ct: Duration) -> (QueryServer, Backend) {
    let (be, schema) = new_backend(None);
    let qs = QueryServer::new(be.clone(), schema, "example.com".to_string(), ct).expect("qs");
    (qs, be)
}

#[derive(Clone, Debug)]
enum Op {
    Person(usize, bool),
    Group(usize, Vec<usize>),
    Touch(usize),
    Rename(usize),
    Session(usize),
    Delete(usize),
    Revive(usize),
    PurgeRec,
    PurgeTomb,
    Jump,
}

struct World {
    hid: usize,
    uuids: Vec<Uuid>,
    is_person: Vec<bool>,
    names: Vec<String>,
    cred: Vec<Option<Uuid>>,
    created: Vec<bool>,
    nsess: u128,
}

fn f_uuid(u: Uuid) -> FC {
    f_eq(Attribute::Uuid, PartialValue::Uuid(u))
}

fn run_op(rt: &tokio::runtime::Runtime, qs: &QueryServer, admin: &Identity, w: &mut World, op: &Op, t: u64) -> String {
    let mut wr = rt.block_on(qs.write(Duration::from_nanos(t))).expect("write");
    let res: Result<Result<(), OperationError>, _> = std::panic::catch_unwind(AssertUnwindSafe(|| match op {
        Op::Person(i, with_cred) => {
            let mut e: Entry<EntryInit, EntryNew> = kanidmd_lib::entry_init!(
                (Attribute::Class, EntryClass::Object.to_value()),
                (Attribute::Class, EntryClass::Account.to_value()),
                (Attribute::Class, EntryClass::Person.to_value()),
                (Attribute::Name, Value::new_iname(&w.names[*i])),
                (Attribute::DisplayName, Value::new_utf8s("c13 person")),
                (Attribute::Uuid, Value::Uuid(w.uuids[*i]))
            );
            if *with_cred {
                let c = hook36::cred_new_password(&format!("c13 password {} {}", w.hid, i));
                w.cred[*i] = Some(hook36::cred_uuid(&c));
                e.add_ava(Attribute::PrimaryCredential, Value::new_credential("primary", c));
            }
            w.created[*i] = true;
            wr.internal_create(vec![e])
        }
        Op::Group(i, members) => {
            let mut e: Entry<EntryInit, EntryNew> = kanidmd_lib::entry_init!(
                (Attribute::Class, EntryClass::Object.to_value()),
                (Attribute::Class, EntryClass::Group.to_value()),
                (Attribute::Name, Value::new_iname(&w.names[*i])),
                (Attribute::Uuid, Value::Uuid(w.uuids[*i]))
            );
            for m in members {
                e.add_ava(Attribute::Member, Value::Refer(w.uuids[*m]));
            }
            w.created[*i] = true;
            wr.internal_create(vec![e])
        }
        Op::Touch(i) => wr.internal_modify_uuid(
            w.uuids[*i],
            &ModifyList::new_purge_and_set(Attribute::Description, Value::new_utf8s(&format!("touched at {}", t % 1000))),
        ),
        Op::Rename(i) => {
            w.names[*i] = format!("{}r", w.names[*i]);
            wr.internal_modify_uuid(w.uuids[*i], &ModifyList::new_purge_and_set(Attribute::Name, Value::new_iname(&w.names[*i])))
        }
        Op::Session(i) => {
            let Some(cred) = w.cred[*i] else { return Ok(()) };
            w.nsess += 1;
            let sid = Uuid::from_u128(0xc13c_5e55_0000_0000_0000_0000_0000_0000u128 + ((w.hid as u128) << 32) + w.nsess);
            let state = if w.nsess % 2 == 0 {
                SessionState::NeverExpires
            } else {
                SessionState::ExpiresAt((&Cid { ts: Duration::from_nanos(t + 3600 * NS), s_uuid: Uuid::nil() }).into())
            };
            let v = Value::Session(
                sid,
                Session {
                    label: "c13".to_string(),
                    state,
                    issued_at: (&Cid { ts: Duration::from_nanos(t), s_uuid: Uuid::nil() }).into(),
                    issued_by: IdentityId::User(w.uuids[*i]),
                    cred_id: cred,
                    scope: SessionScope::ReadWrite,
                    type_: AuthType::Password,
                    ext_metadata: Default::default(),
                },
            );
            wr.internal_modify_uuid(w.uuids[*i], &ModifyList::new_append(Attribute::UserAuthTokenSession, v))
        }
        Op::Delete(i) => wr.internal_delete_uuid(w.uuids[*i]),
        Op::Revive(i) => {
            let re = ReviveRecycledEvent::from_parts(admin.clone(), &filter_all!(f_uuid(w.uuids[*i])), &wr)?;
            wr.revive_recycled(&re)
        }
        Op::PurgeRec => wr.purge_recycled().map(|_| ()),
        Op::PurgeTomb => wr.purge_tombstones().map(|_| ()),
        Op::Jump => Ok(()),
    }));
    match res {
        Ok(Ok(())) => match wr.commit() {
            Ok(()) => "ok".into(),
            Err(e) => format!("commit-err:{:?}", e),
        },
        Ok(Err(e)) => {
            drop(wr);
            format!("err:{}", format!("{:?}", e).chars().take(40).collect::<String>())
        }
        Err(_) => {
            drop(wr);
            "PANIC".into()
        }
    }
}

/// The queries asked before the backup and after the restore.
fn queries(rng: &mut Rng, w: &World) -> Vec<(String, Filter<FilterInvalid>)> {
    let mut q: Vec<(String, Filter<FilterInvalid>)> = vec![
        ("live".into(), filter!(f_pres(Attribute::Class))),
        ("all".into(), filter_all!(f_pres(Attribute::Class))),
        ("rec".into(), filter_rec!(f_pres(Attribute::Class))),
        ("persons".into(), filter!(f_eq(Attribute::Class, EntryClass::Person.into()))),
        ("groups".into(), filter!(f_eq(Attribute::Class, EntryClass::Group.into()))),
        ("tomb".into(), filter_all!(f_eq(Attribute::Class, EntryClass::Tombstone.into()))),
        ("sub-c13".into(), filter!(f_sub(Attribute::Name, PartialValue::new_iname("c13")))),
        ("sub-all-c13".into(), filter_all!(f_sub(Attribute::Name, PartialValue::new_iname("c13")))),
        ("creds".into(), filter!(f_pres(Attribute::PrimaryCredential))),
        ("sessions".into(), filter!(f_pres(Attribute::UserAuthTokenSession))),
        ("touched".into(), filter!(f_pres(Attribute::Description))),
        (
            "person-not-touched".into(),
            filter!(f_and(vec![f_eq(Attribute::Class, EntryClass::Person.into()), f_andnot(f_pres(Attribute::Description))])),
        ),
        ("keys".into(), filter!(f_eq(Attribute::Class, EntryClass::KeyObject.into()))),
    ];
    let n = w.uuids.len();
    for k in 0..10 {
        let i = rng.below(n as u64) as usize;
        match rng.below(5) {
            0 => q.push((format!("name{}#{}", i, k), filter!(f_eq(Attribute::Name, PartialValue::new_iname(&w.names[i]))))),
            1 => q.push((format!("uuid-all{}#{}", i, k), filter_all!(f_uuid(w.uuids[i])))),
            2 => q.push((format!("member{}#{}", i, k), filter!(f_eq(Attribute::Member, PartialValue::Refer(w.uuids[i]))))),
            3 => q.push((format!("memberof{}#{}", i, k), filter!(f_eq(Attribute::MemberOf, PartialValue::Refer(w.uuids[i]))))),
            _ => {
                let j = rng.below(n as u64) as usize;
                q.push((
                    format!("or{}-{}#{}", i, j, k),
                    filter_all!(f_or(vec![
                        f_eq(Attribute::Name, PartialValue::new_iname(&w.names[i])),
                        f_and(vec![f_pres(Attribute::Member), f_andnot(f_eq(Attribute::Member, PartialValue::Refer(w.uuids[j])))]),
                    ])),
                ));
            }
        }
    }
    q
}

type Answers = Vec<Vec<std::sync::Arc<Entry<kanidmd_lib::entry::EntrySealed, kanidmd_lib::entry::EntryCommitted>>>>;

fn answer(rt: &tokio::runtime::Runtime, qs: &QueryServer, qsn: &[(String, Filter<FilterInvalid>)]) -> Answers {
    let mut r = rt.block_on(qs.read()).expect("read");
    qsn.iter().map(|(_, f)| r.internal_search(f.clone()).unwrap_or_default()).collect()
}

// ------------------------------------------------------------------ the restore side

struct Restored {
    rc: u64,
    tgt_maxid: u64,
    mid: Dump,
    re: Dump,
    verify_errs: u64,
    answers: Answers,
}

/// What `restore_server_core` does, on `path`; `seed_with`: a backup restored (and committed)
/// first, so the target is not empty.
fn restore_flow(
    rt: &tokio::runtime::Runtime,
    path: &Path,
    seed_with: Option<&[u8]>,
    data: &[u8],
    comp: BackupCompression,
    ct: u64,
    qsn: &[(String, Filter<FilterInvalid>)],
) -> Restored {
    rm_db(path);
    let (be, _schema) = new_backend(Some(path));
    if let Some(seed) = seed_with {
        let mut w = be.write().expect("write");
        w.restore(seed, BackupCompression::NoCompression).and_then(|_| w.commit()).expect("seed restore");
        let mut w = be.write().expect("write");
        w.reindex(false).and_then(|_| w.commit()).expect("seed reindex");
    }
    let tgt_maxid = {
        let mut w = be.write().expect("write");
        w.verif_c13_max_id().expect("maxid")
    };
    let rc = {
        let mut w = be.write().expect("write");
        match w.restore(data, comp).and_then(|_| w.commit()) {
            Ok(()) => 0,
            Err(e) => err_code(&e),
        }
    };
    if rc == 0 {
        let mut w = be.write().expect("write");
        w.reindex(false).and_then(|_| w.commit()).expect("reindex");
    }
    let mid = dump_be(&be);
    drop(be);
    // the restoring process ends here; the server starts
    let (be2, schema2) = new_backend(Some(path));
    let re = dump_be(&be2);
    let qs = QueryServer::new(be2, schema2, "example.com".to_string(), Duration::from_nanos(ct)).expect("qs");
    // an implementation panic (kanidm's consistency checks debug_assert) is an observation, not a crash
    let init = std::panic::catch_unwind(AssertUnwindSafe(|| {
        rt.block_on(qs.initialise_helper(Duration::from_nanos(ct), DOMAIN_TGT_LEVEL))
    }));
    let (verify_errs, answers) = if matches!(init, Ok(Ok(()))) {
        let answers = std::panic::catch_unwind(AssertUnwindSafe(|| answer(rt, &qs, qsn))).unwrap_or_default();
        match std::panic::catch_unwind(AssertUnwindSafe(|| rt.block_on(qs.verify()))) {
            Ok(v) => {
                if !v.is_empty() {
                    eprintln!("verify after restore: {:?}", v);
                }
                (v.len() as u64, answers)
            }
            Err(_) => {
                eprintln!("verify after restore PANICKED");
                (998, answers)
            }
        }
    } else {
        eprintln!("initialise after restore failed: {:?}", init.as_ref().map_err(|_| "panic"));
        (999, vec![])
    };
    drop(qs);
    rm_db(path);
    Restored { rc, tgt_maxid, mid, re, verify_errs, answers }
}

fn c_answers(ctx: &mut Ctx, a: &Answers) -> String {
    let per: Vec<String> = a
        .iter()
        .map(|l| {
            let ids: Vec<String> = l.iter().map(|e| cn(ctx.uu.id(&e.get_uuid()))).collect();
            clist_s(&ids)
        })
        .collect();
    clist_s(&per)
}

static EMPTY_SETS: std::sync::atomic::AtomicU64 = std::sync::atomic::AtomicU64::new(0);

/// Entries created by the histories are compared completely (attributes and change state); built-in
/// entries are re-asserted by every server start (new change ids, LastModifiedCid), so for those the
/// attribute comparison of `Entry::eq` is used. (The byte-exact comparison of every stored entry is the
/// dump comparison, made before the restored server is started.)
fn same_entries(a: &Answers, b: &Answers) -> bool {
    let mut ok = a.len() == b.len();
    for (qi, (x, y)) in a.iter().zip(b.iter()).enumerate() {
        if x.len() != y.len() {
            ok = false;
            continue;
        }
        for (e, f) in x.iter().zip(y.iter()) {
            let ours = (e.get_uuid().as_u128() >> 96) == 0xc13c_13c1u128;
            // The source answers come from the server's entry cache, where an attribute whose last value
            // was trimmed (e.g. all login sessions of a recycled account) lingers as an EMPTY value set;
            // the stored row - which is what a backup holds - has no such attribute. Empty = absent here.
            let attrs_same = {
                let skip = |a: &Attribute| *a == Attribute::LastModifiedCid || *a == Attribute::CreatedAtCid;
                let l: BTreeMap<&Attribute, &ValueSet> = e.get_ava_iter().filter(|(a, v)| !skip(a) && v.len() > 0).collect();
                let r: BTreeMap<&Attribute, &ValueSet> = f.get_ava_iter().filter(|(a, v)| !skip(a) && v.len() > 0).collect();
                l.len() == r.len() && l.iter().all(|(a, v)| r.get(*a).map(|w| *v == *w).unwrap_or(false))
            };
            if attrs_same && e.as_ref() != f.as_ref() {
                EMPTY_SETS.fetch_add(1, std::sync::atomic::Ordering::Relaxed);
            }
            let same = attrs_same && (!ours || e.get_changestate() == f.get_changestate());
            if !same {
                if ok {
                    eprintln!(
                        "DIFF query#{} uuid={} ours={} attrs_eq={} changestate_eq={}",
                        qi,
                        e.get_uuid(),
                        ours,
                        e.as_ref() == f.as_ref(),
                        e.get_changestate() == f.get_changestate()
                    );
                    if std::env::var("C13_DEBUG").is_ok() {
                        eprintln!("DIFF-BEFORE {:?}\nDIFF-AFTER  {:?}", e, f);
                    }
                }
                ok = false;
            }
        }
    }
    ok
}

/// `--probe`: the stale max-id defect through the server's own start-up path. A built-in group is
/// deleted and purged on the source; the backup is restored and, as in restore_server_core, a
/// QueryServer is started on the SAME Backend: its migration re-creates the missing built-in entry.
fn probe(rt: &tokio::runtime::Runtime, dir: &Path) {
    let t0: u64 = 1_700_000_000 * NS;
    let (qs, be) = open_server(Duration::from_nanos(t0));
    rt.block_on(qs.initialise_helper(Duration::from_nanos(t0), DOMAIN_TGT_LEVEL)).expect("init");
    let mut t = t0 + 10 * NS;
    // find a built-in group the server lets us delete (a failed attempt is dropped, never committed)
    let builtin: Vec<(Uuid, String)> = {
        let mut r = rt.block_on(qs.read()).expect("read");
        r.internal_search(filter!(f_and(vec![
            f_eq(Attribute::Class, EntryClass::Builtin.into()),
            f_eq(Attribute::Class, EntryClass::Group.into())
        ])))
        .expect("search")
        .iter()
        .map(|e| (e.get_uuid(), e.get_ava_set(Attribute::Name).and_then(|v| v.to_proto_string_single()).unwrap_or_default()))
        .collect()
    };
    let mut victim = None;
    for (u, name) in builtin {
        let mut wr = rt.block_on(qs.write(Duration::from_nanos(t))).expect("write");
        t += NS;
        match wr.internal_delete_uuid(u) {
            Ok(()) => {
                wr.commit().expect("commit");
                victim = Some((u, name));
                break;
            }
            Err(_) => drop(wr),
        }
    }
    eprintln!("PROBE deleted built-in group {:?}", victim);
    for step in 1..3 {
        t += 8 * DAY;
        let mut wr = rt.block_on(qs.write(Duration::from_nanos(t))).expect("write");
        let r = match step {
            1 => wr.purge_recycled().map(|_| ()),
            _ => wr.purge_tombstones().map(|_| ()),
        };
        eprintln!("PROBE step {} -> {:?}", step, r);
        wr.commit().expect("commit");
    }
    eprintln!("PROBE source verify() -> {:?}", rt.block_on(qs.verify()));
    t += 8 * DAY;
    let mut plain = vec![];
    be.read().expect("read").backup(&mut plain, BackupCompression::NoCompression).expect("backup");
    let src = dump_be(&be);
    eprintln!("PROBE source rows={} (entry with id 1 has uuid {})", src.rows.len(), src.rows[0].uuid);
    let path = dir.join("c13_probe.db");
    rm_db(&path);
    let (beb, schemab) = new_backend(Some(&path));
    let mut wtx = beb.write().expect("write");
    wtx.restore(plain.as_slice(), BackupCompression::NoCompression).and_then(|_| wtx.commit()).expect("restore");
    let mut wtx = beb.write().expect("write");
    wtx.reindex(false).and_then(|_| wtx.commit()).expect("reindex");
    let pre = dump_be(&beb);
    let qsb = QueryServer::new(beb.clone(), schemab, "example.com".to_string(), Duration::from_nanos(t)).expect("qs");
    let r = rt.block_on(qsb.initialise_helper(Duration::from_nanos(t), DOMAIN_TGT_LEVEL));
    eprintln!("PROBE start-up on the restoring Backend -> {:?}", r);
    let post = dump_be(&beb);
    let post_uuids: BTreeSet<Uuid> = post.rows.iter().map(|r| r.uuid).collect();
    let pre_uuids: BTreeSet<Uuid> = pre.rows.iter().map(|r| r.uuid).collect();
    for r in pre.rows.iter().filter(|r| !post_uuids.contains(&r.uuid)) {
        eprintln!("PROBE LOST restored entry id={} uuid={}", r.id, r.uuid);
    }
    for r in post.rows.iter().filter(|r| !pre_uuids.contains(&r.uuid)) {
        eprintln!("PROBE NEW entry id={} uuid={}", r.id, r.uuid);
    }
    eprintln!("PROBE rows before start-up {} after {} cached max id after {}", pre.rows.len(), post.rows.len(), post.maxid);
    let v = rt.block_on(qsb.verify());
    eprintln!("PROBE verify() -> {:?}", v);
    drop(qsb);
    drop(beb);
    rm_db(&path);
}

// ------------------------------------------------------------------ main

fn main() {
    let args = parse_args();
    let mut rng = Rng::new(args.seed);
    let mut sink = Sink::new(&args, "KV.C13.Model", 4);
    sink.rule = "random server-level histories (8..22 ops quick / 8..40 thorough: persons with password credentials, login sessions, \
groups with members, renames, deletes, revives, purge_recycled / purge_tombstones, 8-day clock jumps) on a real in-memory QueryServer; \
per history one plain and one gzip backup from the same read transaction, each restored (restore+commit, reindex+commit, close, reopen, \
start a QueryServer) into a file-backed target that is new or already holds an earlier history's database; full dumps of source, target \
after restore and after reopen; 23 searches answered before and after; QueryServer::verify() after; per history 1 in-process \
continuation probe and (every 3rd) 9 re-written backups for the version gate. \
non-trivial = the source holds a recycled entry AND a tombstone AND a credential AND a session AND its RUV has been trimmed or holds \
an anchor without entries (for CRound); a refused backup (CGate); a restored database that then receives a new entry (CInproc)"
        .into();
    let rt = tokio::runtime::Builder::new_current_thread().enable_all().build().expect("rt");
    let dir: PathBuf = args.out.join("scratch");
    std::fs::create_dir_all(&dir).expect("scratch");
    let path = dir.join("c13_target.db");
    if args.extra.iter().any(|a| a == "--probe") {
        probe(&rt, &dir);
        return;
    }

    let n_hist = if args.thorough { 90 } else { 12 };
    let max_len = if args.thorough { 40 } else { 22 };
    let t_start: u64 = 1_700_000_000 * NS;
    let series = hook::pkg_series().to_string();
    let mut prev_plain: Option<Vec<u8>> = None;

    for hid in 0..n_hist {
        let (qs, be) = open_server(Duration::from_nanos(t_start));
        rt.block_on(qs.initialise_helper(Duration::from_nanos(t_start), DOMAIN_TGT_LEVEL)).expect("init");
        let admin = rt.block_on(async {
            let mut r = qs.read().await.expect("read");
            Identity::from_impersonate_entry_readwrite(r.internal_search_uuid(UUID_ADMIN).expect("admin"))
        });
        // population plan
        let np = rng.range(2, 4) as usize;
        let ng = rng.range(1, 3) as usize;
        let n = np + ng;
        let mut w = World {
            hid,
            uuids: (0..n).map(|i| Uuid::from_u128(0xc13c_13c1_0000_0000_0000_0000_0000_0000u128 + ((hid as u128) << 16) + i as u128)).collect(),
            is_person: (0..n).map(|i| i < np).collect(),
            names: (0..n).map(|i| format!("c13{}h{}x{}", if i < np { "p" } else { "g" }, hid, i)).collect(),
            cred: vec![None; n],
            created: vec![false; n],
            nsess: 0,
        };
        let len = rng.range(8, max_len) as usize;
        let mut t = t_start + 10 * NS;
        let mut log = String::new();
        let mut ops_done = 0;
        // create everything first (in random order), then random ops
        let mut order: Vec<usize> = (0..n).collect();
        rng.shuffle(&mut order);
        let mut plan: Vec<Op> = vec![];
        for i in order {
            if w.is_person[i] {
                plan.push(Op::Person(i, rng.chance(3, 4)));
            } else {
                let members: Vec<usize> = (0..np).filter(|_| rng.chance(1, 2)).collect();
                plan.push(Op::Group(i, members));
            }
        }
        // persons must exist before groups refer to them
        plan.sort_by_key(|o| match o { Op::Person(..) => 0, _ => 1 });
        while plan.len() < len {
            let i = rng.below(n as u64) as usize;
            let k = rng.below(20);
            plan.push(match k {
                0..=3 => Op::Touch(i),
                4..=5 => Op::Rename(i),
                6..=8 => Op::Session(rng.below(np as u64) as usize),
                9..=11 => Op::Delete(i),
                12..=13 => Op::Revive(i),
                14..=15 => Op::PurgeRec,
                16..=17 => Op::PurgeTomb,
                _ => Op::Jump,
            });
        }
        // most histories end with a tail that leaves a tombstone AND a recycled entry AND a session
        // behind at backup time: delete a, +8 days, purge_recycled (a becomes a tombstone, the RUV
        // is trimmed), delete b, a login session on a person with a credential
        if rng.chance(3, 4) {
            let a = rng.below(n as u64) as usize;
            let b = (a + 1 + rng.below(n as u64 - 1) as usize) % n;
            let with_cred: Vec<usize> = plan.iter().filter_map(|o| if let Op::Person(i, true) = o { Some(*i) } else { None }).collect();
            let p = with_cred.iter().copied().find(|i| *i != a && *i != b).unwrap_or_else(|| (0..np).find(|i| *i != a && *i != b).unwrap_or(0));
            plan.push(Op::Revive(p));
            plan.push(Op::Delete(a));
            plan.push(Op::Jump);
            plan.push(Op::PurgeRec);
            plan.push(Op::Revive(b));
            plan.push(Op::Touch(p));
            plan.push(Op::Session(p));
            plan.push(Op::Delete(b));
        }
        for op in &plan {
            t += match op {
                Op::Jump => 8 * DAY,
                _ => *rng.pick(&[1u64, 7, NS, 30 * NS, 3600 * NS]),
            };
            let r = run_op(&rt, &qs, &admin, &mut w, op, t);
            if r == "ok" {
                ops_done += 1;
            }
            log.push_str(&format!(" {:?}:{}", op, r));
            sink.bump(match op {
                Op::Person(..) => "op_person",
                Op::Group(..) => "op_group",
                Op::Touch(_) => "op_touch",
                Op::Rename(_) => "op_rename",
                Op::Session(_) => "op_session",
                Op::Delete(_) => "op_delete",
                Op::Revive(_) => "op_revive",
                Op::PurgeRec => "op_purge_recycled",
                Op::PurgeTomb => "op_purge_tombstones",
                Op::Jump => "op_clock_jump",
            });
        }
        let _ = ops_done;

        // ---- searches before, backups, source dump
        let qsn = queries(&mut rng, &w);
        let before = answer(&rt, &qs, &qsn);
        let mut plain: Vec<u8> = vec![];
        let mut gz: Vec<u8> = vec![];
        let (bak_plain, bak_gz) = {
            let mut r = be.read().expect("be read");
            let a = r.backup(&mut plain, BackupCompression::NoCompression);
            let b = r.backup(&mut gz, BackupCompression::Gzip);
            (a, b)
        };
        let src = dump_be(&be);
        let same_json = hook::gunzip(&gz).map(|x| x == plain).unwrap_or(false);
        // classification of the source
        let all_before = &before[1];
        let n_rec = before[2].len();
        let n_tomb = before[5].len();
        let has_cred = !before[8].is_empty();
        let has_sess = !before[9].is_empty();
        let ruv_keys: BTreeSet<&Cid> = src.ruv.iter().map(|(c, _)| c).collect();
        let entry_cids: BTreeSet<&Cid> = src.rows.iter().flat_map(|r| r.cids.iter()).collect();
        let anchors = ruv_keys.iter().filter(|c| !entry_cids.contains(*c)).count();
        let trimmed = entry_cids.iter().filter(|c| !ruv_keys.contains(*c)).count();
        let nontrivial = n_rec > 0 && n_tomb > 0 && has_cred && has_sess && (anchors > 0 || trimmed > 0);
        let ct_b = t + 3600 * NS;

        for (gzflag, data, bak_res) in [(false, &plain, &bak_plain), (true, &gz, &bak_gz)] {
            let comp = if gzflag { BackupCompression::Gzip } else { BackupCompression::NoCompression };
            // plain backups alternate between a new target and one that already holds another database
            let seed = if !gzflag && hid % 2 == 1 { prev_plain.as_deref() } else { None };
            let r = restore_flow(&rt, &path, seed, data, comp, ct_b, &qsn);
            let mut ctx = Ctx::new(&[&src, &r.mid, &r.re]);
            let c_src = ctx.dump(&src);
            let c_mid = ctx.dump(&r.mid);
            let c_re = ctx.dump(&r.re);
            let c_before = c_answers(&mut ctx, &before);
            let c_after = c_answers(&mut ctx, &r.answers);
            let same_ents = same_entries(&before, &r.answers);
            let bak_code = match bak_res { Ok(()) => 0, Err(e) => err_code(e) };
            let coq = capp(
                "CRound",
                &[
                    cbool(gzflag),
                    c_src,
                    cn(bak_code),
                    cbool(if gzflag { same_json } else { true }),
                    cn(r.tgt_maxid),
                    cn(r.rc),
                    c_mid,
                    c_re,
                    cn(r.verify_errs),
                    c_before,
                    c_after,
                    cbool(same_ents),
                ],
            );
            let txt = format!(
                "round hist={} gz={} seeded={} rows={} (all={} rec={} tomb={} cred={} sess={}) ruv={} anchors={} trimmed={} tgt_maxid={} rc={} rows_after={} verify_errs={} same_entries={} ops:{}",
                hid, gzflag, seed.is_some(), src.rows.len(), all_before.len(), n_rec, n_tomb, has_cred, has_sess, src.ruv.len(), anchors, trimmed,
                r.tgt_maxid, r.rc, r.re.rows.len(), r.verify_errs, same_ents, log
            );
            sink.case(coq, txt, nontrivial);
            sink.bump(if gzflag { "round_gzip" } else if seed.is_some() { "round_plain_into_populated_target" } else { "round_plain_into_new_target" });
        }

        // ---- in-process continuation: the restoring process starts a QueryServer on the SAME Backend
        // (restore_server_core -> reindex_inner -> setup_qs_idms) and an entry is created
        {
            rm_db(&path);
            let (beb, schemab) = new_backend(Some(&path));
            let mut wtx = beb.write().expect("write");
            wtx.restore(plain.as_slice(), BackupCompression::NoCompression).and_then(|_| wtx.commit()).expect("restore");
            let mut wtx = beb.write().expect("write");
            wtx.reindex(false).and_then(|_| wtx.commit()).expect("reindex");
            let qsb = QueryServer::new(beb.clone(), schemab, "example.com".to_string(), Duration::from_nanos(ct_b)).expect("qs");
            rt.block_on(qsb.initialise_helper(Duration::from_nanos(ct_b), DOMAIN_TGT_LEVEL)).expect("init b");
            let pre = dump_be(&beb);
            let nu = Uuid::from_u128(0xc13c_ffff_0000_0000_0000_0000_0000_0000u128 + hid as u128);
            let e: Entry<EntryInit, EntryNew> = kanidmd_lib::entry_init!(
                (Attribute::Class, EntryClass::Object.to_value()),
                (Attribute::Class, EntryClass::Group.to_value()),
                (Attribute::Name, Value::new_iname(&format!("c13newgroup{}", hid))),
                (Attribute::Uuid, Value::Uuid(nu))
            );
            let created = {
                let mut wr = rt.block_on(qsb.write(Duration::from_nanos(ct_b + NS))).expect("write");
                wr.internal_create(vec![e]).and_then(|_| wr.commit()).is_ok()
            };
            let post = dump_be(&beb);
            let new_id = post.rows.iter().find(|r| r.uuid == nu).map(|r| r.id).unwrap_or(0);
            let post_uuids: BTreeSet<Uuid> = post.rows.iter().map(|r| r.uuid).collect();
            let lost = pre.rows.iter().filter(|r| !post_uuids.contains(&r.uuid)).count() as u64;
            let n_rows = pre.rows.len() as u64;
            let max_row_id = pre.rows.iter().map(|r| r.id).max().unwrap_or(0);
            drop(qsb);
            drop(beb);
            rm_db(&path);
            sink.case(
                capp("CInproc", &[cn(n_rows), cn(max_row_id), cn(pre.maxid), cbool(created), cn(new_id), cn(lost)]),
                format!(
                    "inproc hist={} restored_rows={} max_row_id={} cached_maxid_after_restore_and_startup={} created={} new_entry_id={} restored_entries_lost={}",
                    hid, n_rows, max_row_id, pre.maxid, created, new_id, lost
                ),
                true,
            );
            sink.bump("inproc_probe");
        }

        // ---- version gate on re-written backups
        if hid % 3 == 0 {
            let v: serde_json::Value = serde_json::from_slice(&plain).expect("backup json");
            let variants: Vec<(u64, Option<String>, bool, serde_json::Value)> = {
                let with_ver = |s: &str| {
                    let mut x = v.clone();
                    x["version"] = serde_json::Value::String(s.to_string());
                    x
                };
                let without = |keys: &[&str]| {
                    let mut x = v.clone();
                    for k in keys {
                        x.as_object_mut().expect("obj").remove(*k);
                    }
                    x
                };
                vec![
                    (0, Some(series.clone()), true, with_ver(&series)),
                    (1, Some("0.0".into()), true, with_ver("0.0")),
                    (2, Some(format!("{} ", series)), true, with_ver(&format!("{} ", series))),
                    (3, Some(format!("{}.0", series)), true, with_ver(&format!("{}.0", series))),
                    (4, Some(String::new()), true, with_ver("")),
                    (5, None, true, without(&["version"])),
                    (6, None, true, without(&["version", "repl_meta"])),
                    (7, None, true, v["entries"].clone()),
                    (8, None, false, serde_json::Value::Null),
                ]
            };
            // a populated target: the refused restore must leave it as it was
            rm_db(&path);
            let (beb, _schemab) = new_backend(Some(&path));
            {
                let mut wtx = beb.write().expect("write");
                wtx.restore(plain.as_slice(), BackupCompression::NoCompression).and_then(|_| wtx.commit()).expect("restore");
            }
            for (kind, ver, wellformed, val) in variants {
                let gzflag = rng.chance(1, 2);
                let mut bytes = if wellformed { serde_json::to_vec(&val).expect("ser") } else { plain[..plain.len() / 2].to_vec() };
                if gzflag {
                    bytes = hook::gzip(&bytes);
                }
                let comp = if gzflag { BackupCompression::Gzip } else { BackupCompression::NoCompression };
                let pre = dump_be(&beb);
                let rc = {
                    let mut wtx = beb.write().expect("write");
                    match wtx.restore(bytes.as_slice(), comp) {
                        Ok(()) => 0, // not committed: the gate is what is observed
                        Err(e) => err_code(&e),
                    }
                };
                let post = dump_be(&beb);
                let unchanged = pre == post;
                sink.case(
                    capp("CGate", &[cbool(wellformed), copt(&ver, |s| cstr(s)), cstr(&series), cn(rc), cbool(unchanged)]),
                    format!("gate hist={} kind={} gz={} version={:?} here={:?} wellformed={} -> rc={} target_unchanged={}", hid, kind, gzflag, ver, series, wellformed, rc, unchanged),
                    rc != 0,
                );
                sink.bump(&format!("gate_kind_{}", kind));
            }
            drop(beb);
            rm_db(&path);
        }
        prev_plain = Some(plain);
    }
    let _ = std::fs::remove_dir_all(&dir);
    sink.add_stat("answered_entries_with_cached_empty_value_set", EMPTY_SETS.load(std::sync::atomic::Ordering::Relaxed));
    sink.finish();
}
