//! C10 — ReplicationUpdateVector::range_diff vs the Coq model and declarative spec.
use kanidmd_lib::prelude::*;
use kanidmd_lib::verif_hooks::{range_diff, HookRangeDiff};
use kvh::*;
use std::collections::BTreeMap;

type M = BTreeMap<Uuid, (Duration, Duration)>;

fn sid(n: u64) -> Uuid {
    Uuid::from_u128(n as u128)
}
fn cmap(m: &M) -> String {
    let v: Vec<String> = m
        .iter()
        .map(|(k, (a, b))| format!("({}, ({}, {}))", cn128(k.as_u128()), cn(a.as_nanos() as u64), cn(b.as_nanos() as u64)))
        .collect();
    clist_s(&v)
}
fn tmap(m: &M) -> String {
    let v: Vec<String> = m.iter().map(|(k, (a, b))| format!("{}:[{},{}]", k.as_u128(), a.as_nanos(), b.as_nanos())).collect();
    v.join(" ")
}
fn emit(sink: &mut Sink, c: &M, s: &M) {
    let r = range_diff(c, s);
    let (coq, kind) = match &r {
        HookRangeDiff::Ok(d) => (capp("SOk", &[cmap(d)]), if d.is_empty() { "ok_empty" } else { "ok" }),
        HookRangeDiff::Refresh(l) => (capp("SRefresh", &[cmap(l)]), "refresh"),
        HookRangeDiff::Unwilling(a) => (capp("SUnwilling", &[cmap(a)]), "unwilling"),
        HookRangeDiff::Critical(l, a) => (capp("SCritical", &[cmap(l), cmap(a)]), "critical"),
        HookRangeDiff::NoRUVOverlap => ("SNoOverlap".to_string(), "no_overlap"),
    };
    sink.bump(kind);
    let nontrivial = kind != "no_overlap" && kind != "ok_empty";
    sink.case(
        capp("CDiff", &[cmap(c), cmap(s), coq]),
        format!("diff consumer{{{}}} supplier{{{}}} -> {:?}", tmap(c), tmap(s), kind),
        nontrivial,
    );
}

/// all maps over servers 1..=n where each server is absent or has a window min<=max in 0..=tmax
fn all_maps(n: u64, tmax: u64) -> Vec<M> {
    let mut windows = vec![None];
    for a in 0..=tmax {
        for b in a..=tmax {
            windows.push(Some((a, b)));
        }
    }
    let mut out: Vec<M> = vec![BTreeMap::new()];
    for s in 1..=n {
        let mut next = vec![];
        for m in &out {
            for w in &windows {
                let mut m2 = m.clone();
                if let Some((a, b)) = w {
                    m2.insert(sid(s), (Duration::from_nanos(*a), Duration::from_nanos(*b)));
                }
                next.push(m2);
            }
        }
        out = next;
    }
    out
}

fn main() {
    let args = parse_args();
    let mut rng = Rng::new(args.seed);
    let mut sink = Sink::new(&args, "KV.C10.Model", 1500);
    sink.rule = "exhaustive: all pairs of window maps for <=2 servers over times 0..4 (quick) / 0..4 with 2 servers plus <=3 servers over 0..2 (thorough); random: larger maps (<=6 servers, times<=20, incl. malformed min>max windows). non-trivial = result is neither NoRUVOverlap nor an empty Ok".into();
    // exhaustive part
    let maps = all_maps(2, if args.thorough { 4 } else { 3 });
    for c in &maps {
        for s in &maps {
            emit(&mut sink, c, s);
        }
    }
    sink.add_stat("exhaustive_pairs", (maps.len() * maps.len()) as u64);
    if args.thorough {
        let maps3 = all_maps(3, 2);
        for c in &maps3 {
            for s in &maps3 {
                emit(&mut sink, c, s);
            }
        }
        sink.add_stat("exhaustive_pairs_3srv", (maps3.len() * maps3.len()) as u64);
    }
    // random part
    let n_rand = if args.thorough { 20000 } else { 3000 };
    for _ in 0..n_rand {
        let mut c = M::new();
        let mut s = M::new();
        let ns = rng.range(1, 6);
        let scale = rng.below(3);
        for k in 1..=ns {
            for m in [&mut c, &mut s] {
                if rng.chance(3, 4) {
                    let a = rng.below(21);
                    let b = if rng.chance(1, 12) { rng.below(21) } else { a + rng.below(21 - a) };
                    // mixed time scales: nanoseconds, whole seconds, and seconds +- a few ns, so that
                    // sub-second gaps and whole-second gaps both occur between windows
                    let (a, b) = match scale {
                        0 => (a, b),
                        1 => (a * 1_000_000_000, b * 1_000_000_000),
                        _ => (a * 500_000_000 + rng.below(3), b * 500_000_000 + rng.below(3)),
                    };
                    m.insert(sid(k), (Duration::from_nanos(a), Duration::from_nanos(b)));
                }
            }
        }
        emit(&mut sink, &c, &s);
    }
    sink.add_stat("random_pairs", n_rand);
    sink.finish();
}
