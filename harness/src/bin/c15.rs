//! C15 — every stored entry satisfies the schema.
//!
//! (a) function level: random synthetic schemas (installed into a REAL `Schema` object) x random
//!     entries; the real `Entry<EntryInvalid,_>::validate` verdict (full error payload) and the real
//!     `validate_repl` output are recorded and compared with the Coq model (KV.C15.Model).
//! (b) history level: real servers. Single-server histories at a domain level with database-defined
//!     schema (create / modify / schema additions, valid and invalid requests); two-server histories
//!     at the target level with incremental replication of individually valid, jointly invalid edits.
//!     After every operation the whole database and the schema in force are dumped, diffed against
//!     the previous dump, and the differences are handed to the model, which replays them and checks
//!     every stored entry against the schema with its own (independent) predicate.
use kanidm_proto::internal::SchemaError;
use kanidmd_lib::entry::{Entry, EntryInit, EntryNew};
use kanidmd_lib::prelude::*;
use kanidmd_lib::schema::{Schema, SchemaTransaction};
use kanidmd_lib::testkit::{setup_pair_test, setup_test, TestConfiguration};
use kanidmd_lib::valueset::{self, ValueSet};
use kvh::*;
use std::collections::BTreeMap;

// ------------------------------------------------------------------ abstract dumps

struct Names {
    a: Intern<String>,
    c: Intern<String>,
    u: Intern<Uuid>,
}
impl Names {
    fn new() -> Self {
        let mut n = Names { a: Intern::new(), c: Intern::new(), u: Intern::new() };
        // fixed ids, see KV.C15.Model
        assert_eq!(n.attr("class"), 0);
        assert_eq!(n.attr("uuid"), 1);
        assert_eq!(n.attr("source_uuid"), 2);
        assert_eq!(n.class("conflict"), 0);
        assert_eq!(n.class("recycled"), 1);
        assert_eq!(n.class("extensibleobject"), 2);
        n
    }
    fn attr(&mut self, s: &str) -> u64 {
        self.a.id(&s.to_string())
    }
    fn class(&mut self, s: &str) -> u64 {
        self.c.id(&s.to_string())
    }
    fn uuid(&mut self, u: Uuid) -> u64 {
        self.u.id(&u)
    }
}

#[derive(Clone, PartialEq, Eq, Debug)]
struct VS {
    syn: u64,
    len: u64,
    ok: bool,
    vals: Vec<u64>,
}
type AEntry = Vec<(u64, VS)>;
#[derive(Clone, PartialEq, Eq, Debug)]
struct ADef {
    multi: bool,
    phantom: bool,
    syn: u64,
}
#[derive(Clone, PartialEq, Eq, Debug, Default)]
struct CDef {
    l: [Vec<u64>; 8], // sysmust must sysmay may syssup sup sysexc exc
}
#[derive(Clone, Default)]
struct ASchema {
    attrs: BTreeMap<u64, ADef>,
    classes: BTreeMap<u64, CDef>,
}

fn c_vs(v: &VS) -> String {
    format!("(mkvs {} {} {} {})", cn(v.syn), cn(v.len), cbool(v.ok), clist(&v.vals, |x| cn(*x)))
}
fn c_entry(e: &AEntry) -> String {
    clist(e, |(a, v)| format!("({}, {})", cn(*a), c_vs(v)))
}
fn c_adef(d: &ADef) -> String {
    format!("(mkadef {} {} {})", cbool(d.multi), cbool(d.phantom), cn(d.syn))
}
fn c_cdef(d: &CDef) -> String {
    let mut s = String::from("(mkcdef");
    for l in &d.l {
        s.push(' ');
        s.push_str(&clist(l, |x| cn(*x)));
    }
    s.push(')');
    s
}
fn c_schema(s: &ASchema) -> String {
    let a: Vec<String> = s.attrs.iter().map(|(k, d)| format!("({}, {})", cn(*k), c_adef(d))).collect();
    let c: Vec<String> = s.classes.iter().map(|(k, d)| format!("({}, {})", cn(*k), c_cdef(d))).collect();
    format!("(mksch {} {})", clist_s(&a), clist_s(&c))
}

fn dump_schema(s: &dyn SchemaTransaction, n: &mut Names) -> ASchema {
    let mut out = ASchema::default();
    let mut an: Vec<(&Attribute, &SchemaAttribute)> = s.get_attributes().iter().collect();
    an.sort_by(|x, y| x.0.as_str().cmp(y.0.as_str()));
    for (k, d) in an {
        out.attrs.insert(n.attr(k.as_str()), ADef { multi: d.multivalue, phantom: d.phantom, syn: d.syntax as u16 as u64 });
    }
    let mut cl: Vec<(&AttrString, &SchemaClass)> = s.get_classes().iter().collect();
    cl.sort_by(|x, y| x.0.as_str().cmp(y.0.as_str()));
    for (k, d) in cl {
        let al = |v: &Vec<Attribute>, n: &mut Names| v.iter().map(|a| n.attr(a.as_str())).collect::<Vec<u64>>();
        let cll = |v: &Vec<AttrString>, n: &mut Names| v.iter().map(|a| n.class(a.as_str())).collect::<Vec<u64>>();
        let cd = CDef {
            l: [
                al(&d.systemmust, n),
                al(&d.must, n),
                al(&d.systemmay, n),
                al(&d.may, n),
                cll(&d.systemsupplements, n),
                cll(&d.supplements, n),
                cll(&d.systemexcludes, n),
                cll(&d.excludes, n),
            ],
        };
        let id = n.class(k.as_str());
        out.classes.insert(id, cd);
    }
    out
}

fn dump_vs(a: &Attribute, vs: &ValueSet, s: &dyn SchemaTransaction, n: &mut Names) -> VS {
    let dflt = SchemaAttribute::default();
    let def = s.get_attributes().get(a).unwrap_or(&dflt);
    // ValueSet::validate is the per-value syntax predicate; it is an input of the model
    let ok = vs.validate(def);
    let vals = if *a == Attribute::Class && vs.syntax() == SyntaxType::Utf8StringInsensitive {
        vs.as_iutf8_set().map(|set| set.iter().map(|c| n.class(c.as_str())).collect()).unwrap_or_default()
    } else {
        vec![]
    };
    VS { syn: vs.syntax() as u16 as u64, len: vs.len() as u64, ok, vals }
}
fn dump_entry<V, S>(e: &Entry<V, S>, s: &dyn SchemaTransaction, n: &mut Names) -> AEntry {
    e.get_ava_iter().map(|(a, vs)| (n.attr(a.as_str()), dump_vs(a, vs, s, n))).collect()
}

fn c_serr(e: &SchemaError, n: &mut Names) -> String {
    let cl = |v: &Vec<String>, n: &mut Names| clist(&v.iter().map(|c| n.class(c)).collect::<Vec<u64>>(), |x| cn(*x));
    match e {
        SchemaError::NoClassFound => "ENoClass".into(),
        SchemaError::InvalidClass(v) => capp("EInvalidClass", &[cl(v, n)]),
        SchemaError::SupplementsNotSatisfied(v) => capp("ESupplements", &[cl(v, n)]),
        SchemaError::ExcludesNotSatisfied(v) => capp("EExcludes", &[cl(v, n)]),
        SchemaError::Corrupted => "ECorrupted".into(),
        SchemaError::MissingMustAttribute(v) => {
            capp("EMissingMust", &[clist(&v.iter().map(|a| n.attr(a.as_str())).collect::<Vec<u64>>(), |x| cn(*x))])
        }
        SchemaError::PhantomAttribute(a) => capp("EPhantom", &[cn(n.attr(a))]),
        SchemaError::InvalidAttribute(a) => capp("EInvalidAttr", &[cn(n.attr(a))]),
        SchemaError::AttributeNotValidForClass(a) => capp("ENotValidForClass", &[cn(n.attr(a))]),
        SchemaError::InvalidAttributeSyntax(a) => capp("EInvalidSyntax", &[cn(n.attr(a))]),
        other => panic!("unexpected schema error {:?}", other),
    }
}
fn serr_kind(e: &SchemaError) -> &'static str {
    match e {
        SchemaError::NoClassFound => "err_noclass",
        SchemaError::InvalidClass(_) => "err_invalidclass",
        SchemaError::SupplementsNotSatisfied(_) => "err_supplements",
        SchemaError::ExcludesNotSatisfied(_) => "err_excludes",
        SchemaError::Corrupted => "err_corrupted",
        SchemaError::MissingMustAttribute(_) => "err_missingmust",
        SchemaError::PhantomAttribute(_) => "err_phantom",
        SchemaError::InvalidAttribute(_) => "err_invalidattr",
        SchemaError::AttributeNotValidForClass(_) => "err_notvalidforclass",
        SchemaError::InvalidAttributeSyntax(_) => "err_syntax",
        _ => "err_other",
    }
}

// ------------------------------------------------------------------ value factory

const SYNS: [SyntaxType; 6] = [
    SyntaxType::Utf8String,
    SyntaxType::Utf8StringInsensitive,
    SyntaxType::Utf8StringIname,
    SyntaxType::Uint32,
    SyntaxType::Boolean,
    SyntaxType::Uuid,
];

/// a value set of syntax `syn` with `n` values (n>=1; Boolean caps at 2); `bad` makes one value
/// fail its syntax predicate where the type allows that
fn mk_vs(syn: SyntaxType, n: usize, bad: bool, salt: u64) -> ValueSet {
    let vals: Vec<Value> = (0..n)
        .map(|i| {
            let b = bad && i == 0;
            match syn {
                SyntaxType::Utf8String => Value::new_utf8s(if b { "" } else { ["alpha", "beta", "gamma", "delta"][i % 4] }),
                SyntaxType::Utf8StringInsensitive => {
                    if b {
                        Value::new_iutf8("two\nlines")
                    } else {
                        Value::new_iutf8(["one", "two", "three", "four"][i % 4])
                    }
                }
                SyntaxType::Utf8StringIname => {
                    if b {
                        Value::new_iname("not a name!")
                    } else {
                        Value::new_iname(&format!("nm{}x{}", salt % 1000, i))
                    }
                }
                SyntaxType::Uint32 => Value::Uint32(i as u32 + 7),
                SyntaxType::Boolean => Value::new_bool(i % 2 == 0),
                SyntaxType::Uuid => Value::Uuid(Uuid::from_u128(0x5151_0000_0000_0000u128 + ((salt as u128) << 8) + i as u128)),
                _ => unreachable!(),
            }
        })
        .collect();
    valueset::from_value_iter(vals.into_iter()).expect("vs")
}

// ------------------------------------------------------------------ (a) function level

struct Syn {
    attrs: Vec<SchemaAttribute>,
    classes: Vec<SchemaClass>,
}
const TA: usize = 8;
const TC: usize = 6;
fn ta(i: usize) -> String {
    format!("ta{}", i)
}
fn tc(i: usize) -> String {
    format!("tc{}", i)
}

fn gen_schema(rng: &mut Rng) -> Syn {
    let mut attrs = vec![];
    let mk = |name: &str, multi: bool, phantom: bool, syn: SyntaxType, k: u128| SchemaAttribute {
        name: Attribute::from(name),
        uuid: Uuid::from_u128(0xa000 + k),
        description: name.to_string(),
        multivalue: multi,
        phantom,
        syntax: syn,
        ..Default::default()
    };
    if rng.chance(19, 20) {
        attrs.push(mk("class", true, false, SyntaxType::Utf8StringInsensitive, 0));
    }
    if rng.chance(19, 20) {
        attrs.push(mk("uuid", false, false, SyntaxType::Uuid, 1));
    }
    if rng.chance(9, 10) {
        attrs.push(mk("last_modified_cid", false, false, SyntaxType::Cid, 2));
    }
    if rng.chance(9, 10) {
        attrs.push(mk("created_at_cid", false, false, SyntaxType::Cid, 3));
    }
    for i in 0..TA {
        if rng.chance(19, 20) {
            attrs.push(mk(&ta(i), rng.chance(1, 2), rng.chance(1, 8), *rng.pick(&SYNS), 10 + i as u128));
        }
    }
    let pick_attrs = |rng: &mut Rng, max: u64| -> Vec<Attribute> {
        let k = rng.below(max + 1);
        (0..k).map(|_| Attribute::from(ta(rng.below(TA as u64) as usize).as_str())).collect()
    };
    let mut classes = vec![];
    let base_may: Vec<Attribute> = ["last_modified_cid", "created_at_cid"]
        .iter()
        .filter(|_| rng.chance(14, 15))
        .map(|s| Attribute::from(*s))
        .collect();
    // tc0 plays the role of `object`
    let mut c0 = SchemaClass { name: tc(0).as_str().into(), uuid: Uuid::from_u128(0xc000), description: "base".into(), ..Default::default() };
    c0.systemmust = vec![Attribute::Class, Attribute::Uuid];
    c0.systemmay = base_may;
    if rng.chance(1, 6) {
        c0.may = pick_attrs(rng, 2);
    }
    classes.push(c0);
    for (k, nm) in ["recycled", "extensibleobject", "conflict"].iter().enumerate() {
        if rng.chance(9, 10) {
            let mut c = SchemaClass { name: (*nm).into(), uuid: Uuid::from_u128(0xc100 + k as u128), description: nm.to_string(), ..Default::default() };
            if *nm == "conflict" {
                c.systemmust = vec![Attribute::SourceUuid];
                if rng.chance(1, 2) {
                    c.systemsupplements = vec!["recycled".into()];
                }
            }
            classes.push(c);
        }
    }
    for i in 1..TC {
        if !rng.chance(11, 12) {
            continue;
        }
        let mut c = SchemaClass { name: tc(i).as_str().into(), uuid: Uuid::from_u128(0xc000 + i as u128), description: tc(i), ..Default::default() };
        c.systemmust = pick_attrs(rng, 1);
        c.must = if rng.chance(1, 3) { pick_attrs(rng, 1) } else { vec![] };
        c.systemmay = pick_attrs(rng, 3);
        c.may = pick_attrs(rng, 2);
        if rng.chance(1, 5) {
            c.systemsupplements = vec![tc(rng.below(TC as u64) as usize).as_str().into()];
        }
        if rng.chance(1, 8) {
            c.supplements = vec![tc(rng.below(TC as u64) as usize).as_str().into()];
        }
        if rng.chance(1, 6) {
            c.systemexcludes = vec![tc(1 + rng.below(TC as u64 - 1) as usize).as_str().into()];
        }
        if rng.chance(1, 10) {
            c.excludes = vec![tc(1 + rng.below(TC as u64 - 1) as usize).as_str().into()];
        }
        classes.push(c);
    }
    Syn { attrs, classes }
}

fn gen_entry(rng: &mut Rng, syn: &Syn, salt: u64, for_repl: bool) -> Entry<EntryInit, EntryNew> {
    let mut e: Entry<EntryInit, EntryNew> = Entry::new();
    let adef = |name: &str| syn.attrs.iter().find(|a| a.name.as_str() == name);
    // classes
    let mut cls: Vec<String> = vec![];
    if rng.chance(11, 12) {
        cls.push(tc(0));
    }
    let k = rng.below(3);
    for _ in 0..k {
        cls.push(tc(1 + rng.below(TC as u64 - 1) as usize));
    }
    if rng.chance(1, 8) {
        cls.push("extensibleobject".into());
    }
    if rng.chance(1, 10) {
        cls.push("recycled".into());
    }
    if rng.chance(1, 25) {
        cls.push("conflict".into());
    }
    if rng.chance(1, 25) {
        cls.push("tcx".into()); // never defined
    }
    let careful = rng.chance(2, 3);
    if careful {
        // add a supplement target when one is demanded
        let mut extra = vec![];
        for c in &cls {
            if let Some(d) = syn.classes.iter().find(|d| d.name.as_str() == c) {
                if let Some(s) = d.systemsupplements.iter().chain(d.supplements.iter()).next() {
                    extra.push(s.to_string());
                }
            }
        }
        cls.extend(extra);
    }
    // a class attribute of another value-set type trips a debug_assert in as_iutf8_set (debug builds)
    let corrupt_class = false && !for_repl;
    if !cls.is_empty() || rng.chance(1, 2) {
        for c in &cls {
            if corrupt_class {
                e.add_ava(Attribute::Class, Value::new_utf8s(c));
            } else {
                e.add_ava(Attribute::Class, Value::new_iutf8(c));
            }
        }
    }
    // uuid
    match rng.below(40) {
        0 => {}
        1 => e.set_ava_set(&Attribute::Uuid, mk_vs(SyntaxType::Uuid, 2, false, salt)),
        2 => e.set_ava_set(&Attribute::Uuid, mk_vs(SyntaxType::Utf8String, 1, false, salt)),
        _ => e.set_ava_set(&Attribute::Uuid, mk_vs(SyntaxType::Uuid, 1, false, salt)),
    }
    // attributes
    let mut musts: Vec<String> = vec![];
    let mut mays: Vec<String> = vec![];
    for c in &cls {
        if let Some(d) = syn.classes.iter().find(|d| d.name.as_str() == c) {
            musts.extend(d.systemmust.iter().chain(d.must.iter()).map(|a| a.to_string()));
            mays.extend(d.systemmay.iter().chain(d.may.iter()).map(|a| a.to_string()));
        }
    }
    let add = |e: &mut Entry<EntryInit, EntryNew>, rng: &mut Rng, name: &str, sloppy: bool| {
        if name == "class" || name == "uuid" || name.ends_with("_cid") {
            return;
        }
        let (syn_t, multi) = match adef(name) {
            Some(d) => (d.syntax, d.multivalue),
            None => (*rng.pick(&SYNS), true),
        };
        let st = if sloppy && rng.chance(1, 6) { *rng.pick(&SYNS) } else { syn_t };
        let n = if multi || (sloppy && rng.chance(1, 6)) { 1 + rng.below(3) as usize } else { 1 };
        let n = if st == SyntaxType::Boolean { n.min(2) } else { n };
        let bad = sloppy && rng.chance(1, 6);
        e.set_ava_set(&Attribute::from(name), mk_vs(st, n, bad, salt));
    };
    if careful {
        for m in &musts {
            if rng.chance(14, 15) {
                add(&mut e, rng, m, false);
            }
        }
        for m in &mays {
            if rng.chance(1, 2) {
                let sl = rng.chance(1, 10);
                add(&mut e, rng, m, sl);
            }
        }
        if rng.chance(1, 8) {
            let nm = ta(rng.below(TA as u64) as usize);
            add(&mut e, rng, &nm, true);
        }
    } else {
        let k = rng.below(5);
        for _ in 0..k {
            let nm = ta(rng.below(TA as u64) as usize);
            add(&mut e, rng, &nm, true);
        }
        for m in &musts {
            if rng.chance(1, 2) {
                add(&mut e, rng, m, true);
            }
        }
    }
    e
}

fn function_level(sidx: usize, rng: &mut Rng, sink: &mut Sink) {
    let per = 12;
    let cid = Cid { ts: Duration::from_secs(100), s_uuid: Uuid::from_u128(9) };
    {
        let syn = gen_schema(rng);
        let schema = Schema::new().expect("schema");
        let mut w = schema.write();
        w.update_attributes(syn.attrs.clone().into_iter()).expect("ua");
        w.update_classes(syn.classes.clone().into_iter()).expect("uc");
        let mut n = Names::new();
        let asch = dump_schema(&w, &mut n);
        let csch = c_schema(&asch);
        for j in 0..per {
            let salt = (sidx * per + j) as u64;
            let for_repl = j % 4 == 3;
            let e = gen_entry(rng, &syn, salt, for_repl);
            if !for_repl {
                let inv = e.clone().assign_cid(cid.clone(), &w);
                let ae = dump_entry(&inv, &w, &mut n);
                let r = inv.validate(&w);
                let (cr, kind) = match &r {
                    Ok(_) => ("None".to_string(), "valid"),
                    Err(se) => (format!("(Some {})", c_serr(se, &mut n)), serr_kind(se)),
                };
                sink.bump(&format!("validate_{}", kind));
                // non-trivial: the entry got past the class checks (accepted, or refused for an attribute reason)
                let nontrivial = matches!(
                    &r,
                    Ok(_)
                        | Err(SchemaError::MissingMustAttribute(_))
                        | Err(SchemaError::InvalidAttributeSyntax(_))
                        | Err(SchemaError::AttributeNotValidForClass(_))
                        | Err(SchemaError::PhantomAttribute(_))
                        | Err(SchemaError::InvalidAttribute(_))
                );
                sink.case(
                    capp("CValidate", &[csch.clone(), c_entry(&ae), cr]),
                    format!("validate schema#{} entry={:?} -> {:?}", sidx, ae, r.as_ref().map(|_| ()).map_err(|e| format!("{:?}", e))),
                    nontrivial,
                );
            } else {
                let ae = dump_entry(&e, &w, &mut n);
                let was_valid_hint = ae.iter().any(|(a, _)| *a == 0);
                let wref = &w;
                let e2 = e.clone();
                let c2 = cid.clone();
                let out = guarded(std::panic::AssertUnwindSafe(move || e2.verif_c15_validate_repl(Uuid::from_u128(0x77), c2, wref)));
                match out {
                    Ok(o) => {
                        let ao = dump_entry(&o, &w, &mut n);
                        let became_conflict = ao != ae;
                        sink.bump(if became_conflict { "repl_to_conflict" } else { "repl_kept" });
                        sink.case(
                            capp("CRepl", &[csch.clone(), c_entry(&ae), c_entry(&ao)]),
                            format!("validate_repl schema#{} entry={:?} -> {:?}", sidx, ae, ao),
                            became_conflict && was_valid_hint,
                        );
                    }
                    Err(p) => panic!("validate_repl panicked: {}", p),
                }
            }
        }
    }
}

// ------------------------------------------------------------------ (b) histories

#[derive(Clone)]
struct Snap {
    schema: ASchema,
    /// uuid id -> (abstract entry, digest of the full attribute content)
    db: BTreeMap<u64, (AEntry, u64)>,
}

fn fnv64(s: &str) -> u64 {
    let mut h = 0xcbf29ce484222325u64;
    for b in s.as_bytes() {
        h ^= *b as u64;
        h = h.wrapping_mul(0x100000001b3);
    }
    h
}

async fn snapshot(qs: &QueryServer, n: &mut Names) -> Snap {
    let mut r = qs.read().await.expect("read");
    let all = r.internal_search(kanidmd_lib::filter_all!(f_pres(Attribute::Class))).expect("search all");
    let schema = r.get_schema();
    let asch = dump_schema(schema, n);
    let mut ents: Vec<_> = all.iter().collect();
    ents.sort_by_key(|e| e.get_uuid());
    let mut db = BTreeMap::new();
    for e in ents {
        let ae = dump_entry(e.as_ref(), schema, n);
        let dg = fnv64(&format!("{:?}", e.get_ava()));
        db.insert(n.uuid(e.get_uuid()), (ae, dg));
    }
    Snap { schema: asch, db }
}

fn c_srv(s: &Snap) -> String {
    let d: Vec<String> = s.db.iter().map(|(u, (e, _))| format!("({}, {})", cn(*u), c_entry(e))).collect();
    format!("({}, {})", c_schema(&s.schema), clist_s(&d))
}

/// (attribute upserts, class upserts, entry changes) between two snapshots
fn diff(old: &Snap, new: &Snap) -> (String, String, String, usize, usize) {
    let mut sa = vec![];
    for (k, d) in &new.schema.attrs {
        if old.schema.attrs.get(k) != Some(d) {
            sa.push(format!("({}, {})", cn(*k), c_adef(d)));
        }
    }
    let mut sc = vec![];
    for (k, d) in &new.schema.classes {
        if old.schema.classes.get(k) != Some(d) {
            sc.push(format!("({}, {})", cn(*k), c_cdef(d)));
        }
    }
    // definitions that disappeared are outside the property's quantifier; the generator never deletes
    for k in old.schema.attrs.keys() {
        assert!(new.schema.attrs.contains_key(k), "attribute definition vanished");
    }
    for k in old.schema.classes.keys() {
        assert!(new.schema.classes.contains_key(k), "class definition vanished");
    }
    let mut ch = vec![];
    for (u, (e, dg)) in &new.db {
        match old.db.get(u) {
            Some((_, odg)) if odg == dg => {}
            _ => ch.push(format!("({}, Some {})", cn(*u), c_entry(e))),
        }
    }
    for u in old.db.keys() {
        if !new.db.contains_key(u) {
            ch.push(format!("({}, None)", cn(*u)));
        }
    }
    let nsch = sa.len() + sc.len();
    let nch = ch.len();
    (clist_s(&sa), clist_s(&sc), clist_s(&ch), nsch, nch)
}

fn c_ores(r: &Result<(), OperationError>, n: &mut Names) -> (String, &'static str) {
    match r {
        Ok(()) => ("ROk".into(), "ok"),
        Err(OperationError::SchemaViolation(se)) => (capp("RSchema", &[c_serr(se, n)]), serr_kind(se)),
        Err(_) => ("ROther".into(), "other_error"),
    }
}

const XSYN: [(&str, SyntaxType); 4] = [
    ("UTF8STRING", SyntaxType::Utf8String),
    ("UTF8STRING_INSENSITIVE", SyntaxType::Utf8StringInsensitive),
    ("UINT32", SyntaxType::Uint32),
    ("BOOLEAN", SyntaxType::Boolean),
];

struct XAttr {
    name: String,
    syn: SyntaxType,
    multi: bool,
}
struct XClass {
    name: String,
    uuid: Uuid,
}

/// apply a candidate-building edit to a copy of a stored entry
fn rebuild<V, S>(e: &Entry<V, S>) -> Entry<EntryInit, EntryNew> {
    let mut n: Entry<EntryInit, EntryNew> = Entry::new();
    for (a, vs) in e.get_ava_iter() {
        n.set_ava_set(a, vs.clone());
    }
    n
}

async fn single_history(hid: usize, len: usize, rng: &mut Rng, sink: &mut Sink) {
    let qs = setup_test(TestConfiguration { domain_level: DOMAIN_LEVEL_14, ..Default::default() }).await;
    let mut n = Names::new();
    let mut snap = snapshot(&qs, &mut n).await;
    let a0 = c_srv(&snap);
    let empty = "(mksch [] [], [])".to_string();
    let mut steps: Vec<String> = vec![];
    let mut txt = format!("hist single#{} entries0={}:", hid, snap.db.len());
    let mut xattrs: Vec<XAttr> = vec![];
    let mut xclasses: Vec<XClass> = vec![];
    let mut xentries: Vec<Uuid> = vec![];
    let mut groups: Vec<Uuid> = vec![];
    let mut t = duration_from_epoch_now() + Duration::from_secs(60);
    let mut counter = 0u128;
    let ubase = 0x1500_0000_0000_0000_0000_0000_0000_0000u128 + ((hid as u128) << 64);
    let mut n_reject = 0;
    let mut n_schema = 0;
    let dcid = Cid { ts: Duration::from_secs(1), s_uuid: Uuid::from_u128(1) };
    for _step in 0..len {
        t += Duration::from_secs(1);
        counter += 1;
        let mut w = qs.write(t).await.expect("write");
        let mut cand: Option<AEntry> = None;
        // more schema work early on
        let phase = rng.below(100);
        let want_schema = xclasses.is_empty() || xattrs.len() < 2 || phase < 22;
        let (label, r): (String, Result<(), OperationError>) = if want_schema {
            match rng.below(4) {
                0 | 1 if xattrs.len() < 7 => {
                    let (sn, st) = *rng.pick(&XSYN);
                    let name = format!("xa{}h{}", xattrs.len(), hid);
                    let multi = rng.chance(1, 2);
                    let e: Entry<EntryInit, EntryNew> = kanidmd_lib::entry_init!(
                        (Attribute::Class, EntryClass::Object.to_value()),
                        (Attribute::Class, EntryClass::AttributeType.to_value()),
                        (Attribute::Uuid, Value::Uuid(Uuid::from_u128(ubase + counter))),
                        (Attribute::AttributeName, Value::new_iutf8(&name)),
                        (Attribute::Description, Value::new_utf8s("c15 attribute")),
                        (Attribute::MultiValue, Value::new_bool(multi)),
                        (Attribute::Unique, Value::new_bool(false)),
                        (Attribute::Syntax, Value::new_syntaxs(sn).expect("syntax"))
                    );
                    let r = w.internal_create(vec![e]);
                    if r.is_ok() {
                        xattrs.push(XAttr { name: name.clone(), syn: st, multi });
                    }
                    (format!("add-attr {} {} multi={}", name, sn, multi), r)
                }
                2 if !xclasses.is_empty() && !xattrs.is_empty() => {
                    // add an optional attribute to an existing class (sometimes one that does not exist)
                    let c = rng.pick(&xclasses);
                    let an = if rng.chance(1, 8) { "xaundefined".to_string() } else { rng.pick(&xattrs).name.clone() };
                    let ml = ModifyList::new_append(Attribute::May, Value::new_iutf8(&an));
                    let r = w.internal_modify_uuid(c.uuid, &ml);
                    (format!("add-may {} {}", c.name, an), r)
                }
                _ => {
                    let name = format!("xc{}h{}", xclasses.len(), hid);
                    let u = Uuid::from_u128(ubase + counter);
                    let mut e: Entry<EntryInit, EntryNew> = kanidmd_lib::entry_init!(
                        (Attribute::Class, EntryClass::Object.to_value()),
                        (Attribute::Class, EntryClass::ClassType.to_value()),
                        (Attribute::Uuid, Value::Uuid(u)),
                        (Attribute::ClassName, Value::new_iutf8(&name)),
                        (Attribute::Description, Value::new_utf8s("c15 class"))
                    );
                    let mut desc = String::new();
                    for xa in &xattrs {
                        match rng.below(6) {
                            0 => {
                                e.add_ava(Attribute::Must, Value::new_iutf8(&xa.name));
                                desc.push_str(&format!(" must:{}", xa.name));
                            }
                            1 | 2 => {
                                e.add_ava(Attribute::May, Value::new_iutf8(&xa.name));
                                desc.push_str(&format!(" may:{}", xa.name));
                            }
                            _ => {}
                        }
                    }
                    if rng.chance(1, 10) {
                        e.add_ava(Attribute::May, Value::new_iutf8("xaundefined"));
                        desc.push_str(" may:xaundefined");
                    }
                    if !xclasses.is_empty() && rng.chance(1, 6) {
                        let o = rng.pick(&xclasses).name.clone();
                        e.add_ava(Attribute::Excludes, Value::new_iutf8(&o));
                        desc.push_str(&format!(" excludes:{}", o));
                    }
                    let r = w.internal_create(vec![e]);
                    if r.is_ok() {
                        xclasses.push(XClass { name: name.clone(), uuid: u });
                    }
                    (format!("add-class {}{}", name, desc), r)
                }
            }
        } else if phase < 30 && !groups.is_empty() {
            // realistic operations through the plugins (no candidate prediction)
            let g = *rng.pick(&groups);
            if rng.chance(1, 3) {
                let r = w.internal_delete_uuid(g);
                if r.is_ok() {
                    groups.retain(|x| *x != g);
                }
                ("delete group".to_string(), r)
            } else {
                let other = *rng.pick(&groups);
                let r = w.internal_modify_uuid(g, &ModifyList::new_append(Attribute::Member, Value::Refer(other)));
                ("group add member".to_string(), r)
            }
        } else if phase < 38 {
            let u = Uuid::from_u128(ubase + counter);
            let e: Entry<EntryInit, EntryNew> = kanidmd_lib::entry_init!(
                (Attribute::Class, EntryClass::Object.to_value()),
                (Attribute::Class, EntryClass::Group.to_value()),
                (Attribute::Name, Value::new_iname(&format!("c15g{}x{}", hid, counter))),
                (Attribute::Uuid, Value::Uuid(u))
            );
            let r = w.internal_create(vec![e]);
            if r.is_ok() {
                groups.push(u);
            }
            ("create group".to_string(), r)
        } else if phase < 70 || xentries.is_empty() {
            // create an entry of the custom classes
            let u = Uuid::from_u128(ubase + counter);
            let mut e: Entry<EntryInit, EntryNew> = Entry::new();
            e.add_ava(Attribute::Class, EntryClass::Object.to_value());
            let mut desc = String::new();
            let k = 1 + rng.below(2);
            for _ in 0..k {
                let c = rng.pick(&xclasses);
                e.add_ava(Attribute::Class, Value::new_iutf8(&c.name));
                desc.push_str(&format!(" {}", c.name));
            }
            if rng.chance(1, 10) {
                e.add_ava(Attribute::Class, EntryClass::ExtensibleObject.to_value());
                desc.push_str(" extensible");
            }
            if rng.chance(1, 14) {
                e.add_ava(Attribute::Class, Value::new_iutf8("xcundefined"));
                desc.push_str(" xcundefined");
            }
            e.add_ava(Attribute::Uuid, Value::Uuid(u));
            for xa in &xattrs {
                if rng.chance(3, 5) {
                    let sloppy = rng.chance(1, 5);
                    let st = if sloppy && rng.chance(1, 3) { XSYN[rng.below(4) as usize].1 } else { xa.syn };
                    let cnt = if xa.multi || (sloppy && rng.chance(1, 3)) { 1 + rng.below(3) as usize } else { 1 };
                    let cnt = if st == SyntaxType::Boolean { cnt.min(2) } else { cnt };
                    let bad = sloppy && rng.chance(1, 3);
                    e.set_ava_set(&Attribute::from(xa.name.as_str()), mk_vs(st, cnt, bad, counter as u64));
                    desc.push_str(&format!(" {}:{:?}x{}{}", xa.name, st, cnt, if bad { "!" } else { "" }));
                }
            }
            {
                let inv = e.clone().assign_cid(dcid.clone(), w.get_schema());
                cand = Some(dump_entry(&inv, w.get_schema(), &mut n));
            }
            let r = w.internal_create(vec![e]);
            if r.is_ok() {
                xentries.push(u);
            }
            (format!("create{}", desc), r)
        } else {
            // modify a stored custom entry: set / purge one attribute or add / remove a class
            let u = *rng.pick(&xentries);
            let cur = w.internal_search_uuid(u).expect("cur");
            let mut c = rebuild(cur.as_ref());
            let (ml, desc) = match rng.below(4) {
                0 => {
                    let xa = rng.pick(&xattrs);
                    c.pop_ava(Attribute::from(xa.name.as_str()));
                    (ModifyList::new_purge(Attribute::from(xa.name.as_str())), format!("purge {}", xa.name))
                }
                1 => {
                    let xc = rng.pick(&xclasses);
                    c.add_ava(Attribute::Class, Value::new_iutf8(&xc.name));
                    (ModifyList::new_append(Attribute::Class, Value::new_iutf8(&xc.name)), format!("add class {}", xc.name))
                }
                2 => {
                    let xc = rng.pick(&xclasses);
                    let mut set: Vec<String> =
                        c.get_ava_set(Attribute::Class).and_then(|v| v.as_iutf8_set()).map(|s| s.iter().cloned().collect()).unwrap_or_default();
                    set.retain(|x| *x != xc.name);
                    c.pop_ava(Attribute::Class);
                    for s in &set {
                        c.add_ava(Attribute::Class, Value::new_iutf8(s));
                    }
                    (ModifyList::new_remove(Attribute::Class, PartialValue::new_iutf8(&xc.name)), format!("remove class {}", xc.name))
                }
                _ => {
                    let xa = rng.pick(&xattrs);
                    let sloppy = rng.chance(1, 4);
                    let st = if sloppy && rng.chance(1, 2) { XSYN[rng.below(4) as usize].1 } else { xa.syn };
                    let cnt = if xa.multi || sloppy { 1 + rng.below(3) as usize } else { 1 };
                    let cnt = if st == SyntaxType::Boolean { cnt.min(2) } else { cnt };
                    let bad = sloppy && rng.chance(1, 3);
                    let vs = mk_vs(st, cnt, bad, counter as u64 + 500);
                    c.set_ava_set(&Attribute::from(xa.name.as_str()), vs.clone());
                    (ModifyList::new_set(Attribute::from(xa.name.as_str()), vs), format!("set {}:{:?}x{}{}", xa.name, st, cnt, if bad { "!" } else { "" }))
                }
            };
            cand = Some(dump_entry(&c, w.get_schema(), &mut n));
            let r = w.internal_modify_uuid(u, &ml);
            (format!("modify {}", desc), r)
        };
        // the transaction's result includes its commit (schema reload happens there)
        let r = match r {
            Ok(()) => w.commit(),
            Err(e) => {
                drop(w);
                Err(e)
            }
        };
        let new = snapshot(&qs, &mut n).await;
        let (sa, sc, ch, nsch, nch) = diff(&snap, &new);
        let (cr, kind) = c_ores(&r, &mut n);
        sink.bump(&format!("single_op_{}", kind));
        if r.is_err() {
            n_reject += 1;
        }
        if nsch > 0 {
            n_schema += 1;
            sink.bump("single_schema_changed");
        }
        if cand.is_some() {
            sink.bump("single_candidate_predicted");
        }
        let _ = std::fmt::Write::write_fmt(&mut txt, format_args!(" [{} => {} ({} schema defs, {} entries changed)]", label, kind, nsch, nch));
        steps.push(capp("HWrite", &["false".into(), copt(&cand, c_entry), cr, sa, sc, ch]));
        snap = new;
    }
    let verr = qs.verify().await;
    assert!(verr.is_empty(), "server verify() reports {:?}", verr);
    sink.add_stat("single_final_entries", snap.db.len() as u64);
    sink.case(capp("CHist", &[a0, empty, clist_s(&steps)]), txt, n_reject > 0 && n_schema > 0);
}

async fn repl_incremental(from: &QueryServer, to: &QueryServer, t: Duration) -> Result<(), OperationError> {
    let mut w = to.write(t).await.expect("write");
    let mut r = from.read().await.expect("read");
    let range = w.consumer_get_state()?;
    let changes = r.supplier_provide_changes(range)?;
    w.consumer_apply_changes(changes)?;
    drop(r);
    w.commit()
}

async fn pair_history(hid: usize, len: usize, rng: &mut Rng, sink: &mut Sink) {
    let (sa_, sb_) = setup_pair_test(TestConfiguration::default()).await;
    let srv = [&sa_, &sb_];
    let mut t = duration_from_epoch_now() + Duration::from_secs(60);
    // B is refreshed from A so that both share a domain
    {
        let mut w = sb_.write(t).await.expect("write");
        let mut r = sa_.read().await.expect("read");
        let ctx = r.supplier_provide_refresh().expect("refresh ctx");
        w.consumer_apply_refresh(ctx).expect("refresh");
        drop(r);
        w.commit().expect("commit");
    }
    let mut n = Names::new();
    let mut snaps = [snapshot(&sa_, &mut n).await, snapshot(&sb_, &mut n).await];
    let a0 = c_srv(&snaps[0]);
    let b0 = c_srv(&snaps[1]);
    let mut steps: Vec<String> = vec![];
    let mut txt = format!("hist pair#{} entries0={}/{}:", hid, snaps[0].db.len(), snaps[1].db.len());
    let ubase = 0x1600_0000_0000_0000_0000_0000_0000_0000u128 + ((hid as u128) << 64);
    let mut counter = 0u128;
    let mut groups: Vec<Uuid> = vec![];
    let mut n_conflicts = 0u64;
    let mut n_repl = 0;
    let conflict_id = 0u64;
    for step in 0..len {
        t += Duration::from_secs(2);
        counter += 1;
        let k = rng.below(100);
        let force_repl = step == len - 1 || step == len - 2;
        if k < 22 || force_repl {
            // replicate in one direction
            let (from, to) = if (force_repl && step == len - 1) || (!force_repl && rng.chance(1, 2)) { (0usize, 1usize) } else { (1, 0) };
            let r = repl_incremental(srv[from], srv[to], t).await;
            let new = snapshot(srv[to], &mut n).await;
            let (sa, sc, ch, nsch, nch) = diff(&snaps[to], &new);
            assert!(nsch == 0 && sa == "[]" && sc == "[]", "schema changed by replication at the target level");
            // entries that are conflicts now and were not before
            let mut newc = 0;
            for (u, (e, _)) in &new.db {
                let isc = |e: &AEntry| e.iter().any(|(a, v)| *a == 0 && v.vals.contains(&conflict_id));
                if isc(e) && !snaps[to].db.get(u).map(|(o, _)| isc(o)).unwrap_or(false) {
                    newc += 1;
                }
            }
            n_conflicts += newc;
            n_repl += 1;
            sink.bump(if r.is_ok() { "pair_repl_ok" } else { "pair_repl_err" });
            sink.add_stat("pair_repl_new_conflicts", newc);
            let _ = std::fmt::Write::write_fmt(&mut txt, format_args!(" [repl {}->{} {:?} ({} changed, {} new conflicts)]", from, to, r.as_ref().map_err(|e| format!("{:?}", e)), nch, newc));
            steps.push(capp("HRepl", &[cbool(to == 1), ch]));
            snaps[to] = new;
            continue;
        }
        let i = rng.below(2) as usize;
        let mut w = srv[i].write(t).await.expect("write");
        let (label, r): (String, Result<(), OperationError>) = if groups.len() < 3 || k < 34 {
            let u = Uuid::from_u128(ubase + counter);
            let posix = rng.chance(2, 3);
            let mut e: Entry<EntryInit, EntryNew> = kanidmd_lib::entry_init!(
                (Attribute::Class, EntryClass::Object.to_value()),
                (Attribute::Class, EntryClass::Group.to_value()),
                (Attribute::Name, Value::new_iname(&format!("c15p{}x{}", hid, counter))),
                (Attribute::Uuid, Value::Uuid(u))
            );
            if posix {
                e.add_ava(Attribute::Class, EntryClass::PosixGroup.to_value());
                e.add_ava(Attribute::GidNumber, Value::Uint32(70000 + counter as u32));
            }
            let r = w.internal_create(vec![e]);
            if r.is_ok() {
                groups.push(u);
            }
            (format!("create group@{} posix={}", i, posix), r)
        } else {
            let g = *rng.pick(&groups);
            match rng.below(7) {
                0 => {
                    // drop the posix extension together with its attribute (valid on its own)
                    let ml = ModifyList::new_list(vec![
                        Modify::Removed(Attribute::Class, EntryClass::PosixGroup.into()),
                        Modify::Purged(Attribute::GidNumber),
                    ]);
                    (format!("unposix@{}", i), w.internal_modify_uuid(g, &ml))
                }
                1 => {
                    let ml = ModifyList::new_list(vec![
                        Modify::Present(Attribute::Class, EntryClass::PosixGroup.to_value()),
                        Modify::Purged(Attribute::GidNumber),
                        Modify::Present(Attribute::GidNumber, Value::Uint32(80000 + counter as u32)),
                    ]);
                    (format!("posix@{}", i), w.internal_modify_uuid(g, &ml))
                }
                2 => {
                    let ml = ModifyList::new_purge_and_set(Attribute::GidNumber, Value::Uint32(90000 + counter as u32));
                    (format!("set gid@{}", i), w.internal_modify_uuid(g, &ml))
                }
                3 => {
                    // touch the class attribute in a harmless way (re-assert an existing class value set)
                    let ml = ModifyList::new_list(vec![
                        Modify::Removed(Attribute::Class, EntryClass::Group.into()),
                        Modify::Present(Attribute::Class, EntryClass::Group.to_value()),
                    ]);
                    (format!("touch class@{}", i), w.internal_modify_uuid(g, &ml))
                }
                4 => {
                    let ml = ModifyList::new_purge_and_set(Attribute::Description, Value::new_utf8s(&format!("d{}", counter)));
                    (format!("set description@{}", i), w.internal_modify_uuid(g, &ml))
                }
                5 => {
                    let o = *rng.pick(&groups);
                    let ml = ModifyList::new_append(Attribute::Member, Value::Refer(o));
                    (format!("add member@{}", i), w.internal_modify_uuid(g, &ml))
                }
                _ => {
                    // an invalid request: gidnumber with two values
                    let vs = valueset::from_value_iter(vec![Value::Uint32(1), Value::Uint32(2)].into_iter()).expect("vs");
                    (format!("set gid x2@{}", i), w.internal_modify_uuid(g, &ModifyList::new_set(Attribute::GidNumber, vs)))
                }
            }
        };
        let r = match r {
            Ok(()) => w.commit(),
            Err(e) => {
                drop(w);
                Err(e)
            }
        };
        let new = snapshot(srv[i], &mut n).await;
        let (sa, sc, ch, nsch, nch) = diff(&snaps[i], &new);
        let (cr, kind) = c_ores(&r, &mut n);
        sink.bump(&format!("pair_op_{}", kind));
        let _ = std::fmt::Write::write_fmt(&mut txt, format_args!(" [{} => {} ({} schema defs, {} entries changed)]", label, kind, nsch, nch));
        steps.push(capp("HWrite", &[cbool(i == 1), "None".into(), cr, sa, sc, ch]));
        snaps[i] = new;
    }
    for s in srv {
        let verr = s.verify().await;
        assert!(verr.is_empty(), "server verify() reports {:?}", verr);
    }
    sink.case(capp("CHist", &[a0, b0, clist_s(&steps)]), txt, n_repl > 0 && n_conflicts > 0);
}

fn main() {
    let args = parse_args();
    let mut rng = Rng::new(args.seed);
    let mut sink = Sink::new(&args, "KV.C15.Model", 120);
    sink.rule = "function level: random synthetic schemas installed in a real Schema x random entries (classes incl. undefined / conflict / recycled / \
extensible, attributes with right and wrong syntax, too many values, invalid values, missing must, phantom, undefined) through the real \
Entry::validate and validate_repl; non-trivial = the entry passes the class checks (accepted or refused for an attribute reason), for validate_repl = \
the entry was turned into a conflict. history level: random histories on real servers: single server with database-defined schema (add attribute / \
add class / add may, some ill-formed; creates and modifies of entries of the new classes, many invalid; group create / member / delete through the \
plugins), non-trivial = at least one refused operation and one schema change; two servers with incremental replication of concurrent edits (posix \
extension removed on one side and gidnumber / class edited on the other), non-trivial = replication produced at least one schema conflict entry."
        .into();
    let rt = tokio::runtime::Builder::new_current_thread().enable_all().build().expect("rt");
    let (n_schemas, n_single, len_single, n_pair, len_pair) = if args.thorough { (900, 10, 60, 8, 60) } else { (130, 3, 36, 2, 40) };
    // histories are large terms: they are interleaved with the function-level cases so that
    // every history lands in a different shard
    let n_hist = n_single + n_pair;
    let gap = n_schemas / n_hist;
    let mut h = 0;
    for sidx in 0..n_schemas {
        function_level(sidx, &mut rng, &mut sink);
        if sidx % gap == gap / 2 && h < n_hist {
            if h < n_single {
                rt.block_on(single_history(h, len_single, &mut rng, &mut sink));
            } else {
                rt.block_on(pair_history(h - n_single, len_pair, &mut rng, &mut sink));
            }
            h += 1;
        }
    }
    assert_eq!(h, n_hist);
    sink.finish();
}
