//! C32 — bearer tokens are accepted only for live sessions.
//!
//! One case = one random history on a fresh REAL in-memory IdmServer: password logins and
//! anonymous logins through the public `auth` state machine (the queued AuthSessionRecord is
//! held back and processed at a harness-chosen later time, sometimes never, sometimes with an
//! altered expiry), API token issue (JSON and compact form) / destroy, logout
//! (`account_destroy_session_token`), credential purge / replacement, validity window edits,
//! account deletion, revocation of the domain signing keys — each in a write transaction at a
//! harness-chosen time.  Besides the tokens the server issued, the history mints token bodies no
//! login produces (no expiry, shifted expiry, unknown session, other / missing account, fresh
//! issue time) with the REAL domain key through `verif_hooks::c32`, the same bodies signed by a
//! second server's key (foreign), and copies with a damaged signature.
//! After every operation the known tokens are presented to
//! `IdmServerTransaction::validate_client_auth_info_to_ident` at the current time and at
//! boundary times (expiry, grace end, window edges, +-1 ns); with every presentation the harness
//! reads back the real entry (owner, window, session record state, API record).
//! The Coq model (KV.C32.Model) replays the operations and predicts every answer and every
//! read-back (`agree`); the property predicate is evaluated on the answers and read-backs (`pcheck`).
use kanidm_proto::internal::{ApiToken as ProtoApiToken, UserAuthToken};
use kanidm_proto::v1::{AuthCredential, AuthIssueSession, AuthMech, AuthStep};
use kanidmd_lib::entry::{Entry, EntryInit, EntryNew};
use kanidmd_lib::idm::account::DestroySessionTokenEvent;
use kanidmd_lib::idm::authentication::AuthState;
use kanidmd_lib::idm::delayed::{AuthSessionRecord, DelayedAction};
use kanidmd_lib::idm::event::AuthEvent;
use kanidmd_lib::idm::server::{IdmServerTransaction, Token};
use kanidmd_lib::idm::serviceaccount::{DestroyApiTokenEvent, GenerateApiTokenEvent};
use kanidmd_lib::prelude::*;
use kanidmd_lib::testkit::{setup_idm_test, TestConfiguration};
use kanidmd_lib::value::SessionState;
use kanidmd_lib::verif_hooks::c28 as hook28;
use kanidmd_lib::verif_hooks::c32 as hook;
use kvh::*;
use std::str::FromStr;

const G: u64 = 1_000_000_000;
/// all printed times are relative to this instant (2030-03-17)
const BASE: u64 = 1_900_000_000 * G;
const T0: u64 = BASE + 86_400 * G;
const GRACE: u64 = 300 * G;
const PW: &str = "eicieY7ahchaoCh0eeTa";

fn d(ns: u64) -> Duration {
    Duration::from_nanos(ns)
}
// `time::OffsetDateTime` is not a dependency of this crate: values are made through kanidm's
// own `From<&Cid> for OffsetDateTime` (UNIX_EPOCH + ts) and read by method call.
macro_rules! odt {
    ($ns:expr) => {
        (&Cid { ts: Duration::from_nanos($ns), s_uuid: Uuid::from_u128(0) }).into()
    };
}
macro_rules! unodt {
    ($t:expr) => {
        ($t).unix_timestamp_nanos() as u64
    };
}
/// the `kid` of the protected header (the accessor is a method of a compact_jwt trait this crate cannot import)
fn kid_of(j: &hook::JwsCompact) -> Option<String> {
    let s = j.to_string();
    let h = s.split('.').next()?;
    let mut bits: u32 = 0;
    let mut nb = 0;
    let mut out = vec![];
    for c in h.bytes() {
        let v = match c {
            b'A'..=b'Z' => c - b'A',
            b'a'..=b'z' => c - b'a' + 26,
            b'0'..=b'9' => c - b'0' + 52,
            b'-' => 62,
            b'_' => 63,
            _ => continue,
        } as u32;
        bits = (bits << 6) | v;
        nb += 6;
        if nb >= 8 {
            nb -= 8;
            out.push((bits >> nb) as u8);
            bits &= (1 << nb) - 1;
        }
    }
    let v: serde_json::Value = serde_json::from_slice(&out).ok()?;
    v.get("kid").and_then(|k| k.as_str()).map(|k| k.to_string())
}
fn rel(t: u64) -> String {
    assert!(t >= BASE, "time below BASE");
    cn(t - BASE)
}
fn orel(t: &Option<u64>) -> String {
    copt(t, |x| rel(*x))
}

#[derive(Clone)]
enum Body {
    Uat(UserAuthToken),
    Api(ProtoApiToken),
    ApiC(Uuid),
}

#[derive(Clone)]
struct Tok {
    jws: hook::JwsCompact,
    body: Body,
    foreign: bool,
    sigok: bool,
    label: String,
}

struct Acct {
    uuid: Uuid,
    name: String,
    service: bool,
    live: bool,
    has_cred: bool,
    vf: Option<u64>,
    ex: Option<u64>,
}

struct World<'a> {
    rt: &'a tokio::runtime::Runtime,
    idms: IdmServer,
    delayed: IdmServerDelayed,
    foreign: &'a IdmServer,
    accts: Vec<Acct>,
    aid: Intern<Uuid>,
    sid: Intern<Uuid>,
    cid: Intern<Uuid>,
    kid: Intern<String>,
    toks: Vec<Tok>,
    pending: Vec<AuthSessionRecord>,
    done: Vec<(Uuid, Uuid, Uuid)>, // (target, session, cred) of processed records
    evs: Vec<String>,
    txt: String,
    ever_ok: std::collections::BTreeSet<usize>,
    later_rejected: bool,
    n_accept: u64,
    n_reject: u64,
    n_mint_accept: u64,
}

fn internal_ident(e: std::sync::Arc<kanidmd_lib::entry::EntrySealedCommitted>) -> Identity {
    let mut i = Identity::from_impersonate_entry_readwrite(e);
    i.origin = IdentType::Internal(InternalRole::System);
    i
}

impl<'a> World<'a> {
    fn log(&mut self, s: String) {
        self.txt.push_str(&s);
        self.txt.push_str(" | ");
    }

    fn drain(&mut self) -> Vec<DelayedAction> {
        use std::future::Future;
        use std::task::{Context, Poll, Waker};
        let mut all = vec![];
        loop {
            let mut buf: Vec<DelayedAction> = Vec::with_capacity(16);
            let n = {
                let mut fut = std::pin::pin!(self.delayed.recv_many(&mut buf));
                let mut cx = Context::from_waker(Waker::noop());
                match fut.as_mut().poll(&mut cx) {
                    Poll::Ready(n) => n,
                    Poll::Pending => 0,
                }
            };
            if n == 0 {
                break;
            }
            all.append(&mut buf);
        }
        all
    }

    fn create(&mut self, n: u64, service: bool, t: u64) {
        let uuid = Uuid::from_u128(0xc32c_32c3_0000_0000_0000_0000_0000_0000u128 + n as u128);
        let name = format!("c32acct{}", n);
        let mut e: Entry<EntryInit, EntryNew> = kanidmd_lib::entry_init!(
            (Attribute::Class, EntryClass::Object.to_value()),
            (Attribute::Class, EntryClass::Account.to_value()),
            (Attribute::Name, Value::new_iname(&name)),
            (Attribute::Uuid, Value::Uuid(uuid)),
            (Attribute::Description, Value::new_utf8s(&name)),
            (Attribute::DisplayName, Value::new_utf8s(&name))
        );
        let mut creds = vec![];
        if service {
            e.add_ava(Attribute::Class, EntryClass::ServiceAccount.to_value());
        } else {
            e.add_ava(Attribute::Class, EntryClass::Person.to_value());
            let c = kanidmd_lib::credential::Credential::new_password_only(
                &kanidm_lib_crypto::CryptoPolicy::danger_test_minimum(),
                PW,
                odt!(0u64),
            )
            .expect("cred");
            creds.push(self.cid.id(&hook28::cred_uuid(&c)));
            e.add_ava(Attribute::PrimaryCredential, Value::new_credential("primary", c));
        }
        let mut w = self.rt.block_on(self.idms.proxy_write(d(t))).expect("proxy_write");
        w.qs_write.internal_create(vec![e]).expect("create");
        w.commit().expect("commit");
        let a = self.aid.id(&uuid);
        self.evs.push(format!("EOp (OCreate {} {})", cn(a), clist(&creds, |c| cn(*c))));
        self.log(format!("create a{}{}", a, if service { "(svc)" } else { "" }));
        self.accts.push(Acct { uuid, name, service, live: true, has_cred: !service, vf: None, ex: None });
    }

    fn parse_own(&mut self, jws: &hook::JwsCompact, t: u64) -> Option<Body> {
        let mut r = self.rt.block_on(self.idms.proxy_read()).expect("proxy_read");
        match r.validate_and_parse_token_to_identity_token(jws, d(t)) {
            Ok(Token::UserAuthToken(u)) => Some(Body::Uat(u)),
            Ok(Token::ApiToken(a, _)) => Some(Body::Api(a)),
            Err(_) => None,
        }
    }

    /// a real login at time t; the token (if any) joins the pool, the session record is held back
    fn login(&mut self, ai: usize, t: u64) -> bool {
        let name = self.accts[ai].name.clone();
        let anon = self.accts[ai].uuid == UUID_ANONYMOUS;
        let cai = || ClientAuthInfo::new(Source::Internal, None, None, None);
        let rt = self.rt;
        let mut a = rt.block_on(self.idms.auth()).expect("auth txn");
        let ev = AuthEvent::from_message(None, AuthStep::Init2 { username: name, issue: AuthIssueSession::Token, privileged: false }.into()).expect("ev");
        let sess = match rt.block_on(a.auth(&ev, d(t), cai())) {
            Ok(r) => match r.state {
                AuthState::Choose(_) => r.sessionid,
                _ => return false,
            },
            Err(_) => return false,
        };
        let mech = if anon { AuthMech::Anonymous } else { AuthMech::Password };
        let ev = AuthEvent::from_message(Some(sess), AuthStep::Begin(mech).into()).expect("ev");
        match rt.block_on(a.auth(&ev, d(t), cai())) {
            Ok(r) if matches!(r.state, AuthState::Continue(_)) => {}
            _ => return false,
        }
        let cred = if anon { AuthCredential::Anonymous } else { AuthCredential::Password(PW.to_string()) };
        let ev = AuthEvent::from_message(Some(sess), AuthStep::Cred(cred).into()).expect("ev");
        let tok = match rt.block_on(a.auth(&ev, d(t), cai())) {
            Ok(r) => match r.state {
                AuthState::Success(tok, _) => *tok,
                _ => return false,
            },
            Err(_) => return false,
        };
        a.commit().expect("auth commit");
        for da in self.drain() {
            if let DelayedAction::AuthSessionRecord(r) = da {
                self.pending.push(r);
            }
        }
        let body = self.parse_own(&tok, t).expect("a fresh token parses");
        let label = format!("login{}", self.toks.len());
        let a_id = self.aid.id(&self.accts[ai].uuid);
        self.log(format!("login a{} @{} -> {}", a_id, t - BASE, label));
        self.toks.push(Tok { jws: tok, body, foreign: false, sigok: true, label });
        true
    }

    fn record(&mut self, mut asr: AuthSessionRecord, t: u64, alter: u64) {
        // alter: 0 none, 1 expiry + 1 s, 2 no expiry
        match alter {
            1 => asr.expiry = asr.expiry.map(|e| odt!(unodt!(e) + G)),
            2 => asr.expiry = None,
            _ => {}
        }
        let a = self.aid.id(&asr.target_uuid);
        let s = self.sid.id(&asr.session_id);
        let c = self.cid.id(&asr.cred_id);
        let exp = asr.expiry.map(|e| unodt!(e));
        self.done.push((asr.target_uuid, asr.session_id, asr.cred_id));
        let da = DelayedAction::AuthSessionRecord(asr);
        let mut w = self.rt.block_on(self.idms.proxy_write(d(t))).expect("proxy_write");
        let r = w.process_delayedaction(&da, d(t));
        match r {
            Ok(()) => w.commit().expect("commit"),
            Err(OperationError::NoMatchingEntries) => drop(w),
            Err(e) => panic!("record: {:?}", e),
        }
        self.evs.push(format!("EOp (ORecord {} {} {} {} {})", rel(t), cn(a), cn(s), cn(c), orel(&exp)));
        self.log(format!("record a{} s{} c{} exp={:?} @{}", a, s, c, exp.map(|e| e - BASE), t - BASE));
    }

    fn revoke(&mut self, target: Uuid, session: Uuid, t: u64) {
        let mut w = self.rt.block_on(self.idms.proxy_write(d(t))).expect("proxy_write");
        let anon = w.qs_write.internal_search_uuid(UUID_ANONYMOUS).expect("anonymous");
        let ev = DestroySessionTokenEvent { ident: internal_ident(anon), target, token_id: session };
        // an internal identity gets Ok(()) also when the executed filter matches nothing; whether
        // the session record was there (any state) is read from the real entry before the call
        let ok = w
            .qs_write
            .internal_search_uuid(target)
            .ok()
            .map(|e| e.get_ava_as_session_map(Attribute::UserAuthTokenSession).map(|m| m.contains_key(&session)).unwrap_or(false))
            .unwrap_or(false);
        match w.account_destroy_session_token(&ev) {
            Ok(()) => w.commit().expect("commit"),
            Err(e) => panic!("revoke: {:?}", e),
        };
        let (a, s) = (self.aid.id(&target), self.sid.id(&session));
        self.evs.push(format!("EOp (ORevoke {} {} {} {})", rel(t), cn(a), cn(s), cbool(ok)));
        self.log(format!("logout a{} s{} @{} -> {}", a, s, t - BASE, ok));
    }

    fn set_creds(&mut self, ai: usize, replace: bool, t: u64) {
        let uuid = self.accts[ai].uuid;
        let mut mods = vec![Modify::Purged(Attribute::PrimaryCredential)];
        let mut creds = vec![];
        if replace {
            let c = kanidmd_lib::credential::Credential::new_password_only(
                &kanidm_lib_crypto::CryptoPolicy::danger_test_minimum(),
                PW,
                odt!(0u64),
            )
            .expect("cred");
            creds.push(self.cid.id(&hook28::cred_uuid(&c)));
            mods.push(Modify::Present(Attribute::PrimaryCredential, Value::new_credential("primary", c)));
        }
        let mut w = self.rt.block_on(self.idms.proxy_write(d(t))).expect("proxy_write");
        w.qs_write.internal_modify_uuid(uuid, &ModifyList::new_list(mods)).expect("set creds");
        w.commit().expect("commit");
        self.accts[ai].has_cred = replace;
        let a = self.aid.id(&uuid);
        self.evs.push(format!("EOp (OSetCreds {} {} {})", rel(t), cn(a), clist(&creds, |c| cn(*c))));
        self.log(format!("creds a{} := {:?} @{}", a, creds, t - BASE));
    }

    fn window(&mut self, ai: usize, vf: Option<u64>, ex: Option<u64>, t: u64) {
        let uuid = self.accts[ai].uuid;
        let mut mods = vec![Modify::Purged(Attribute::AccountValidFrom), Modify::Purged(Attribute::AccountExpire)];
        if let Some(v) = vf {
            mods.push(Modify::Present(Attribute::AccountValidFrom, Value::new_datetime_epoch(d(v))));
        }
        if let Some(x) = ex {
            mods.push(Modify::Present(Attribute::AccountExpire, Value::new_datetime_epoch(d(x))));
        }
        let mut w = self.rt.block_on(self.idms.proxy_write(d(t))).expect("proxy_write");
        w.qs_write.internal_modify_uuid(uuid, &ModifyList::new_list(mods)).expect("window");
        w.commit().expect("commit");
        self.accts[ai].vf = vf;
        self.accts[ai].ex = ex;
        let a = self.aid.id(&uuid);
        self.evs.push(format!("EOp (OWindow {} {} {} {})", rel(t), cn(a), orel(&vf), orel(&ex)));
        self.log(format!("window a{} := {:?}..{:?} @{}", a, vf.map(|v| v - BASE), ex.map(|v| v - BASE), t - BASE));
    }

    fn api_issue(&mut self, ai: usize, exp: Option<u64>, compact: bool, t: u64) {
        let uuid = self.accts[ai].uuid;
        let mut w = self.rt.block_on(self.idms.proxy_write(d(t))).expect("proxy_write");
        let anon = w.qs_write.internal_search_uuid(UUID_ANONYMOUS).expect("anonymous");
        let ev = GenerateApiTokenEvent {
            ident: internal_ident(anon),
            target: uuid,
            label: "c32".to_string(),
            expiry: exp.map(|e| odt!(e)),
            read_write: false,
            compact,
        };
        let jws = w.service_account_generate_api_token(&ev, d(t)).expect("api token");
        w.commit().expect("commit");
        let body = self.parse_own(&jws, t).expect("a fresh api token parses");
        let Body::Api(apit) = body else { panic!("api token parsed as uat") };
        let tid = self.sid.id(&apit.token_id);
        let a = self.aid.id(&uuid);
        // the STORED expiry is the event's; the JSON token carries whole seconds
        self.evs.push(format!("EOp (OApiIssue {} {} {} {})", rel(t), cn(a), cn(tid), orel(&exp)));
        let label = format!("api{}{}", if compact { "c" } else { "" }, self.toks.len());
        self.log(format!("api-issue a{} t{} exp={:?} @{} -> {}", a, tid, exp.map(|e| e - BASE), t - BASE, label));
        let body = if compact { Body::ApiC(apit.token_id) } else { Body::Api(apit) };
        self.toks.push(Tok { jws, body, foreign: false, sigok: true, label });
    }

    fn api_destroy(&mut self, target: Uuid, token_id: Uuid, t: u64) {
        let mut w = self.rt.block_on(self.idms.proxy_write(d(t))).expect("proxy_write");
        let anon = w.qs_write.internal_search_uuid(UUID_ANONYMOUS).expect("anonymous");
        let ev = DestroyApiTokenEvent { ident: internal_ident(anon), target, token_id };
        let ok = w
            .qs_write
            .internal_search_uuid(target)
            .ok()
            .map(|e| e.get_ava_as_apitoken_map(Attribute::ApiTokenSession).map(|m| m.contains_key(&token_id)).unwrap_or(false))
            .unwrap_or(false);
        match w.service_account_destroy_api_token(&ev) {
            Ok(()) => w.commit().expect("commit"),
            Err(e) => panic!("api destroy: {:?}", e),
        };
        let (a, s) = (self.aid.id(&target), self.sid.id(&token_id));
        self.evs.push(format!("EOp (OApiDestroy {} {} {} {})", rel(t), cn(a), cn(s), cbool(ok)));
        self.log(format!("api-destroy a{} t{} @{} -> {}", a, s, t - BASE, ok));
    }

    fn delete(&mut self, ai: usize, t: u64) {
        let uuid = self.accts[ai].uuid;
        let mut w = self.rt.block_on(self.idms.proxy_write(d(t))).expect("proxy_write");
        w.qs_write.internal_delete_uuid(uuid).expect("delete");
        w.commit().expect("commit");
        self.accts[ai].live = false;
        let a = self.aid.id(&uuid);
        self.evs.push(format!("EOp (ODelete {})", cn(a)));
        self.log(format!("delete a{} @{}", a, t - BASE));
    }

    fn key_revoke(&mut self, kid: &str, t: u64) {
        let mut w = self.rt.block_on(self.idms.proxy_write(d(t))).expect("proxy_write");
        let ml = ModifyList::new_append(Attribute::KeyActionRevoke, Value::HexString(kid.to_string()));
        w.qs_write.internal_modify_uuid(UUID_DOMAIN_INFO, &ml).expect("key revoke");
        w.commit().expect("commit");
        let k = self.kid.id(&kid.to_string());
        self.evs.push(format!("EOp (OKeyRevoke {})", cn(k)));
        self.log(format!("key-revoke k{} @{}", k, t - BASE));
    }

    /// sign `body` with the real domain key (or the foreign server's), optionally damage the signature
    fn mint(&mut self, body: Body, foreign: bool, tamper: bool, t: u64, what: &str) {
        let rt = self.rt;
        let srv: &IdmServer = if foreign { self.foreign } else { &self.idms };
        let mut r = rt.block_on(srv.proxy_read()).expect("proxy_read");
        let jws = match &body {
            Body::Uat(u) => hook::sign_uat(&mut r.qs_read, u, d(t)),
            Body::Api(a) => hook::sign_api_token(&mut r.qs_read, a, d(t)),
            Body::ApiC(s) => hook::sign_api_session_id(&mut r.qs_read, *s, d(t)),
        }
        .expect("sign");
        drop(r);
        let jws = if tamper {
            let s = jws.to_string();
            let cut = s.rfind('.').expect("jws") + 1;
            let mut b = s.into_bytes();
            // a character in the middle of the signature: every bit of it is significant
            let i = cut + (b.len() - cut) / 2;
            b[i] = if b[i] == b'A' { b'B' } else { b'A' };
            hook::JwsCompact::from_str(&String::from_utf8(b).expect("utf8")).expect("reparse")
        } else {
            jws
        };
        let label = format!("mint{}:{}{}{}", self.toks.len(), what, if foreign { ":foreign" } else { "" }, if tamper { ":tampered" } else { "" });
        self.log(format!("mint {} @{}", label, t - BASE));
        self.toks.push(Tok { jws, body, foreign, sigok: !tamper, label });
    }

    fn tok_coq(&mut self, k: &Tok) -> String {
        let kid = kid_of(&k.jws).unwrap_or_else(|| "<none>".to_string());
        let g = format!("(mksig {} {} {})", cn(self.kid.id(&kid)), cbool(k.foreign), cbool(k.sigok));
        match &k.body {
            Body::Uat(u) => capp(
                "TUat",
                &[g, cn(self.aid.id(&u.uuid)), cn(self.sid.id(&u.session_id)), orel(&u.expiry.map(|e| unodt!(e))), rel(unodt!(u.issued_at))],
            ),
            Body::Api(a) => capp(
                "TApi",
                &[g, cn(self.aid.id(&a.account_id)), cn(self.sid.id(&a.token_id)), orel(&a.expiry.map(|e| unodt!(e))), rel(unodt!(a.issued_at))],
            ),
            Body::ApiC(s) => capp("TApiC", &[g, cn(self.sid.id(s))]),
        }
    }

    /// present token `ti` at time ct: the real answer plus the read-back of the real entry
    fn present(&mut self, ti: usize, ct: u64, opi: usize) {
        let k = self.toks[ti].clone();
        let rt = self.rt;
        let mut r = rt.block_on(self.idms.proxy_read()).expect("proxy_read");
        let cai = ClientAuthInfo::new(Source::Internal, None, Some(k.jws.clone()), None);
        let res = r.validate_client_auth_info_to_ident(cai, d(ct));
        // read-back
        let (owner, sess_id, tok_id): (Option<Uuid>, Option<Uuid>, Option<Uuid>) = match &k.body {
            Body::Uat(u) => (Some(u.uuid), Some(u.session_id), None),
            Body::Api(a) => (Some(a.account_id), None, Some(a.token_id)),
            Body::ApiC(s) => {
                let mut found = None;
                for ac in self.accts.iter() {
                    if let Ok(e) = r.qs_read.internal_search_uuid(ac.uuid) {
                        if e.get_ava_as_apitoken_map(Attribute::ApiTokenSession).map(|m| m.contains_key(s)).unwrap_or(false) {
                            found = Some(ac.uuid);
                            break;
                        }
                    }
                }
                (found, None, Some(*s))
            }
        };
        let entry = owner.and_then(|u| r.qs_read.internal_search_uuid(u).ok());
        let snap = match (&entry, owner) {
            (Some(e), Some(u)) => {
                let vf = e.get_ava_single_datetime(Attribute::AccountValidFrom).map(|t| unodt!(t));
                let ex = e.get_ava_single_datetime(Attribute::AccountExpire).map(|t| unodt!(t));
                let ss = sess_id.and_then(|s| e.get_ava_as_session_map(Attribute::UserAuthTokenSession).and_then(|m| m.get(&s))).map(|s| match &s.state {
                    SessionState::ExpiresAt(t) => format!("(SExpires {})", rel(unodt!(t))),
                    SessionState::NeverExpires => "SNever".to_string(),
                    SessionState::RevokedAt(_) => "SRevoked".to_string(),
                });
                let ap = tok_id.and_then(|s| e.get_ava_as_apitoken_map(Attribute::ApiTokenSession).and_then(|m| m.get(&s))).map(|a| orel(&a.expiry.map(|t| unodt!(t))));
                format!(
                    "(mksnap (Some {}) {} {} {} {})",
                    cn(self.aid.id(&u)),
                    orel(&vf),
                    orel(&ex),
                    copt(&ss, |x| x.clone()),
                    copt(&ap, |x| x.clone())
                )
            }
            _ => "(mksnap None None None None None)".to_string(),
        };
        drop(r);
        let (rc, rtxt, ok) = match &res {
            Ok(id) => {
                let (a, s) = (self.aid.id(&id.get_uuid()), self.sid.id(&id.get_session_id()));
                (format!("(RIdent {} {})", cn(a), cn(s)), format!("Ok(a{},s{})", a, s), true)
            }
            Err(OperationError::NotAuthenticated) => ("RNotAuth".to_string(), "NotAuthenticated".to_string(), false),
            Err(OperationError::SessionExpired) => ("RExpired".to_string(), "SessionExpired".to_string(), false),
            Err(e) => ("ROther".to_string(), format!("{:?}", e), false),
        };
        if ok {
            self.n_accept += 1;
            self.ever_ok.insert(ti);
            if k.label.starts_with("mint") {
                self.n_mint_accept += 1;
            }
        } else {
            self.n_reject += 1;
            if self.ever_ok.contains(&ti) {
                self.later_rejected = true;
            }
        }
        let tc = self.tok_coq(&k);
        self.evs.push(format!("EPresent {} {} {} {}", rel(ct), tc, snap, rc));
        let _ = opi;
        self.log(format!("{}@{}={}", k.label, ct as i64 - BASE as i64, rtxt));
    }

    /// times worth presenting token `ti` at, besides "now"
    fn boundaries(&self, ti: usize) -> Vec<u64> {
        let mut v = vec![];
        let (exp, iat, owner) = match &self.toks[ti].body {
            Body::Uat(u) => (u.expiry.map(|e| unodt!(e)), Some(unodt!(u.issued_at)), Some(u.uuid)),
            Body::Api(a) => (a.expiry.map(|e| unodt!(e)), Some(unodt!(a.issued_at)), Some(a.account_id)),
            Body::ApiC(_) => (None, None, None),
        };
        if let Some(e) = exp {
            v.extend([e - 1, e, e + 1]);
        }
        if let Some(i) = iat {
            v.extend([i + GRACE - 1, i + GRACE, i + GRACE + 1, i]);
        }
        for ac in self.accts.iter() {
            if owner.is_none() || owner == Some(ac.uuid) {
                if let Some(x) = ac.vf {
                    v.extend([x - 1, x]);
                }
                if let Some(x) = ac.ex {
                    v.extend([x, x + 1]);
                }
            }
        }
        v.retain(|t| *t >= BASE);
        v
    }
}

fn history(rt: &tokio::runtime::Runtime, foreign: &IdmServer, rng: &mut Rng, thorough: bool, sink: &mut Sink, hid: usize) {
    let (idms, delayed, _audit) = rt.block_on(setup_idm_test(TestConfiguration::default()));
    let mut w = World {
        rt,
        idms,
        delayed,
        foreign,
        accts: vec![],
        aid: Intern::new(),
        sid: Intern::new(),
        cid: Intern::new(),
        kid: Intern::new(),
        toks: vec![],
        pending: vec![],
        done: vec![],
        evs: vec![],
        txt: format!("hist {}: ", hid),
        ever_ok: Default::default(),
        later_rejected: false,
        n_accept: 0,
        n_reject: 0,
        n_mint_accept: 0,
    };
    let _ = w.drain();
    // account 0 is the built-in anonymous account
    assert_eq!(w.aid.id(&UUID_ANONYMOUS), 0);
    w.evs.push("EOp (OCreate 0%N [])".to_string());
    w.accts.push(Acct { uuid: UUID_ANONYMOUS, name: "anonymous".to_string(), service: false, live: true, has_cred: false, vf: None, ex: None });
    let mut t = T0;
    let n_person = rng.range(1, 2);
    let n_svc = rng.range(1, 2);
    for n in 0..n_person {
        w.create(n, false, t);
    }
    for n in 0..n_svc {
        w.create(10 + n, true, t);
    }
    let steps: Vec<u64> = vec![0, 1, G, 7 * G, 60 * G, GRACE - G, GRACE, GRACE + 1, 3600 * G, 6 * 3600 * G, 20 * 3600 * G];
    let n_ops = if thorough { rng.range(10, 26) } else { rng.range(8, 16) };
    let mut opi = 0usize;
    for _ in 0..n_ops {
        // time moves (mostly forwards; sometimes a transaction runs at an earlier clock reading)
        let dt = *rng.pick(&steps);
        if rng.chance(1, 12) && t > T0 + dt {
            t -= dt;
        } else if t + dt < T0 + 2 * 86_400 * G {
            t += dt;
        }
        let k = rng.below(100);
        let live_persons: Vec<usize> = (0..w.accts.len()).filter(|i| w.accts[*i].live && !w.accts[*i].service && w.accts[*i].uuid != UUID_ANONYMOUS).collect();
        let live_svcs: Vec<usize> = (0..w.accts.len()).filter(|i| w.accts[*i].live && w.accts[*i].service).collect();
        let live_all: Vec<usize> = (0..w.accts.len()).filter(|i| w.accts[*i].live).collect();
        let mut did = true;
        if k < 18 {
            // password login
            did = match live_persons.iter().filter(|i| w.accts[**i].has_cred).collect::<Vec<_>>().as_slice() {
                [] => false,
                xs => {
                    let ai = **rng.pick(xs);
                    let ok = w.login(ai, t);
                    // usually the record is written at once, as the delayed-action task does
                    if ok && rng.chance(3, 5) {
                        if let Some(asr) = w.pending.pop() {
                            w.record(asr, t, 0);
                        }
                    }
                    ok
                }
            };
            sink.bump("op_login");
        } else if k < 23 {
            did = w.login(0, t);
            sink.bump("op_login_anonymous");
        } else if k < 35 {
            // a held-back (or repeated) session record
            if !w.pending.is_empty() {
                let i = rng.below(w.pending.len() as u64) as usize;
                let asr = w.pending.remove(i);
                let alter = if rng.chance(1, 4) { rng.range(1, 2) } else { 0 };
                w.record(asr, t, alter);
                sink.bump(if alter > 0 { "op_record_altered" } else { "op_record_late" });
            } else if let Some((target, session, cred)) = if w.done.is_empty() { None } else { Some(*rng.pick(&w.done)) } {
                // the same session id written again (with another expiry): must not change anything
                let asr = AuthSessionRecord {
                    target_uuid: target,
                    session_id: session,
                    cred_id: cred,
                    label: "again".to_string(),
                    expiry: Some(odt!(t + 3600 * G)),
                    issued_at: odt!(t),
                    issued_by: IdentityId::User(target),
                    scope: SessionScope::ReadOnly,
                    type_: kanidmd_lib::value::AuthType::Password,
                    ext_metadata: Default::default(),
                };
                w.record(asr, t, 0);
                sink.bump("op_record_again");
            } else {
                did = false;
            }
        } else if k < 45 {
            // logout of a session some token names (recorded or not)
            let cands: Vec<(Uuid, Uuid)> = w.toks.iter().filter_map(|k| if let Body::Uat(u) = &k.body { Some((u.uuid, u.session_id)) } else { None }).collect();
            if cands.is_empty() {
                did = false;
            } else {
                let (a, s) = *rng.pick(&cands);
                w.revoke(a, s, t);
                sink.bump("op_logout");
            }
        } else if k < 52 {
            if live_persons.is_empty() {
                did = false;
            } else {
                let ai = *rng.pick(&live_persons);
                w.set_creds(ai, rng.chance(1, 2), t);
                sink.bump("op_credential_change");
            }
        } else if k < 62 {
            let ai = *rng.pick(&live_all);
            let near: Vec<i64> = vec![-3600, -1, 0, 1, 60, 3600, 30 * 3600];
            let vf = if rng.chance(1, 3) { Some((t / G * G).wrapping_add_signed(*rng.pick(&near) * G as i64)) } else { None };
            let ex = if rng.chance(1, 2) { Some((t / G * G).wrapping_add_signed(*rng.pick(&near) * G as i64)) } else { None };
            w.window(ai, vf, ex, t);
            sink.bump("op_window");
        } else if k < 72 {
            if live_svcs.is_empty() {
                did = false;
            } else {
                let ai = *rng.pick(&live_svcs);
                let exp = if rng.chance(1, 2) { Some(t / G * G + *rng.pick(&[1u64, 60, 3600, 40 * 3600]) * G) } else { None };
                w.api_issue(ai, exp, rng.chance(1, 2), t);
                sink.bump("op_api_issue");
            }
        } else if k < 78 {
            let cands: Vec<(Option<Uuid>, Uuid)> = w
                .toks
                .iter()
                .filter_map(|k| match &k.body {
                    Body::Api(a) => Some((Some(a.account_id), a.token_id)),
                    Body::ApiC(s) => Some((None, *s)),
                    _ => None,
                })
                .collect();
            if cands.is_empty() || live_svcs.is_empty() {
                did = false;
            } else {
                let (a, s) = *rng.pick(&cands);
                let a = a.unwrap_or(w.accts[*rng.pick(&live_svcs)].uuid);
                w.api_destroy(a, s, t);
                sink.bump("op_api_destroy");
            }
        } else if k < 81 {
            let c: Vec<usize> = live_all.iter().copied().filter(|i| w.accts[*i].uuid != UUID_ANONYMOUS).collect();
            if c.is_empty() {
                did = false;
            } else {
                w.delete(*rng.pick(&c), t);
                sink.bump("op_delete");
            }
        } else if k < 85 {
            let kids: Vec<String> = w.toks.iter().filter(|k| !k.foreign).filter_map(|k| kid_of(&k.jws)).collect();
            if kids.is_empty() {
                did = false;
            } else {
                let kid = rng.pick(&kids).clone();
                if w.evs.iter().any(|e| *e == format!("EOp (OKeyRevoke {})", cn(w.kid.id(&kid)))) {
                    did = false; // already revoked
                } else {
                    w.key_revoke(&kid, t);
                    sink.bump("op_key_revoke");
                }
            }
        } else {
            // mint a variant of an existing token body
            let own: Vec<usize> = (0..w.toks.len()).collect();
            if own.is_empty() {
                did = false;
            } else {
                let src = w.toks[*rng.pick(&own)].clone();
                let v = rng.below(8);
                let other_acct = w.accts[rng.below(w.accts.len() as u64) as usize].uuid;
                let ghost = Uuid::from_u128(0xdead_0000_0000_0000_0000_0000_0000_0000u128 + rng.below(1000) as u128);
                let fresh = Uuid::from_u128(0xf00d_0000_0000_0000_0000_0000_0000_0000u128 + rng.next() as u128);
                let (body, what) = match (src.body.clone(), v) {
                    (Body::Uat(mut u), 0) => {
                        u.expiry = None;
                        (Body::Uat(u), "uat-noexpiry")
                    }
                    (Body::Uat(mut u), 1) => {
                        u.expiry = u.expiry.map(|e| odt!(unodt!(e) + G));
                        (Body::Uat(u), "uat-expiry+1s")
                    }
                    (Body::Uat(mut u), 2) => {
                        u.session_id = fresh;
                        u.issued_at = odt!(t / G * G);
                        (Body::Uat(u), "uat-unrecorded-fresh")
                    }
                    (Body::Uat(mut u), 3) => {
                        u.session_id = fresh;
                        (Body::Uat(u), "uat-unrecorded")
                    }
                    (Body::Uat(mut u), 4) => {
                        u.uuid = other_acct;
                        (Body::Uat(u), "uat-other-account")
                    }
                    (Body::Uat(mut u), 5) => {
                        u.uuid = ghost;
                        (Body::Uat(u), "uat-ghost-account")
                    }
                    (Body::Uat(u), _) => (Body::Uat(u), "uat-same"),
                    (Body::Api(mut a), 0) => {
                        a.expiry = None;
                        (Body::Api(a), "api-noexpiry")
                    }
                    (Body::Api(mut a), 1) => {
                        a.token_id = fresh;
                        a.issued_at = odt!(t / G * G);
                        (Body::Api(a), "api-unrecorded-fresh")
                    }
                    (Body::Api(mut a), 2) => {
                        a.token_id = fresh;
                        (Body::Api(a), "api-unrecorded")
                    }
                    (Body::Api(mut a), 3) => {
                        a.account_id = other_acct;
                        (Body::Api(a), "api-other-account")
                    }
                    (Body::Api(mut a), 4) => {
                        a.account_id = ghost;
                        (Body::Api(a), "api-ghost-account")
                    }
                    (Body::Api(a), _) => (Body::Api(a), "api-same"),
                    (Body::ApiC(_), 0) => (Body::ApiC(fresh), "apic-unknown"),
                    (Body::ApiC(s), _) => (Body::ApiC(s), "apic-same"),
                };
                let m = rng.below(10);
                w.mint(body, m == 0 || m == 1, m == 2, t, what);
                sink.bump("op_mint");
            }
        }
        if !did {
            continue;
        }
        opi += 1;
        // present the pool: every token now, and at one or two of its boundary times
        let mut idx: Vec<usize> = (0..w.toks.len()).collect();
        if idx.len() > 9 {
            rng.shuffle(&mut idx);
            idx.truncate(9);
            idx.sort();
        }
        for ti in idx {
            w.present(ti, t, opi);
            let b = w.boundaries(ti);
            let extra = if thorough { 2 } else { 1 };
            for _ in 0..extra {
                let ct = if b.is_empty() || rng.chance(1, 5) { T0 - 3600 * G + rng.below(3 * 86_400) * G + rng.below(2) } else { *rng.pick(&b) };
                w.present(ti, ct, opi);
            }
        }
    }
    sink.add_stat("presentations_accepted", w.n_accept);
    sink.add_stat("presentations_rejected", w.n_reject);
    sink.add_stat("minted_presentations_accepted", w.n_mint_accept);
    let nontrivial = w.n_accept > 0 && w.later_rejected;
    let coq = format!("CHist {}", clist_s(&w.evs));
    sink.case(format!("({})", coq), w.txt.clone(), nontrivial);
}

fn main() {
    std::env::set_var("RUST_LOG", "off");
    let args = parse_args();
    let mut rng = Rng::new(args.seed);
    let mut sink = Sink::new(&args, "KV.C32.Model", 4);
    sink.rule = "one case = one random history (8-16 operations quick / 10-26 thorough) on a fresh real in-memory IdmServer: password and anonymous logins through `auth` (the AuthSessionRecord written at once, late, never, altered or twice), API token issue (JSON / compact) and destroy, logout, credential purge / replacement, validity window edits, account deletion, domain key revocation, and minted token bodies (no expiry, shifted expiry, unknown session, other / missing account; real key, foreign key, damaged signature); transaction times move over two days and sometimes backwards; after every operation up to 9 tokens of the pool are presented to validate_client_auth_info_to_ident at the current time and at boundary times (expiry-1/0/+1 ns, issue+grace-1/0/+1 ns, window edges) with a read-back of the real entry. \
non-trivial = the history contains an accepted presentation AND a token that was accepted earlier is rejected later".into();
    let rt = tokio::runtime::Builder::new_current_thread().enable_all().build().expect("rt");
    let (foreign, _fd, _fa) = rt.block_on(setup_idm_test(TestConfiguration::default()));
    let n_hist = if args.thorough { 450 } else { 44 };
    for hid in 0..n_hist {
        history(&rt, &foreign, &mut rng, args.thorough, &mut sink, hid);
    }
    sink.finish();
}
