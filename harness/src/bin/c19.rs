//! C19 — unique values stay unique (uuid, name/spn, gidnumber), locally and under replication.
//!
//! Drives 1-3 REAL in-memory QueryServers (one domain: replicas 1,2 are refreshed from replica 0)
//! through random histories of creates (single and batch), renames / gidnumber changes selected
//! by a uuid filter (so one request can hit several entries), deletes and incremental
//! replication in random directions, all drawn from a tiny pool of uuids, names and gid numbers
//! so that clashes are the common case.  Transaction times are chosen by the harness (strictly
//! increasing, sometimes equal on two replicas so that the server-id tie-break is used).
//! After every transaction the touched replica is read back in a fresh read transaction:
//! every tracked entry with creation id, name, gidnumber, life-cycle class and the per-attribute
//! change ids, plus a generic dump "(uuid, [(unique attribute, value)])" of the live entries
//! taken from the attributes the REAL schema marks unique.  Each history ends with three full
//! rounds of replication; then the whole database of every replica is dumped generically and
//! the tracked entries of all replicas are compared.
//! The Coq model (KV.C19.Model) replays the op list (`agree`); `pcheck` tests the property on
//! the implementation's own dumps.
use kanidm_proto::internal::FsType;
use kanidmd_lib::be::{Backend, BackendConfig};
use kanidmd_lib::entry::{Entry, EntryInit, EntryNew, EntrySealed, EntryCommitted};
use kanidmd_lib::prelude::*;
use kanidmd_lib::schema::{Schema, SchemaTransaction};
use kanidmd_lib::verif_hooks::c12::{entry_parts, HookState};
use kanidmd_lib::{filter, filter_all};
use kvh::*;
use std::collections::BTreeMap;

const T0: u64 = 1_700_000_000;
const NU: usize = 6; // uuid pool
const NN: usize = 4; // name pool
const NG: usize = 3; // gid pool
const UBASE: u128 = 0x00c1_9000_aaaa_4000_8000_0000_0000_0000;

fn open_server(ct: Duration) -> QueryServer {
    let schema_outer = Schema::new().expect("schema");
    let idxmeta = {
        let schema_txn = schema_outer.write();
        schema_txn.reload_idxmeta()
    };
    let cfg = BackendConfig::new(None, 1, FsType::Generic, Some(2048));
    let be = Backend::new(cfg, idxmeta, false).expect("be");
    QueryServer::new(be, schema_outer, "example.com".to_string(), ct).expect("qs")
}

#[derive(Clone, Debug)]
enum Op {
    Create(usize, Vec<(usize, usize, Option<usize>)>), // replica, [(uuid idx, name idx, gid idx)]
    Mod(usize, Vec<usize>, u64, usize),                 // replica, uuid idxs, field (0 name, 1 gid), value idx
    Delete(usize, Vec<usize>),
    Repl(usize, usize), // to, from
}

#[derive(Clone, Debug, PartialEq, Eq, PartialOrd, Ord)]
struct MEnt {
    uuid: u64,
    at: (u64, u64),
    name: u64,
    name_c: (u64, u64),
    spn: u64,
    spn_c: (u64, u64),
    gid: Option<u64>,
    gid_c: (u64, u64),
    cls: u64,
    cls_c: (u64, u64),
    src: bool,
}

type Gent = (u64, Vec<(u64, u64)>);

struct Hist {
    h: u64,
    tbase: u64,
    sids: Vec<Uuid>,
    known: BTreeMap<Uuid, u64>, // conflict copies (random uuids) -> id
    attrs: Intern<String>,
    vals: Intern<String>,
    others: Intern<Uuid>,
    copies_seen: u64,
    copies_stripped: u64,
    stale_spn: u64,
}

impl Hist {
    fn uuid_of(&self, i: usize) -> Uuid {
        Uuid::from_u128(UBASE + ((self.h as u128) << 16) + i as u128 + 1)
    }
    fn name_of(&self, i: usize) -> String {
        format!("c19h{}n{}", self.h, i + 1)
    }
    fn gid_of(&self, i: usize) -> u32 {
        (100_000 + self.h * 8 + i as u64 + 1) as u32
    }
    fn pool_id(&self, u: &Uuid) -> Option<u64> {
        (0..NU).find(|i| self.uuid_of(*i) == *u).map(|i| i as u64 + 1)
    }
    fn name_id(&self, s: &str) -> Option<u64> {
        (0..NN).find(|i| self.name_of(*i) == s).map(|i| i as u64 + 1)
    }
    fn gid_id(&self, g: u64) -> Option<u64> {
        (0..NG).find(|i| self.gid_of(*i) as u64 == g).map(|i| i as u64 + 1)
    }
    fn cid(&self, c: &Cid) -> (u64, u64) {
        assert!(c.ts.subsec_nanos() == 0, "unexpected lamport bump: {:?}", c);
        let s = c.ts.as_secs();
        assert!(s > self.tbase, "change id before the history: {:?}", c);
        let sid = self.sids.iter().position(|x| *x == c.s_uuid).expect("unknown server id") as u64;
        (s - self.tbase, sid)
    }
    /// encode one (unique attribute, value) of the real entry
    fn enc(&mut self, attr: &Attribute, v: &str) -> (u64, u64) {
        if *attr == Attribute::Name {
            if let Some(i) = self.name_id(v) {
                return (0, i);
            }
        }
        if *attr == Attribute::Spn {
            if let Some(n) = v.strip_suffix("@example.com") {
                if let Some(i) = self.name_id(n) {
                    return (1, i);
                }
            }
        }
        if *attr == Attribute::GidNumber {
            if let Some(i) = v.parse::<u64>().ok().and_then(|g| self.gid_id(g)) {
                return (2, i);
            }
        }
        let a = self.attrs.id(&attr.to_string()) + 10;
        let x = self.vals.id(&format!("{}={}", attr, v)) + 1000;
        (a, x)
    }
}

fn classes_of(e: &Entry<EntrySealed, EntryCommitted>) -> Vec<String> {
    e.get_ava_set(Attribute::Class).map(|vs| vs.to_proto_string_clone_iter().collect()).unwrap_or_default()
}

fn gen_of(hist: &mut Hist, uniq: &[Attribute], id: u64, e: &Entry<EntrySealed, EntryCommitted>) -> Gent {
    let mut vals = vec![];
    for a in uniq {
        if let Some(vs) = e.get_ava_set(a) {
            for s in vs.to_proto_string_clone_iter() {
                vals.push(hist.enc(a, &s));
            }
        }
    }
    vals.sort();
    (id, vals)
}

/// tracked entries of one replica (all life-cycle states) + generic dump of the live tracked ones;
/// `base`: id base for conflict copies first seen now (only legal in a replication step)
async fn snapshot(qs: &QueryServer, hist: &mut Hist, base: Option<u64>, prev: &[MEnt]) -> (Vec<MEnt>, Vec<Gent>) {
    let mut r = qs.read().await.expect("read");
    let all = r.internal_search(filter_all!(f_pres(Attribute::Class))).expect("search all");
    let uniq: Vec<Attribute> = r.get_schema().get_attributes_unique().clone();
    let mut ents = vec![];
    let mut gens = vec![];
    // creation ids of the tracked pool entries as they are now
    let mut now_at: BTreeMap<u64, (u64, u64)> = BTreeMap::new();
    for e in all.iter() {
        if let Some(i) = hist.pool_id(&e.get_uuid()) {
            if let HookState::Live { at, .. } = &entry_parts(e.as_ref()).state {
                now_at.insert(i, hist.cid(at));
            }
        }
    }
    for e in all.iter() {
        let u = e.get_uuid();
        let id = if let Some(i) = hist.pool_id(&u) {
            i
        } else if let Some(i) = hist.known.get(&u) {
            *i
        } else {
            // a conflict copy made by resolve_add_conflict: random uuid, source_uuid = the original
            let src: Vec<u64> = e
                .get_ava_set(Attribute::SourceUuid)
                .and_then(|vs| vs.as_uuid_set())
                .map(|s| s.iter().filter_map(|x| hist.pool_id(x)).collect())
                .unwrap_or_default();
            if src.is_empty() {
                continue; // not ours (built-in or another history)
            }
            let b = base.expect("conflict copy appeared outside a replication step");
            // The copy carries source_uuid = the loser's uuid, possibly next to source uuids from an earlier
            // attribute conflict: the loser is the tracked entry that this transaction replaced on this replica
            // (its creation id differs from the one in the previous snapshot).  Since /repo 41afc51 the copy is
            // created at the transaction's own change id, so its `at` no longer identifies the loser.
            let pick = src
                .iter()
                .copied()
                .find(|c| {
                    let replaced = prev.iter().any(|p| p.uuid == *c && now_at.get(c).map(|a| *a != p.at).unwrap_or(false));
                    replaced && !hist.known.values().any(|k| *k == b + *c)
                })
                .unwrap_or_else(|| panic!("cannot attribute conflict copy {:?} sources {:?}", e, src));
            let id = b + pick;
            hist.known.insert(u, id);
            id
        };
        let parts = entry_parts(e.as_ref());
        let (at, changes) = match &parts.state {
            HookState::Live { at, changes } => (at.clone(), changes.clone()),
            HookState::Tombstone { .. } => panic!("tracked entry became a tombstone"),
        };
        let cof = |a: Attribute| changes.iter().find(|(x, _)| *x == a).map(|(_, c)| c.clone());
        let cl = classes_of(e.as_ref());
        let cls = if cl.iter().any(|c| c == "conflict") {
            2
        } else if cl.iter().any(|c| c == "recycled") {
            1
        } else {
            0
        };
        if id >= 1000 {
            // conflict copy: only identity, creation id and life-cycle class are tracked (see Model.v cnf_copy)
            hist.copies_seen += 1;
            if e.get_ava_set(Attribute::Name).is_none() {
                hist.copies_stripped += 1;
            }
            ents.push(MEnt {
                uuid: id,
                at: hist.cid(&at),
                name: 0,
                name_c: (0, 0),
                spn: 0,
                spn_c: (0, 0),
                gid: None,
                gid_c: (0, 0),
                cls,
                cls_c: hist.cid(&cof(Attribute::Class).expect("class cid")),
                src: true,
            });
            continue;
        }
        let name = e
            .get_ava_set(Attribute::Name)
            .and_then(|vs| vs.to_proto_string_single())
            .and_then(|s| hist.name_id(&s))
            .unwrap_or_else(|| panic!("tracked entry without a pool name: {:?}", e));
        // the name the stored spn was generated from (it is a replicated attribute of its own)
        let spn = e
            .get_ava_set(Attribute::Spn)
            .and_then(|vs| vs.to_proto_string_single())
            .and_then(|s| s.strip_suffix("@example.com").and_then(|n| hist.name_id(n)))
            .unwrap_or_else(|| panic!("tracked entry without a pool spn: {:?}", e));
        if spn != name {
            hist.stale_spn += 1;
        }
        let gid = e.get_ava_set(Attribute::GidNumber).and_then(|vs| vs.to_proto_string_single()).map(|s| {
            let g: u64 = s.parse().expect("gid");
            hist.gid_id(g).unwrap_or(900_000 + g)
        });
        let me = MEnt {
            uuid: id,
            at: hist.cid(&at),
            name,
            name_c: hist.cid(&cof(Attribute::Name).expect("name cid")),
            spn,
            spn_c: hist.cid(&cof(Attribute::Spn).expect("spn cid")),
            gid,
            gid_c: cof(Attribute::GidNumber).map(|c| hist.cid(&c)).unwrap_or((0, 0)),
            cls,
            cls_c: hist.cid(&cof(Attribute::Class).expect("class cid")),
            src: e.get_ava_set(Attribute::SourceUuid).is_some(),
        };
        if cls == 0 {
            gens.push(gen_of(hist, &uniq, id, e.as_ref()));
        }
        ents.push(me);
    }
    ents.sort();
    gens.sort();
    (ents, gens)
}

/// every live entry of the database (what a normal search sees), generically
async fn full_dump(qs: &QueryServer, hist: &mut Hist) -> Vec<Gent> {
    let mut r = qs.read().await.expect("read");
    let all = r.internal_search(filter!(f_pres(Attribute::Class))).expect("search live");
    let uniq: Vec<Attribute> = r.get_schema().get_attributes_unique().clone();
    let mut gens = vec![];
    for e in all.iter() {
        let u = e.get_uuid();
        let id = match hist.pool_id(&u).or_else(|| hist.known.get(&u).copied()) {
            Some(i) => i,
            None => 100_000 + hist.others.id(&u),
        };
        gens.push(gen_of(hist, &uniq, id, e.as_ref()));
    }
    gens.sort();
    gens
}

fn c_cid(c: (u64, u64)) -> String {
    format!("({}, {})", cn(c.0), cn(c.1))
}
fn c_ent(e: &MEnt) -> String {
    capp(
        "mkE",
        &[cn(e.uuid), c_cid(e.at), cn(e.name), c_cid(e.name_c), cn(e.spn), c_cid(e.spn_c), copt(&e.gid, |g| cn(*g)), c_cid(e.gid_c), cn(e.cls), c_cid(e.cls_c), cbool(e.src)],
    )
}
fn c_gent(g: &Gent) -> String {
    format!("({}, {})", cn(g.0), clist(&g.1, |p| format!("({}, {})", cn(p.0), cn(p.1))))
}
fn t_ent(e: &MEnt) -> String {
    format!(
        "{}:{}{}{}{}@{}.{}",
        e.uuid,
        e.name,
        if e.spn != e.name { format!("(spn{})", e.spn) } else { String::new() },
        e.gid.map(|g| format!("/g{}", g)).unwrap_or_default(),
        match e.cls { 0 => "", 1 => "(rec)", _ => "(CNF)" },
        e.at.0,
        e.at.1
    )
}

async fn repl_incremental(from: &QueryServer, to: &QueryServer, t: Duration) -> Result<(), String> {
    let mut w = to.write(t).await.expect("write");
    let mut r = from.read().await.expect("read");
    let range = w.consumer_get_state().map_err(|e| format!("get_state {:?}", e))?;
    let changes = r.supplier_provide_changes(range).map_err(|e| format!("provide {:?}", e))?;
    let st = w.consumer_apply_changes(changes).map_err(|e| format!("apply {:?}", e))?;
    if !matches!(st, kanidmd_lib::repl::proto::ConsumerState::Ok) {
        return Err("consumer state: refresh required".to_string());
    }
    drop(r);
    w.commit().map_err(|e| format!("commit {:?}", e))
}

fn code_of(r: &Result<(), OperationError>) -> u64 {
    match r {
        Ok(()) => 0,
        Err(OperationError::Plugin(PluginError::Base(_))) => 1,
        Err(OperationError::AttributeUniqueness(_)) => 2,
        Err(OperationError::NoMatchingEntries) => 3,
        Err(_) => 4,
    }
}

struct Group {
    srv: Vec<QueryServer>,
    sids: Vec<Uuid>,
    t: u64, // seconds since epoch of the last transaction
}

async fn new_group() -> Group {
    let ct = Duration::from_secs(T0);
    let mut raw = vec![];
    for _ in 0..3 {
        let qs = open_server(ct);
        qs.initialise_helper(ct, DOMAIN_TGT_LEVEL).await.expect("init");
        raw.push(qs);
    }
    let mut t = T0 + 10;
    // one domain: servers 1,2 are refreshed from server 0 (this also resets their server uuid)
    for i in 1..3 {
        t += 1;
        let mut w = raw[i].write(Duration::from_secs(t)).await.expect("write");
        let mut r = raw[0].read().await.expect("read");
        let ctx = r.supplier_provide_refresh().expect("refresh ctx");
        w.consumer_apply_refresh(ctx).expect("refresh");
        drop(r);
        w.commit().expect("commit");
    }
    let mut v = vec![];
    for qs in raw.into_iter() {
        t += 1;
        let w = qs.write(Duration::from_secs(t)).await.expect("write");
        let sid = w.verif_cid().s_uuid;
        drop(w);
        v.push((sid, qs));
    }
    // replica index = rank of the server uuid (the Cid tie-break)
    v.sort_by_key(|(s, _)| *s);
    let sids: Vec<Uuid> = v.iter().map(|(s, _)| *s).collect();
    let srv: Vec<QueryServer> = v.into_iter().map(|(_, q)| q).collect();
    Group { srv, sids, t }
}

/// a uuid index: mostly one that is live on this replica (so that the request does something), sometimes any
fn pick_uuid(rng: &mut Rng, snap: &[MEnt], want_live: bool, need_gid: bool) -> usize {
    let live: Vec<usize> = snap.iter().filter(|e| e.cls == 0 && e.uuid < 1000 && (!need_gid || e.gid.is_some())).map(|e| e.uuid as usize - 1).collect();
    if want_live && !live.is_empty() && rng.chance(4, 5) {
        *rng.pick(&live)
    } else {
        rng.below(NU as u64) as usize
    }
}

fn gen_op(rng: &mut Rng, nrep: usize, snaps: &[Vec<MEnt>]) -> Op {
    let r = rng.below(nrep as u64) as usize;
    let k = rng.below(100);
    let repl_share = if nrep > 1 { 24 } else { 0 };
    if k < repl_share {
        let to = r;
        let mut from = rng.below(nrep as u64) as usize;
        if from == to {
            from = (to + 1) % nrep;
        }
        Op::Repl(to, from)
    } else if k < repl_share + 32 {
        let n = if rng.chance(1, 4) { 2 } else { 1 };
        let mut v = vec![];
        for _ in 0..n {
            let g = if rng.chance(1, 2) { Some(rng.below(NG as u64) as usize) } else { None };
            v.push((rng.below(NU as u64) as usize, rng.below(NN as u64) as usize, g));
        }
        Op::Create(r, v)
    } else if k < repl_share + 32 + 24 {
        let mut us = vec![pick_uuid(rng, &snaps[r], true, false)];
        if rng.chance(1, 4) {
            us.push(pick_uuid(rng, &snaps[r], true, false));
        }
        Op::Mod(r, us, 0, rng.below(NN as u64) as usize)
    } else if k < repl_share + 32 + 24 + 12 {
        let mut us = vec![pick_uuid(rng, &snaps[r], true, true)];
        if rng.chance(1, 5) {
            us.push(pick_uuid(rng, &snaps[r], true, true));
        }
        Op::Mod(r, us, 1, rng.below(NG as u64) as usize)
    } else {
        Op::Delete(r, vec![pick_uuid(rng, &snaps[r], true, false)])
    }
}

fn uuid_filter(hist: &Hist, us: &[usize]) -> Filter<FilterInvalid> {
    filter!(f_or(us.iter().map(|i| f_eq(Attribute::Uuid, PartialValue::Uuid(hist.uuid_of(*i)))).collect()))
}

async fn run_history(g: &mut Group, h: u64, nrep: usize, n_rand: usize, rng: &mut Rng, sink: &mut Sink) {
    // quiescence: three full rounds of pulls
    let mut ops: Vec<Option<Op>> = vec![None; n_rand];
    if nrep > 1 {
        for _ in 0..3 {
            for to in 0..nrep {
                for from in 0..nrep {
                    if to != from {
                        ops.push(Some(Op::Repl(to, from)));
                    }
                }
            }
        }
    }
    g.t += 2;
    let mut hist = Hist {
        h,
        tbase: g.t,
        sids: g.sids.clone(),
        known: BTreeMap::new(),
        attrs: Intern::new(),
        vals: Intern::new(),
        others: Intern::new(),
        copies_seen: 0,
        copies_stripped: 0,
        stale_spn: 0,
    };
    let mut last_w: Vec<u64> = vec![g.t; 3];
    let mut steps: Vec<String> = vec![];
    let mut txt = format!("hist#{} nrep={}:", h, nrep);
    let (mut n_rej_uniq, mut n_rej_base, mut n_attr_cnf, mut n_uuid_cnf, mut n_repl, mut n_ok) = (0u64, 0u64, 0u64, 0u64, 0u64, 0u64);
    let mut prev_cnf: Vec<std::collections::BTreeSet<u64>> = vec![Default::default(); 3];
    let mut prev_snap: Vec<Vec<MEnt>> = vec![vec![]; 3];
    for (k, op) in ops.iter().enumerate() {
        let op = &match op {
            Some(o) => o.clone(),
            None => gen_op(rng, nrep, &prev_snap),
        };
        let rep = match op {
            Op::Create(r, _) | Op::Mod(r, _, _, _) | Op::Delete(r, _) => *r,
            Op::Repl(to, _) => *to,
        };
        // time: normally advance; a local op may reuse the current second when this replica has not written in it
        let local = !matches!(op, Op::Repl(_, _));
        if !(local && last_w[rep] < g.t && k < n_rand && rng.chance(1, 5)) {
            g.t += 1;
        }
        last_w[rep] = g.t;
        let ct = Duration::from_secs(g.t);
        let rt = g.t - hist.tbase;
        let base = 1000 * (k as u64 + 1);
        let (cop, code, label) = match op {
            Op::Create(r, v) => {
                let mut w = g.srv[*r].write(ct).await.expect("write");
                let ents: Vec<Entry<EntryInit, EntryNew>> = v
                    .iter()
                    .map(|(u, n, gi)| {
                        let mut e: Entry<EntryInit, EntryNew> = kanidmd_lib::entry_init!(
                            (Attribute::Class, EntryClass::Object.to_value()),
                            (Attribute::Class, EntryClass::Group.to_value()),
                            (Attribute::Name, Value::new_iname(&hist.name_of(*n))),
                            (Attribute::Uuid, Value::Uuid(hist.uuid_of(*u)))
                        );
                        if let Some(gi) = gi {
                            e.add_ava(Attribute::Class, EntryClass::PosixGroup.to_value());
                            e.add_ava(Attribute::GidNumber, Value::Uint32(hist.gid_of(*gi)));
                        }
                        e
                    })
                    .collect();
                let res = w.internal_create(ents);
                let res = match res {
                    Ok(()) => w.commit(),
                    Err(e) => {
                        drop(w);
                        Err(e)
                    }
                };
                let cv: Vec<String> = v
                    .iter()
                    .map(|(u, n, gi)| format!("({}, {}, {})", cn(*u as u64 + 1), cn(*n as u64 + 1), copt(gi, |x| cn(*x as u64 + 1))))
                    .collect();
                (
                    capp("OCreate", &[cn(*r as u64), cn(rt), clist_s(&cv)]),
                    code_of(&res),
                    format!("create@{} t{} {:?} => {:?}", r, rt, v.iter().map(|(u, n, gi)| (u + 1, n + 1, gi.map(|x| x + 1))).collect::<Vec<_>>(), res),
                )
            }
            Op::Mod(r, us, fld, vi) => {
                let mut w = g.srv[*r].write(ct).await.expect("write");
                let ml = if *fld == 0 {
                    ModifyList::new_purge_and_set(Attribute::Name, Value::new_iname(&hist.name_of(*vi)))
                } else {
                    ModifyList::new_purge_and_set(Attribute::GidNumber, Value::Uint32(hist.gid_of(*vi)))
                };
                let res = w.internal_modify(&uuid_filter(&hist, us), &ml);
                let res = match res {
                    Ok(()) => w.commit(),
                    Err(e) => {
                        drop(w);
                        Err(e)
                    }
                };
                (
                    capp("OMod", &[cn(*r as u64), cn(rt), clist(us, |u| cn(*u as u64 + 1)), cn(*fld), cn(*vi as u64 + 1)]),
                    code_of(&res),
                    format!("set {}@{} t{} {:?}:={} => {:?}", if *fld == 0 { "name" } else { "gid" }, r, rt, us.iter().map(|u| u + 1).collect::<Vec<_>>(), vi + 1, res),
                )
            }
            Op::Delete(r, us) => {
                let mut w = g.srv[*r].write(ct).await.expect("write");
                let res = w.internal_delete(&uuid_filter(&hist, us));
                let res = match res {
                    Ok(()) => w.commit(),
                    Err(e) => {
                        drop(w);
                        Err(e)
                    }
                };
                (
                    capp("ODelete", &[cn(*r as u64), cn(rt), clist(us, |u| cn(*u as u64 + 1))]),
                    code_of(&res),
                    format!("delete@{} t{} {:?} => {:?}", r, rt, us.iter().map(|u| u + 1).collect::<Vec<_>>(), res),
                )
            }
            Op::Repl(to, from) => {
                let res = repl_incremental(&g.srv[*from], &g.srv[*to], ct).await;
                if k < n_rand {
                    n_repl += 1;
                }
                (
                    capp("ORepl", &[cn(*to as u64), cn(*from as u64), cn(rt), cn(base)]),
                    if res.is_ok() { 0 } else { 4 },
                    format!("repl {}<-{} t{} => {:?}", to, from, rt, res),
                )
            }
        };
        if std::env::var("C19_DEBUG").is_ok() {
            eprintln!("h{} k{} {}", h, k, label);
        }
        let (snap, gens) = snapshot(&g.srv[rep], &mut hist, if local { None } else { Some(base) }, &prev_snap[rep]).await;
        match code {
            0 => n_ok += 1,
            1 => n_rej_base += 1,
            2 => n_rej_uniq += 1,
            _ => {}
        }
        sink.bump(&format!("op_{}_{}", match op { Op::Create(..) => "create", Op::Mod(..) => "mod", Op::Delete(..) => "delete", Op::Repl(..) => "repl" }, code));
        // newly conflicted entries on this replica
        let now_cnf: std::collections::BTreeSet<u64> = snap.iter().filter(|e| e.cls == 2).map(|e| e.uuid).collect();
        for u in now_cnf.difference(&prev_cnf[rep]) {
            if *u >= 1000 { n_uuid_cnf += 1 } else { n_attr_cnf += 1 }
        }
        prev_cnf[rep] = now_cnf;
        prev_snap[rep] = snap.clone();
        let _ = std::fmt::Write::write_fmt(&mut txt, format_args!(" [{} | {}]", label, snap.iter().map(t_ent).collect::<Vec<_>>().join(" ")));
        steps.push(capp("Obs", &[cop, cn(code), clist(&snap, c_ent), clist(&gens, c_gent)]));
    }
    // end of history: full generic dumps and tracked entries of every participating replica
    let mut fulls = vec![];
    let mut finals = vec![];
    for r in 0..nrep {
        let f = full_dump(&g.srv[r], &mut hist).await;
        sink.add_stat("full_dump_entries", f.len() as u64);
        fulls.push(clist(&f, c_gent));
        let (snap, _) = snapshot(&g.srv[r], &mut hist, None, &[]).await;
        let _ = std::fmt::Write::write_fmt(&mut txt, format_args!(" final{}={{{}}}", r, snap.iter().map(t_ent).collect::<Vec<_>>().join(" ")));
        finals.push(clist(&snap, c_ent));
    }
    sink.add_stat("conflict_copy_sightings", hist.copies_seen);
    sink.add_stat("conflict_copy_sightings_without_name", hist.copies_stripped);
    sink.add_stat("entry_sightings_with_spn_not_from_name", hist.stale_spn);
    sink.add_stat("attr_conflicts", n_attr_cnf);
    sink.add_stat("uuid_conflict_copies", n_uuid_cnf);
    let nontrivial = if nrep == 1 { n_rej_uniq + n_rej_base > 0 && n_ok > 1 } else { n_repl > 0 && (n_attr_cnf + n_uuid_cnf > 0) && n_rej_uniq + n_rej_base > 0 };
    sink.case(capp("CHist", &[cn(nrep as u64), clist_s(&steps), clist_s(&fulls), clist_s(&finals)]), txt, nontrivial);
    // housekeeping (outside the case): bring all three servers to the same content for the next history
    for _ in 0..2 {
        for to in 0..3 {
            for from in 0..3 {
                if to != from {
                    g.t += 1;
                    repl_incremental(&g.srv[from], &g.srv[to], Duration::from_secs(g.t)).await.expect("housekeeping replication");
                }
            }
        }
    }
}


fn main() {
    let args = parse_args();

    let mut rng = Rng::new(args.seed);
    let mut sink = Sink::new(&args, "KV.C19.Model", 4);
    sink.rule = "random histories on 1-3 real in-memory QueryServers of one domain: creates (1-2 entries per request), renames and \
gidnumber changes through a uuid filter (1-2 targets), deletes, incremental replication in random directions; uuids from a pool of 6, names \
of 4, gid numbers of 3; harness-chosen transaction times, sometimes equal on two replicas; every history ends with three full replication \
rounds. non-trivial = (1 replica) at least one request refused for a duplicate and two accepted; (2-3 replicas) at least one replication \
before quiescence, at least one entry moved to the conflict state (attribute clash or uuid clash) and at least one refused request"
        .into();
    let rt = tokio::runtime::Builder::new_current_thread().enable_all().build().expect("rt");
    let n_hist: u64 = if args.thorough { 1200 } else { 120 };
    let group_size: u64 = 8;
    let max_len = if args.thorough { 28 } else { 18 };
    rt.block_on(async {
        let mut group: Option<Group> = None;
        for h in 0..n_hist {
            if h % group_size == 0 {
                group = Some(new_group().await);
            }
            let g = group.as_mut().expect("group");
            let nrep = match rng.below(8) {
                0 => 1,
                1..=3 => 2,
                _ => 3,
            };
            let len = rng.range(8, max_len) as usize;
            run_history(g, h, nrep, len, &mut rng, &mut sink).await;
        }
    });
    sink.finish();
}
