//! C29 — Totp::verify (server/lib/src/credential/totp.rs) vs the Coq model and the Coq RFC 6238
//! reference.  The REAL `Totp::new(..).verify(chal, time)` is run (public API, no hook); every case
//! records the inputs and what the call did (true / false / panic).  Candidate codes are produced by
//! a small independent RFC 6238 implementation below (own SHA-1/SHA-256/SHA-512/HMAC, long keys
//! hashed first) so that secrets of ANY length get their true current/previous codes as candidates;
//! the verdict itself is computed inside Coq (KV.C29.Model.agree / pcheck).
use kanidmd_lib::credential::totp::{Totp, TotpAlgo, TotpDigits};
use kvh::*;
use std::time::Duration;

// ------------------------------------------------------------------ independent reference (candidates only)
fn sha1(msg: &[u8]) -> Vec<u8> {
    let mut h: [u32; 5] = [0x67452301, 0xefcdab89, 0x98badcfe, 0x10325476, 0xc3d2e1f0];
    let mut m = msg.to_vec();
    m.push(0x80);
    while m.len() % 64 != 56 {
        m.push(0);
    }
    m.extend_from_slice(&((msg.len() as u64) * 8).to_be_bytes());
    for blk in m.chunks(64) {
        let mut w = [0u32; 80];
        for i in 0..16 {
            w[i] = u32::from_be_bytes([blk[4 * i], blk[4 * i + 1], blk[4 * i + 2], blk[4 * i + 3]]);
        }
        for i in 16..80 {
            w[i] = (w[i - 3] ^ w[i - 8] ^ w[i - 14] ^ w[i - 16]).rotate_left(1);
        }
        let (mut a, mut b, mut c, mut d, mut e) = (h[0], h[1], h[2], h[3], h[4]);
        for (i, wi) in w.iter().enumerate() {
            let (f, k) = match i / 20 {
                0 => ((b & c) | (!b & d), 0x5a827999u32),
                1 => (b ^ c ^ d, 0x6ed9eba1),
                2 => ((b & c) | (b & d) | (c & d), 0x8f1bbcdc),
                _ => (b ^ c ^ d, 0xca62c1d6),
            };
            let t = a.rotate_left(5).wrapping_add(f).wrapping_add(e).wrapping_add(k).wrapping_add(*wi);
            e = d;
            d = c;
            c = b.rotate_left(30);
            b = a;
            a = t;
        }
        h[0] = h[0].wrapping_add(a);
        h[1] = h[1].wrapping_add(b);
        h[2] = h[2].wrapping_add(c);
        h[3] = h[3].wrapping_add(d);
        h[4] = h[4].wrapping_add(e);
    }
    h.iter().flat_map(|x| x.to_be_bytes()).collect()
}

/// n-th prime list and fractional parts of roots: the SHA-2 constants are derived, not typed in
fn primes(n: usize) -> Vec<u64> {
    let mut ps: Vec<u64> = vec![];
    let mut k = 2u64;
    while ps.len() < n {
        if ps.iter().all(|p| k % p != 0) {
            ps.push(k);
        }
        k += 1;
    }
    ps
}
/// floor(frac(p^(1/k)) * 2^bits) by integer bisection on u128/bignum-free arithmetic:
/// find r = floor(root_k(p * 2^(k*bits))) with 256-bit products done in pieces
fn frac_root(p: u64, k: u32, bits: u32) -> u64 {
    // r < 2^(bits+4); compare r^k with p << (k*bits) using arbitrary precision vectors of u32 limbs
    fn mul(a: &[u32], b: &[u32]) -> Vec<u32> {
        let mut r = vec![0u64; a.len() + b.len() + 1];
        for (i, x) in a.iter().enumerate() {
            let mut carry = 0u64;
            for (j, y) in b.iter().enumerate() {
                let t = r[i + j] + (*x as u64) * (*y as u64) + carry;
                r[i + j] = t & 0xffff_ffff;
                carry = t >> 32;
            }
            let mut idx = i + b.len();
            while carry > 0 {
                let t = r[idx] + carry;
                r[idx] = t & 0xffff_ffff;
                carry = t >> 32;
                idx += 1;
            }
        }
        let mut v: Vec<u32> = r.into_iter().map(|x| x as u32).collect();
        while v.len() > 1 && *v.last().unwrap() == 0 {
            v.pop();
        }
        v
    }
    fn from_u128(x: u128) -> Vec<u32> {
        let mut v = vec![x as u32, (x >> 32) as u32, (x >> 64) as u32, (x >> 96) as u32];
        while v.len() > 1 && *v.last().unwrap() == 0 {
            v.pop();
        }
        v
    }
    fn le(a: &[u32], b: &[u32]) -> bool {
        if a.len() != b.len() {
            return a.len() < b.len();
        }
        for i in (0..a.len()).rev() {
            if a[i] != b[i] {
                return a[i] < b[i];
            }
        }
        true
    }
    // target = p << (k*bits)
    let shift = (k * bits) as usize;
    let mut target = vec![0u32; shift / 32];
    target.extend(from_u128((p as u128) << (shift % 32)));
    let (mut lo, mut hi) = (0u128, 1u128 << (bits + 5));
    while lo + 1 < hi {
        let mid = (lo + hi) / 2;
        let m = from_u128(mid);
        let mut pw = m.clone();
        for _ in 1..k {
            pw = mul(&pw, &m);
        }
        if le(&pw, &target) {
            lo = mid;
        } else {
            hi = mid;
        }
    }
    (lo & ((1u128 << bits) - 1)) as u64
}

struct Sha2Consts {
    k256: Vec<u32>,
    h256: Vec<u32>,
    k512: Vec<u64>,
    h512: Vec<u64>,
}
fn sha2_consts() -> Sha2Consts {
    let p = primes(80);
    Sha2Consts {
        k256: p[..64].iter().map(|x| frac_root(*x, 3, 32) as u32).collect(),
        h256: p[..8].iter().map(|x| frac_root(*x, 2, 32) as u32).collect(),
        k512: p.iter().map(|x| frac_root(*x, 3, 64)).collect(),
        h512: p[..8].iter().map(|x| frac_root(*x, 2, 64)).collect(),
    }
}

fn sha256(c: &Sha2Consts, msg: &[u8]) -> Vec<u8> {
    let mut h: Vec<u32> = c.h256.clone();
    let mut m = msg.to_vec();
    m.push(0x80);
    while m.len() % 64 != 56 {
        m.push(0);
    }
    m.extend_from_slice(&((msg.len() as u64) * 8).to_be_bytes());
    for blk in m.chunks(64) {
        let mut w = [0u32; 64];
        for i in 0..16 {
            w[i] = u32::from_be_bytes([blk[4 * i], blk[4 * i + 1], blk[4 * i + 2], blk[4 * i + 3]]);
        }
        for i in 16..64 {
            let s0 = w[i - 15].rotate_right(7) ^ w[i - 15].rotate_right(18) ^ (w[i - 15] >> 3);
            let s1 = w[i - 2].rotate_right(17) ^ w[i - 2].rotate_right(19) ^ (w[i - 2] >> 10);
            w[i] = w[i - 16].wrapping_add(s0).wrapping_add(w[i - 7]).wrapping_add(s1);
        }
        let mut s: Vec<u32> = h.clone();
        for i in 0..64 {
            let s1 = s[4].rotate_right(6) ^ s[4].rotate_right(11) ^ s[4].rotate_right(25);
            let ch = (s[4] & s[5]) ^ (!s[4] & s[6]);
            let t1 = s[7].wrapping_add(s1).wrapping_add(ch).wrapping_add(c.k256[i]).wrapping_add(w[i]);
            let s0 = s[0].rotate_right(2) ^ s[0].rotate_right(13) ^ s[0].rotate_right(22);
            let maj = (s[0] & s[1]) ^ (s[0] & s[2]) ^ (s[1] & s[2]);
            let t2 = s0.wrapping_add(maj);
            s = vec![t1.wrapping_add(t2), s[0], s[1], s[2], s[3].wrapping_add(t1), s[4], s[5], s[6]];
        }
        for i in 0..8 {
            h[i] = h[i].wrapping_add(s[i]);
        }
    }
    h.iter().flat_map(|x| x.to_be_bytes()).collect()
}

fn sha512(c: &Sha2Consts, msg: &[u8]) -> Vec<u8> {
    let mut h: Vec<u64> = c.h512.clone();
    let mut m = msg.to_vec();
    m.push(0x80);
    while m.len() % 128 != 112 {
        m.push(0);
    }
    m.extend_from_slice(&((msg.len() as u128) * 8).to_be_bytes());
    for blk in m.chunks(128) {
        let mut w = [0u64; 80];
        for i in 0..16 {
            let mut b = [0u8; 8];
            b.copy_from_slice(&blk[8 * i..8 * i + 8]);
            w[i] = u64::from_be_bytes(b);
        }
        for i in 16..80 {
            let s0 = w[i - 15].rotate_right(1) ^ w[i - 15].rotate_right(8) ^ (w[i - 15] >> 7);
            let s1 = w[i - 2].rotate_right(19) ^ w[i - 2].rotate_right(61) ^ (w[i - 2] >> 6);
            w[i] = w[i - 16].wrapping_add(s0).wrapping_add(w[i - 7]).wrapping_add(s1);
        }
        let mut s: Vec<u64> = h.clone();
        for i in 0..80 {
            let s1 = s[4].rotate_right(14) ^ s[4].rotate_right(18) ^ s[4].rotate_right(41);
            let ch = (s[4] & s[5]) ^ (!s[4] & s[6]);
            let t1 = s[7].wrapping_add(s1).wrapping_add(ch).wrapping_add(c.k512[i]).wrapping_add(w[i]);
            let s0 = s[0].rotate_right(28) ^ s[0].rotate_right(34) ^ s[0].rotate_right(39);
            let maj = (s[0] & s[1]) ^ (s[0] & s[2]) ^ (s[1] & s[2]);
            let t2 = s0.wrapping_add(maj);
            s = vec![t1.wrapping_add(t2), s[0], s[1], s[2], s[3].wrapping_add(t1), s[4], s[5], s[6]];
        }
        for i in 0..8 {
            h[i] = h[i].wrapping_add(s[i]);
        }
    }
    h.iter().flat_map(|x| x.to_be_bytes()).collect()
}

#[derive(Clone, Copy, PartialEq, Debug)]
enum A {
    S1,
    S256,
    S512,
}
fn hash(c: &Sha2Consts, a: A, m: &[u8]) -> Vec<u8> {
    match a {
        A::S1 => sha1(m),
        A::S256 => sha256(c, m),
        A::S512 => sha512(c, m),
    }
}
fn block(a: A) -> usize {
    if a == A::S512 { 128 } else { 64 }
}
/// RFC 2104
fn hmac(c: &Sha2Consts, a: A, key: &[u8], msg: &[u8]) -> Vec<u8> {
    let b = block(a);
    let mut k = if key.len() > b { hash(c, a, key) } else { key.to_vec() };
    k.resize(b, 0);
    let mut inner: Vec<u8> = k.iter().map(|x| x ^ 0x36).collect();
    inner.extend_from_slice(msg);
    let mut outer: Vec<u8> = k.iter().map(|x| x ^ 0x5c).collect();
    outer.extend(hash(c, a, &inner));
    hash(c, a, &outer)
}
/// RFC 4226 / 6238
fn ref_hotp(c: &Sha2Consts, a: A, key: &[u8], counter: u64, modulo: u32) -> u32 {
    let mac = hmac(c, a, key, &counter.to_be_bytes());
    let o = (mac[mac.len() - 1] & 0xf) as usize;
    let p = ((mac[o] as u32 & 0x7f) << 24) | ((mac[o + 1] as u32) << 16) | ((mac[o + 2] as u32) << 8) | mac[o + 3] as u32;
    p % modulo
}

fn hexs(b: &[u8]) -> String {
    b.iter().map(|x| format!("{:02x}", x)).collect()
}

// ------------------------------------------------------------------ generation
fn main() {
    let args = parse_args();
    let mut rng = Rng::new(args.seed);
    let mut sink = Sink::new(&args, "KV.C29.Model", if args.thorough { 200 } else { 20 });
    sink.import("Coq.Strings.String");
    sink.import("KV.C29.Hash");
    sink.rule = "tokens: random secrets of 0..200 bytes (weighted towards 0, typical 10/20/32/64 and the HMAC block \
                 boundaries 63..65 / 127..129, i.e. including secrets longer than the block), SHA-1/256/512, 6/8 digits, \
                 steps 30, 60, random 30..3600, a few huge and a few 1..29; times >= step: realistic epoch seconds, exact \
                 step boundaries (k*step, k*step+step-1), first window (step..2*step), huge (up to u64::MAX) with random \
                 nanoseconds; plus a few calls outside the property's hypotheses (time < step, step 0) that only tie the \
                 model's panic/overflow branches. candidates per (token,time): the RFC 6238 codes (independent Rust \
                 reference, long keys hashed) of counters c, c-1, c+1, c-2, each also +-1 and +10^digits, plus random \
                 in-range and out-of-range u32 and 0. one case = one (token, time) with the list of all its candidates and what the \
                 real verify answered for each. non-trivial = a case inside the property's hypotheses (time >= step > 0) \
                 whose candidates include at least two RFC codes of the counters c-2..c+1 (on / next to the acceptance boundary)"
        .into();
    std::panic::set_hook(Box::new(|_| {}));
    let consts = sha2_consts();
    // self-test of the candidate generator (RFC 6238 appendix B); a wrong reference would only weaken coverage,
    // but fail loudly anyway
    assert_eq!(ref_hotp(&consts, A::S1, b"12345678901234567890", 59 / 30, 100_000_000), 94287082);
    assert_eq!(ref_hotp(&consts, A::S256, b"12345678901234567890123456789012", 59 / 30, 100_000_000), 46119246);
    assert_eq!(
        ref_hotp(&consts, A::S512, b"1234567890123456789012345678901234567890123456789012345678901234", 59 / 30, 100_000_000),
        90693936
    );
    let ovf = cfg!(debug_assertions);
    let n_tokens = if args.thorough { 4000 } else { 200 };
    for ti in 0..n_tokens {
        let a = *rng.pick(&[A::S1, A::S256, A::S512]);
        let eight = rng.chance(1, 2);
        let modulo: u32 = if eight { 100_000_000 } else { 1_000_000 };
        let b = block(a) as u64;
        let klen = match rng.below(10) {
            0 => *rng.pick(&[0u64, 1, 10, 16, 20, 32]),
            1 | 2 => b - 1 + rng.below(3),           // block-1, block, block+1
            3 => *rng.pick(&[63u64, 64, 65, 127, 128, 129, 200]),
            4 => rng.range(b + 1, 200),              // longer than the block
            5 => rng.range(0, 200),
            _ => rng.range(0, b),                    // fits the block
        } as usize;
        let key = if rng.chance(1, 12) { vec![*rng.pick(&[0u8, 0xff, 0x36, 0x5c]); klen] } else { rng.bytes(klen) };
        let step: u64 = match rng.below(12) {
            0..=4 => 30,
            5 => 60,
            6..=8 => rng.range(30, 3600),
            9 => rng.range(1, 29),
            10 => 1u64 << rng.range(20, 62),
            _ => rng.range(30, 100_000),
        };
        let n_times = if ti % 10 == 0 { 2 } else { 1 };
        for _ in 0..n_times {
            let secs: u64 = match rng.below(10) {
                0 => step * rng.range(1, 4),                                  // exact boundary, early
                1 => step.saturating_mul(rng.range(1, 1 << 20)),              // exact boundary
                2 => step.saturating_mul(rng.range(2, 1 << 20)) - 1,          // last second of a step
                3 => rng.range(step, step.saturating_mul(2).saturating_sub(1).max(step)), // first window: previous counter is 0
                4 => u64::MAX - rng.below(3),
                5 => rng.next() | (1 << 63),
                _ => rng.range(1_500_000_000, 2_100_000_000).max(step),
            };
            let secs = secs.max(step);
            let nanos = if rng.chance(1, 3) { 0 } else { rng.below(1_000_000_000) as u32 };
            emit_time(&mut sink, &mut rng, &consts, ovf, a, eight, modulo, &key, step, secs, nanos);
        }
        // outside the hypotheses: before the first step / step 0 (ties the model's panic branches only)
        if ti % 8 == 0 {
            let secs = rng.below(step);
            let c0 = ref_hotp(&consts, a, &key, 0, modulo);
            emit(&mut sink, &consts, ovf, a, eight, &key, step, secs, 0, &[c0, c0 ^ 1], "pre");
        }
        if ti % 25 == 0 {
            emit(&mut sink, &consts, ovf, a, eight, &key, 0, rng.below(1 << 40), 0, &[rng.below(1_000_000) as u32], "step0");
        }
    }
    sink.finish();
}

#[allow(clippy::too_many_arguments)]
fn emit_time(sink: &mut Sink, rng: &mut Rng, consts: &Sha2Consts, ovf: bool, a: A, eight: bool, modulo: u32,
             key: &[u8], step: u64, secs: u64, nanos: u32) {
    let c = secs / step;
    let mut cands: Vec<u32> = vec![];
    for ctr in [Some(c), c.checked_sub(1), c.checked_add(1), c.checked_sub(2)].into_iter().flatten() {
        let code = ref_hotp(consts, a, key, ctr, modulo);
        cands.push(code);
        if rng.chance(1, 2) {
            cands.push(code.wrapping_add(1));
        }
        if rng.chance(1, 3) {
            cands.push(code.wrapping_sub(1));
        }
        if rng.chance(1, 3) {
            cands.push(code + modulo); // same residue, not a valid code
        }
    }
    cands.push(rng.below(modulo as u64) as u32);
    if rng.chance(1, 2) {
        cands.push(rng.next() as u32);
    }
    if rng.chance(1, 4) {
        cands.push(0);
    }
    cands.sort_unstable();
    cands.dedup();
    rng.shuffle(&mut cands);
    emit(sink, consts, ovf, a, eight, key, step, secs, nanos, &cands, "verify");
}

#[allow(clippy::too_many_arguments)]
fn emit(sink: &mut Sink, consts: &Sha2Consts, ovf: bool, a: A, eight: bool, key: &[u8], step: u64, secs: u64,
        nanos: u32, cands: &[u32], tag: &str) {
    let algo = match a {
        A::S1 => TotpAlgo::Sha1,
        A::S256 => TotpAlgo::Sha256,
        A::S512 => TotpAlgo::Sha512,
    };
    let digits = if eight { TotpDigits::Eight } else { TotpDigits::Six };
    let modulo: u32 = if eight { 100_000_000 } else { 1_000_000 };
    let long = key.len() > block(a);
    // reference codes of the neighbouring counters (bookkeeping only)
    let mut neigh: Vec<(u32, &str)> = vec![];
    if step > 0 {
        let c = secs / step;
        for (ctr, name) in [(Some(c), "cur"), (c.checked_sub(1), "prev"), (c.checked_add(1), "next"), (c.checked_sub(2), "prev2")] {
            if let Some(ctr) = ctr {
                neigh.push((ref_hotp(consts, a, key, ctr, modulo), name));
            }
        }
    }
    // ---- the real code, one call per candidate
    let totp = Totp::new(key.to_vec(), step, algo, digits);
    let mut obs: Vec<String> = vec![];
    let mut tobs: Vec<String> = vec![];
    let mut boundary = 0;
    for chal in cands {
        let chal = *chal;
        let r = guarded(std::panic::AssertUnwindSafe(|| totp.verify(chal, Duration::new(secs, nanos))));
        let (out, outs) = match r {
            Ok(b) => (capp("OBool", &[cbool(b)]), if b { "accept" } else { "reject" }),
            Err(_) => ("OPanic".to_string(), "panic"),
        };
        let rel = neigh.iter().find(|(code, _)| *code == chal).map(|(_, n)| *n).unwrap_or("other");
        if rel != "other" {
            boundary += 1;
        }
        sink.bump(&format!("call_{}_{}", tag, outs));
        sink.bump(&format!("cand_{}", rel));
        sink.bump("verify_calls");
        obs.push(format!("({}, {})", cn(chal as u64), out));
        tobs.push(format!("{}({})->{}", chal, rel, outs));
    }
    sink.bump(if long { "secret_longer_than_block" } else { "secret_fits_block" });
    sink.bump(match a { A::S1 => "sha1", A::S256 => "sha256", A::S512 => "sha512" });
    let an = match a { A::S1 => "Sha1", A::S256 => "Sha256", A::S512 => "Sha512" };
    let coq = capp(
        "CV",
        &[
            cbool(ovf),
            an.to_string(),
            (if eight { "D8" } else { "D6" }).to_string(),
            format!("(hex \"{}\"%string)", hexs(key)),
            cn(step),
            cn(secs),
            cn(nanos as u64),
            clist_s(&obs),
        ],
    );
    let txt = format!(
        "{} algo={} digits={} secret[{}]={} step={} time={}.{:09} codes: {}",
        tag, an, if eight { 8 } else { 6 }, key.len(), hexs(key), step, secs, nanos, tobs.join(" ")
    );
    // non-trivial: a call inside the property's hypotheses whose candidates include codes on/next to the
    // acceptance boundary (current, previous, next, two back)
    sink.case(coq, txt, tag == "verify" && boundary >= 2);
}
