//! C01 — search returns exactly the matching entries, whatever is indexed.
//!
//! One real QueryServer (in-memory), one long write transaction. A small population of groups is
//! created; then for each index layout (a subset of (attr, index type) pairs is removed from the
//! backend's idxmeta and all indexes are rebuilt) random resolved filter trees are run through the
//! REAL filter2idl / search / exists / entry_match_no_index, and random FC filters through the real
//! server-level internal_search (resolve + optimise + resolve cache).
use kanidmd_lib::be::Limits;
use kanidmd_lib::entry::{Entry, EntryInit, EntryNew};
use kanidmd_lib::filter::FilterResolved as FR;
use kanidmd_lib::prelude::*;
use kanidmd_lib::testkit::{setup_test, TestConfiguration};
use kanidmd_lib::verif_hooks::c01::*;
use kvh::*;
use std::collections::BTreeMap;
use std::num::NonZeroU8;

#[derive(Clone, Debug, PartialEq, Eq, PartialOrd, Ord)]
enum Kind {
    Eq,
    Cnt,
    Stw,
    Enw,
    Pres,
    Lt,
}

/// harness-side filter tree (attribute index into ATTRS, value index into that attribute's pool)
#[derive(Clone, Debug)]
enum T {
    Leaf(Kind, usize, usize, bool), // kind, attr, value, idx flag
    Or(Vec<T>),
    And(Vec<T>),
    Not(Box<T>),
    Invalid,
}

struct World {
    attrs: Vec<Attribute>,
    pools: Vec<Vec<PartialValue>>,
}

fn itype_of(k: &Kind) -> IndexType {
    match k {
        Kind::Eq => IndexType::Equality,
        Kind::Cnt | Kind::Stw | Kind::Enw => IndexType::SubString,
        Kind::Pres => IndexType::Presence,
        Kind::Lt => IndexType::Ordering,
    }
}

fn slope(b: bool) -> Option<NonZeroU8> {
    if b { NonZeroU8::new(1) } else { None }
}

fn to_fr(w: &World, t: &T) -> FR {
    match t {
        T::Leaf(k, a, v, idx) => {
            let at = w.attrs[*a].clone();
            let pv = w.pools[*a][*v].clone();
            match k {
                Kind::Eq => FR::Eq(at, pv, slope(*idx)),
                Kind::Cnt => FR::Cnt(at, pv, slope(*idx)),
                Kind::Stw => FR::Stw(at, pv, slope(*idx)),
                Kind::Enw => FR::Enw(at, pv, slope(*idx)),
                Kind::Pres => FR::Pres(at, slope(*idx)),
                Kind::Lt => FR::LessThan(at, pv, slope(*idx)),
            }
        }
        T::Or(l) => FR::Or(l.iter().map(|x| to_fr(w, x)).collect(), None),
        T::And(l) => FR::And(l.iter().map(|x| to_fr(w, x)).collect(), None),
        T::Not(x) => FR::AndNot(Box::new(to_fr(w, x)), None),
        T::Invalid => FR::Invalid(Attribute::from("nonexist")),
    }
}

fn to_fc(w: &World, t: &T) -> FC {
    match t {
        T::Leaf(k, a, v, _) => {
            let at = w.attrs[*a].clone();
            let pv = w.pools[*a][*v].clone();
            match k {
                Kind::Eq => FC::Eq(at, pv),
                Kind::Cnt => FC::Cnt(at, pv),
                Kind::Stw | Kind::Enw => unreachable!(),
                Kind::Pres => FC::Pres(at),
                Kind::Lt => FC::LessThan(at, pv),
            }
        }
        T::Or(l) => FC::Or(l.iter().map(|x| to_fc(w, x)).collect()),
        T::And(l) => FC::And(l.iter().map(|x| to_fc(w, x)).collect()),
        T::Not(x) => FC::AndNot(Box::new(to_fc(w, x))),
        T::Invalid => FC::Invalid(Attribute::from("nonexist")),
    }
}

fn kind_coq(k: &Kind) -> &'static str {
    match k {
        Kind::Eq => "KEq",
        Kind::Cnt => "KCnt",
        Kind::Stw => "KStw",
        Kind::Enw => "KEnw",
        Kind::Pres => "KPres",
        Kind::Lt => "KLt",
    }
}

fn to_coq(t: &T) -> String {
    match t {
        T::Leaf(k, a, v, idx) => {
            let v = if *k == Kind::Pres { 0 } else { *v };
            format!("(FLeaf {} {} {} {})", kind_coq(k), cn(*a as u64), cn(v as u64), if *idx { "(Some 1%N)" } else { "None" })
        }
        T::Or(l) => format!("(FOr {} None)", clist(l, to_coq)),
        T::And(l) => format!("(FAnd {} None)", clist(l, to_coq)),
        T::Not(x) => format!("(FAndNot {} None)", to_coq(x)),
        T::Invalid => "(FInvalid 99%N)".to_string(),
    }
}

fn to_txt(t: &T) -> String {
    match t {
        T::Leaf(k, a, v, idx) => format!("{:?}(a{},v{}{})", k, a, v, if *idx { ",idx" } else { "" }),
        T::Or(l) => format!("Or[{}]", l.iter().map(to_txt).collect::<Vec<_>>().join(" ")),
        T::And(l) => format!("And[{}]", l.iter().map(to_txt).collect::<Vec<_>>().join(" ")),
        T::Not(x) => format!("Not({})", to_txt(x)),
        T::Invalid => "Invalid".into(),
    }
}

fn leaves(t: &T, out: &mut Vec<(Kind, usize, usize, bool)>) {
    match t {
        T::Leaf(k, a, v, idx) => {
            let key = (k.clone(), *a, if *k == Kind::Pres { 0 } else { *v }, *idx);
            if !out.contains(&key) {
                out.push(key);
            }
        }
        T::Or(l) | T::And(l) => l.iter().for_each(|x| leaves(x, out)),
        T::Not(x) => leaves(x, out),
        T::Invalid => {}
    }
}

fn has_not(t: &T) -> bool {
    match t {
        T::Not(_) => true,
        T::Or(l) | T::And(l) => l.iter().any(has_not),
        _ => false,
    }
}

fn gen_tree(rng: &mut Rng, w: &World, layout: &dyn Fn(usize, &Kind) -> bool, depth: u32, maxw: u64) -> T {
    let leaf = depth == 0 || rng.chance(2, 5);
    if leaf {
        if rng.chance(1, 40) {
            return T::Invalid;
        }
        let a = rng.below(w.attrs.len() as u64) as usize;
        // ordering only on the numeric attribute (index 1); substring only on strings
        let k = loop {
            let k = rng.pick(&[Kind::Eq, Kind::Eq, Kind::Pres, Kind::Cnt, Kind::Stw, Kind::Enw, Kind::Lt, Kind::Lt]).clone();
            let numeric = a == 1;
            if (k == Kind::Lt && !numeric) || (matches!(k, Kind::Cnt | Kind::Stw | Kind::Enw) && numeric) {
                continue;
            }
            break k;
        };
        let v = rng.below(w.pools[a].len() as u64) as usize;
        let mut idx = layout(a, &k);
        if rng.chance(1, 12) {
            idx = !idx; // resolver flag out of sync with the real index: a legitimate "corrupt/unknown" state
        }
        return T::Leaf(k, a, v, idx);
    }
    let n = rng.below(maxw + 1) as usize; // 0 allowed: empty And / Or
    let kids: Vec<T> = (0..n).map(|_| gen_tree(rng, w, layout, depth - 1, maxw)).collect();
    match rng.below(5) {
        0 | 1 => T::And(kids),
        2 | 3 => T::Or(kids),
        _ => T::Not(Box::new(gen_tree(rng, w, layout, depth - 1, maxw))),
    }
}

fn idl_coq(i: &HookIdl, ids: &Intern<u64>) -> String {
    let m = |v: &Vec<u64>| clist(v, |x| cn(ids.get(x).unwrap_or(999_999)));
    match i {
        HookIdl::AllIds => "AllIds".into(),
        HookIdl::Partial(v) => format!("(Partial {})", m(v)),
        HookIdl::PartialThreshold(v) => format!("(PartialThreshold {})", m(v)),
        HookIdl::Indexed(v) => format!("(Indexed {})", m(v)),
    }
}

fn main() {
    let args = parse_args();
    let mut rng = Rng::new(args.seed);
    let mut sink = Sink::new(&args, "KV.C01.Model", 60);
    sink.import("KV.Base.Filter");
    sink.rule = "population: 9 groups (name/gidnumber/description/member) + the built-in entries of a fresh server; \
index layouts: random subsets of the 8 (attr,index-type) pairs on the test attributes removed from the default idxmeta, indexes rebuilt; \
filters: random trees depth<=3 (quick) / 4 (thorough), width<=3/4, all six leaf kinds, AndNot at every position, empty And/Or, Invalid; \
per tree: real filter2idl at thresholds {0,1,2,3,6}, real be search/exists under random resource limits, real entry_match_no_index on every entry, \
and the same tree through the server-level internal_search (resolve+optimise, cold and warm resolve cache). \
non-trivial = the tree contains an AndNot or mixes indexed and unindexed leaves, and the reference result is neither empty nor everything".into();

    let rt = tokio::runtime::Builder::new_current_thread().enable_all().build().expect("rt");
    let qs = rt.block_on(setup_test(TestConfiguration::default()));
    let mut wr = rt.block_on(qs.write(duration_from_epoch_now())).expect("write");

    // ---- population
    let names = ["pga", "pgb", "pgbx", "xpgc", "pgd", "qqe", "pgaa", "zz", "apgb"];
    let gids: [Option<u32>; 9] = [Some(3000), Some(7000), Some(9000), None, Some(5000), Some(4999), None, Some(5001), Some(7001)];
    let descs: [Option<&str>; 9] = [Some("alpha one"), Some("beta"), None, Some("alpha"), Some("gamma beta"), None, Some("one"), Some("beta"), None];
    let uuids: Vec<Uuid> = (0..9).map(|i| Uuid::from_u128(0xc001_0000_0000_0000_0000_0000_0000_0000u128 + i as u128)).collect();
    let mut es = vec![];
    for i in 0..9 {
        let mut e: Entry<EntryInit, EntryNew> = kanidmd_lib::entry_init!(
            (Attribute::Class, EntryClass::Object.to_value()),
            (Attribute::Class, EntryClass::Group.to_value()),
            (Attribute::Name, Value::new_iname(names[i])),
            (Attribute::Uuid, Value::Uuid(uuids[i]))
        );
        if let Some(g) = gids[i] {
            e.add_ava(Attribute::Class, EntryClass::PosixGroup.to_value());
            e.add_ava(Attribute::GidNumber, Value::Uint32(g));
        }
        if let Some(d) = descs[i] {
            e.add_ava(Attribute::Description, Value::new_utf8s(d));
        }
        // membership: i contains i+1 and i+2 (mod 9) for some
        if i % 3 == 0 {
            e.add_ava(Attribute::Member, Value::Refer(uuids[(i + 1) % 9]));
            e.add_ava(Attribute::Member, Value::Refer(uuids[(i + 2) % 9]));
        }
        es.push(e);
    }
    wr.internal_create(es).expect("create population");

    let w = World {
        attrs: vec![Attribute::Name, Attribute::GidNumber, Attribute::Description, Attribute::Member],
        pools: vec![
            ["pga", "pgb", "pgbx", "pg", "b", "x", "qqe", "nomatch", "a", "pgaa"].iter().map(|s| PartialValue::new_iname(s)).collect(),
            [3000u32, 5000, 5001, 7000, 0, 9000, 9001, 4999, 7001].iter().map(|g| PartialValue::Uint32(*g)).collect(),
            ["alpha one", "beta", "alpha", "one", "et", "gamma beta", "zzz"].iter().map(|s| PartialValue::new_utf8s(s)).collect(),
            vec![PartialValue::Refer(uuids[1]), PartialValue::Refer(uuids[2]), PartialValue::Refer(uuids[4]), PartialValue::Refer(uuids[8])],
        ],
    };

    let default_layout = be_index_layout(&mut wr);
    // candidate pairs we toggle
    let toggles: Vec<(usize, IndexType)> = vec![
        (0, IndexType::Equality), (0, IndexType::Presence), (0, IndexType::SubString),
        (1, IndexType::Equality), (1, IndexType::Presence), (1, IndexType::Ordering),
        (2, IndexType::Equality), (2, IndexType::SubString), (2, IndexType::Presence),
        (3, IndexType::Equality), (3, IndexType::Presence),
    ];
    let n_layouts = if args.thorough { 40 } else { 12 };
    let n_trees = if args.thorough { 120 } else { 60 };
    let (maxd, maxw) = if args.thorough { (4, 4) } else { (3, 3) };

    let mut ids = Intern::<u64>::new();
    for li in 0..n_layouts {
        // layout li==0: default + all toggles present; li==1: none of the toggles; else random
        let present: Vec<bool> = toggles.iter().map(|_| match li { 0 => true, 1 => false, _ => rng.chance(1, 2) }).collect();
        let mut keys: Vec<(Attribute, IndexType)> = default_layout
            .iter()
            .filter(|k| !toggles.iter().any(|(a, it)| w.attrs[*a] == k.0 && *it == k.1))
            .cloned()
            .collect();
        for ((a, it), p) in toggles.iter().zip(present.iter()) {
            if *p {
                keys.push((w.attrs[*a].clone(), it.clone()));
            }
        }
        be_set_index_layout(&mut wr, keys).expect("set layout");
        let has = |a: usize, k: &Kind| -> bool {
            let it = itype_of(k);
            toggles.iter().zip(present.iter()).any(|((ta, tit), p)| *p && *ta == a && *tit == it)
        };
        let layout_txt: String = present.iter().map(|p| if *p { '1' } else { '0' }).collect();

        // the two leaves of the server's hidden-entry wrapper, with their real truth
        let mut hidden_leaves = vec![];
        for (vid, cls) in [(1u64, EntryClass::Tombstone), (2u64, EntryClass::Recycled)] {
            let lfr = FR::Eq(Attribute::Class, cls.into(), None);
            let (all0, ltru) = be_truth(&mut wr, &lfr).expect("hidden truth");
            for x in &all0 { ids.id(x); }
            hidden_leaves.push(format!(
                "(mkleaf KEq 100%N {} false AllIds {})",
                cn(vid), clist(&ltru, |x| cn(ids.get(x).unwrap_or(999_999)))
            ));
        }

        for ti in 0..n_trees {
            let t = if li < 2 && ti < CORPUS.len() { corpus_tree(ti, &has) } else { gen_tree(&mut rng, &w, &has, maxd, maxw) };
            let fr = to_fr(&w, &t);
            let (all, tru) = be_truth(&mut wr, &fr).expect("truth");
            let univ: Vec<u64> = all.iter().map(|x| ids.id(x)).collect();
            // leaves
            let mut lv = vec![];
            leaves(&t, &mut lv);
            let mut leaf_coq = vec![];
            let mut mixed = (false, false);
            for (k, a, v, idx) in &lv {
                let lt = T::Leaf(k.clone(), *a, *v, *idx);
                let lfr = to_fr(&w, &lt);
                let lidl = be_filter2idl(&mut wr, &lfr, 0).expect("leaf idl");
                match lidl { HookIdl::AllIds => mixed.0 = true, _ => mixed.1 = true }
                let (_, ltru) = be_truth(&mut wr, &lfr).expect("leaf truth");
                leaf_coq.push(format!(
                    "(mkleaf {} {} {} {} {} {})",
                    kind_coq(k), cn(*a as u64), cn(*v as u64), cbool(*idx), idl_coq(&lidl, &ids),
                    clist(&ltru, |x| cn(ids.get(x).unwrap_or(999_999)))
                ));
            }
            let thres = *rng.pick(&[0usize, 0, 1, 2, 3, 6]);
            let idl = be_filter2idl(&mut wr, &fr, thres).expect("idl");
            let lim = if rng.chance(1, 2) {
                Limits::unlimited()
            } else {
                Limits {
                    unindexed_allow: rng.chance(3, 4),
                    search_max_results: *rng.pick(&[1usize, 2, 5, 400, 100000]),
                    search_max_filter_test: *rng.pick(&[2usize, 5, 400, 100000]),
                    ..Limits::unlimited()
                }
            };
            let sres = match be_search(&mut wr, &lim, &fr) {
                Ok(v) => format!("(SOk {})", clist(&v, |x| cn(ids.get(x).unwrap_or(999_999)))),
                Err(OperationError::ResourceLimit) => "SErr".to_string(),
                Err(e) => panic!("unexpected search error {:?}", e),
            };
            let eres = match be_exists(&mut wr, &lim, &fr) {
                Ok(b) => format!("(EOk {})", cbool(b)),
                Err(OperationError::ResourceLimit) => "EErr".to_string(),
                Err(e) => panic!("unexpected exists error {:?}", e),
            };
            let limc = format!(
                "(mklim {} {} {})",
                cbool(lim.unindexed_allow), cn(lim.search_max_results.min(1 << 40) as u64), cn(lim.search_max_filter_test.min(1 << 40) as u64)
            );
            let nontrivial = (has_not(&t) || (mixed.0 && mixed.1)) && !tru.is_empty() && tru.len() < all.len();
            sink.bump(match idl { HookIdl::AllIds => "idl_allids", HookIdl::Partial(_) => "idl_partial", HookIdl::PartialThreshold(_) => "idl_partialthreshold", HookIdl::Indexed(_) => "idl_indexed" });
            if sres == "SErr" { sink.bump("search_resource_limit"); }
            if has_not(&t) { sink.bump("tree_has_andnot"); }
            sink.case(
                format!(
                    "(CBe {} {} {} {} {} {} {} {} {})",
                    clist(&univ, |x| cn(*x)), clist_s(&leaf_coq), to_coq(&t), cn(thres as u64), limc,
                    idl_coq(&idl, &ids), sres, eres, clist(&tru, |x| cn(ids.get(x).unwrap_or(999_999)))
                ),
                format!("be layout={} thres={} lim=({},{},{}) filter={} -> matches={} search={}", layout_txt, thres, lim.unindexed_allow, lim.search_max_results, lim.search_max_filter_test, to_txt(&t), tru.len(), if sres == "SErr" { "ResourceLimit".to_string() } else { "ok".to_string() }),
                nontrivial,
            );

            // server level: same tree through resolve + optimise (+ resolve cache on the 2nd run)
            if ti % 2 == 0 && !has_stw_enw(&t) {
                let fc = to_fc(&w, &t);
                for pass in 0..2 {
                    let f = kanidmd_lib::filter::Filter::new_ignore_hidden(fc.clone());
                    let r = wr.internal_search(f);
                    let res = match r {
                        Ok(v) => {
                            let mut idv: Vec<u64> = v.iter().map(|e| ids.get(&e.get_id()).unwrap_or(999_999)).collect();
                            idv.sort_unstable();
                            format!("(SOk {})", clist(&idv, |x| cn(*x)))
                        }
                        // any explicit error (resource limit, schema violation such as an empty
                        // And/Or or an unknown attribute) is an allowed outcome of the property
                        Err(e) => {
                            sink.bump(&format!("srv_err_{:?}", e).chars().take(40).collect::<String>());
                            "SErr".to_string()
                        }
                    };
                    // the tree the server evaluates: And[AndNot(Or[class=tombstone, class=recycled]), f]
                    // none of our entries and no built-in entry is hidden in this run, so the wrapper's first
                    // term is true everywhere; it is written out so that the model evaluates the same shape.
                    let wrapped = format!("(FAnd [FAndNot (FOr [FLeaf KEq 100%N 1%N None; FLeaf KEq 100%N 2%N None] None) None; {}] None)", to_coq(&t));
                    sink.bump(if pass == 0 { "srv_cold" } else { "srv_warm" });
                    sink.case(
                        format!("(CSrv {} {} {} {})", clist(&univ, |x| cn(*x)), clist_s(&[leaf_coq.clone(), hidden_leaves.clone()].concat()), wrapped, res),
                        format!("srv layout={} pass={} filter={} -> {}", layout_txt, pass, to_txt(&t), if res == "SErr" { "ResourceLimit" } else { "ok" }),
                        nontrivial,
                    );
                }
            }
        }
        sink.bump("layouts");
    }
    drop(wr);
    let _ = BTreeMap::<u8, u8>::new();
    sink.finish();
}

// ---- corpus: the shapes on which the pre-fix algorithm was wrong, always run first
const CORPUS: [&str; 9] = ["or_not", "ge", "not_cnt", "top_not", "all_neg_and", "and_not_not", "and_not_or_not", "and_not_allneg", "empty_and"];
fn corpus_tree(i: usize, has: &dyn Fn(usize, &Kind) -> bool) -> T {
    let leaf = |k: Kind, a: usize, v: usize| T::Leaf(k.clone(), a, v, has(a, &k));
    match CORPUS[i] {
        "or_not" => T::Or(vec![leaf(Kind::Eq, 0, 0), T::Not(Box::new(leaf(Kind::Eq, 0, 1)))]),
        "ge" => T::And(vec![leaf(Kind::Pres, 1, 0), T::Not(Box::new(leaf(Kind::Lt, 1, 1)))]),
        "not_cnt" => T::And(vec![leaf(Kind::Pres, 0, 0), T::Not(Box::new(leaf(Kind::Cnt, 0, 2)))]),
        "top_not" => T::Not(Box::new(leaf(Kind::Eq, 0, 1))),
        "all_neg_and" => T::And(vec![T::Not(Box::new(leaf(Kind::Eq, 0, 1))), T::Not(Box::new(leaf(Kind::Pres, 1, 0)))]),
        // negation nested in a negation under an exactly indexed positive term
        "and_not_not" => T::And(vec![leaf(Kind::Pres, 0, 0), T::Not(Box::new(T::Not(Box::new(leaf(Kind::Eq, 0, 1)))))]),
        "and_not_or_not" => T::And(vec![leaf(Kind::Pres, 0, 0), T::Not(Box::new(T::Or(vec![leaf(Kind::Eq, 0, 0), T::Not(Box::new(leaf(Kind::Eq, 0, 1)))])))]),
        "and_not_allneg" => T::And(vec![leaf(Kind::Pres, 1, 0), T::Not(Box::new(T::And(vec![T::Not(Box::new(leaf(Kind::Eq, 0, 1)))])))]),
        _ => T::And(vec![]),
    }
}

/// FC (the public filter constructor type) has no starts-with / ends-with terms
fn has_stw_enw(t: &T) -> bool {
    match t {
        T::Leaf(k, _, _, _) => matches!(k, Kind::Stw | Kind::Enw),
        T::Or(l) | T::And(l) => l.iter().any(has_stw_enw),
        T::Not(x) => has_stw_enw(x),
        T::Invalid => false,
    }
}
