//! C27 — authentication needs every factor, and denial is final.
//!
//! A REAL IdmServer (in-memory database) holds one account per credential shape; every case
//! is one authentication session (or two interleaved sessions of one account) driven through
//! the public `IdmServerAuthTransaction::auth` with Init / Begin / Cred events at
//! harness-chosen times.  After every call the answer (`AuthState` kind and payload, or the
//! `OperationError`) and the delayed actions the call queued (AuthSessionRecord: auth type,
//! scope, target, credential id; BackupCodeRemoval) are recorded.  The Coq model
//! (KV.C27.Model) is run on the same step list inside Coq (`agree`) and the property's
//! declarative predicate is evaluated on the recorded answers (`pcheck`).
//!
//! Oracle bits carried by the steps are fixed by construction: the harness knows whether it
//! presents the right password, the TOTP code of which window, a registered backup code; the
//! soft-lock bit is set exactly when the step's time lies within one second after a failure
//! that this harness caused on the same credential (sessions of one account are otherwise a day apart).
use kanidm_proto::v1::{AuthAllowed, AuthCredential, AuthIssueSession, AuthMech, AuthStep};
use kanidmd_lib::credential::totp::{Totp, TotpAlgo, TotpDigits};
use kanidmd_lib::entry::{Entry, EntryInit, EntryNew};
use kanidmd_lib::idm::authentication::{AuthState, ClientAuthInfo};
use kanidmd_lib::idm::delayed::DelayedAction;
use kanidmd_lib::idm::event::AuthEvent;
use kanidmd_lib::idm::server::{IdmServer, IdmServerAuthTransaction, IdmServerDelayed};
use kanidmd_lib::prelude::*;
use kanidmd_lib::testkit::{setup_idm_test, TestConfiguration};
use kanidmd_lib::value::{AuthType, SessionScope};
use kanidmd_lib::verif_hooks::c27 as hook;
use kanidmd_lib::verif_hooks::c28 as hook28;
use kvh::*;

const G: u64 = 1_000_000_000;
const DAY: u64 = 86400;
/// all printed times are relative to this instant (2030-03-17)
const BASE: u64 = 1_900_000_000;
const PW_GOOD: &str = "eicieY7ahchaoCh0eeTa";
const PW_BAD: &str = "Thi5-is-the-wr0ng-0ne";
const PW_LISTED: &str = "listed-eev8ohquooyae4ieph";
const BK_GOOD: &str = "aaaaa-bbbbb";
const BK_GOOD2: &str = "ccccc-ddddd";
const BK_BAD: &str = "zzzzz-yyyyy";

fn d(ns: u64) -> Duration {
    Duration::from_nanos(ns)
}

// ------------------------------------------------------------------ vocabulary (mirrors Model.v)
#[derive(Clone, Copy, PartialEq, Eq, Debug)]
enum Mech {
    Anonymous,
    Password,
    PasswordTotp,
    PasswordBackupCode,
    PasswordSecurityKey,
    Passkey,
    OAuth2Trust,
}
const MECHS: [Mech; 7] = [
    Mech::Anonymous,
    Mech::Password,
    Mech::PasswordTotp,
    Mech::PasswordBackupCode,
    Mech::PasswordSecurityKey,
    Mech::Passkey,
    Mech::OAuth2Trust,
];
impl Mech {
    fn coq(self) -> &'static str {
        match self {
            Mech::Anonymous => "MAnonymous",
            Mech::Password => "MPassword",
            Mech::PasswordTotp => "MPasswordTotp",
            Mech::PasswordBackupCode => "MPasswordBackupCode",
            Mech::PasswordSecurityKey => "MPasswordSecurityKey",
            Mech::Passkey => "MPasskey",
            Mech::OAuth2Trust => "MOAuth2Trust",
        }
    }
    fn real(self) -> AuthMech {
        match self {
            Mech::Anonymous => AuthMech::Anonymous,
            Mech::Password => AuthMech::Password,
            Mech::PasswordTotp => AuthMech::PasswordTotp,
            Mech::PasswordBackupCode => AuthMech::PasswordBackupCode,
            Mech::PasswordSecurityKey => AuthMech::PasswordSecurityKey,
            Mech::Passkey => AuthMech::Passkey,
            Mech::OAuth2Trust => AuthMech::OAuth2Trust,
        }
    }
    fn of_real(m: &AuthMech) -> Mech {
        match m {
            AuthMech::Anonymous => Mech::Anonymous,
            AuthMech::Password => Mech::Password,
            AuthMech::PasswordTotp => Mech::PasswordTotp,
            AuthMech::PasswordBackupCode => Mech::PasswordBackupCode,
            AuthMech::PasswordSecurityKey => Mech::PasswordSecurityKey,
            AuthMech::Passkey => Mech::Passkey,
            AuthMech::OAuth2Trust => Mech::OAuth2Trust,
        }
    }
    fn softlockable(self) -> bool {
        matches!(self, Mech::Password | Mech::PasswordTotp | Mech::PasswordBackupCode)
    }
}

#[derive(Clone, Copy, PartialEq, Eq, Debug)]
enum Tk {
    Cur,
    Prev,
    Old,
    Next,
    Wrong,
}
#[derive(Clone, Copy, PartialEq, Eq, Debug)]
enum Cred {
    Anonymous,
    Password(bool),
    Totp(Tk),
    Backup(bool),
    /// a syntactically valid but meaningless WebAuthn assertion, sent as a SecurityKey credential
    SecurityKeyJunk,
    /// the same, sent as a Passkey credential
    PasskeyJunk,
}
const CREDS: [Cred; 12] = [
    Cred::Anonymous,
    Cred::Password(true),
    Cred::Password(false),
    Cred::Totp(Tk::Cur),
    Cred::Totp(Tk::Prev),
    Cred::Totp(Tk::Old),
    Cred::Totp(Tk::Next),
    Cred::Totp(Tk::Wrong),
    Cred::Backup(true),
    Cred::Backup(false),
    Cred::SecurityKeyJunk,
    Cred::PasskeyJunk,
];
#[derive(Clone, Copy, PartialEq, Eq, Debug)]
enum Step {
    Begin(Mech),
    Cred(Cred),
}

/// what the real server answered, already in Coq syntax + a coarse class for the generator
#[derive(Clone, Debug)]
struct Ans {
    coq: String,
    txt: String,
    class: Class,
}
#[derive(Clone, Copy, PartialEq, Eq, Debug)]
enum Class {
    Choose,
    Continue,
    Denied,
    DeniedLocked,
    Success,
    Err,
}

// ------------------------------------------------------------------ accounts
#[derive(Clone, Copy, PartialEq, Eq, Debug)]
enum Prim {
    None,
    Pw,
    Gen,
    Mfa { totp: bool, seckey: bool, backup: bool },
}
struct Acct {
    name: String,
    uuid: Uuid,
    anon: bool,
    prim: Prim,
    pwbad: bool,
    cred_id: Option<Uuid>,
    totps: Vec<Totp>,
    /// the account has a (fixture) passkey
    passkey: bool,
    /// currently stored validity window (absolute ns)
    vf: Option<u64>,
    ex: Option<u64>,
}
impl Acct {
    fn coq(&self) -> String {
        let rel = |t: &u64| cn(t - BASE * G);
        let prim = match self.prim {
            Prim::None => "PNone".to_string(),
            Prim::Pw => "PPw".to_string(),
            Prim::Gen => "PGen".to_string(),
            Prim::Mfa { totp, seckey, backup } => format!("(PMfa {} {} {})", cbool(totp), cbool(seckey), cbool(backup)),
        };
        format!(
            "(mkacct {} {} {} {} {} false false {})",
            copt(&self.vf, rel),
            copt(&self.ex, rel),
            cbool(self.anon),
            prim,
            cbool(self.passkey),
            cbool(self.pwbad)
        )
    }
    fn password(&self, right: bool) -> &'static str {
        if !right {
            PW_BAD
        } else if self.pwbad {
            PW_LISTED
        } else {
            PW_GOOD
        }
    }
}

fn cai() -> ClientAuthInfo {
    ClientAuthInfo::new(Source::Internal, None, None, None)
}

async fn mk_account(idms: &IdmServer, n: u64, prim: Prim, pwbad: bool, n_totp: usize, passkey: bool, rng: &mut Rng) -> Acct {
    let pw = if pwbad { PW_LISTED } else { PW_GOOD };
    let mut totps = vec![];
    let cred = match prim {
        Prim::None => None,
        Prim::Pw => Some(hook::cred_new_password(pw)),
        Prim::Gen => Some(hook::cred_new_generated_password(pw)),
        Prim::Mfa { totp, seckey, backup } => {
            assert!(totp || seckey, "a stored password+MFA credential needs a TOTP or a security key");
            assert!(totp == (n_totp > 0));
            let mut c = hook::cred_new_password(pw);
            if seckey {
                c = hook::cred_add_fixture_security_key(&c, n as u8).expect("security key");
            }
            for i in 0..n_totp {
                let algo = if i == 0 { TotpAlgo::Sha256 } else { TotpAlgo::Sha1 };
                let t = Totp::new(rng.bytes(24), 30, algo, TotpDigits::Six);
                c = hook28::cred_append_totp(&c, &format!("t{}", i), t.clone());
                totps.push(t);
            }
            if backup {
                c = hook::cred_set_backup_codes(&c, &[BK_GOOD, BK_GOOD2]).expect("backup codes");
            }
            Some(c)
        }
    };
    let cred_id = cred.as_ref().map(hook28::cred_uuid);
    let uuid = Uuid::from_u128(0xc27c_27c2_0000_0000_0000_0000_0000_0000u128 + n as u128);
    let name = format!("c27person{}", n);
    let mut e: Entry<EntryInit, EntryNew> = kanidmd_lib::entry_init!(
        (Attribute::Class, EntryClass::Object.to_value()),
        (Attribute::Class, EntryClass::Account.to_value()),
        (Attribute::Class, EntryClass::Person.to_value()),
        (Attribute::Name, Value::new_iname(&name)),
        (Attribute::Uuid, Value::Uuid(uuid)),
        (Attribute::Description, Value::new_utf8s(&name)),
        (Attribute::DisplayName, Value::new_utf8s(&name))
    );
    if let Some(c) = cred {
        e.add_ava(Attribute::PrimaryCredential, Value::new_credential("primary", c));
    }
    if passkey {
        let pk_id = Uuid::from_u128(0xc27c_27c2_0000_0000_0000_0000_00ff_0000u128 + n as u128);
        e.add_ava(Attribute::PassKeys, hook::fixture_passkey_value(pk_id, 100 + n as u8));
    }
    let mut w = idms.proxy_write(duration_from_epoch_now()).await.expect("proxy_write");
    w.qs_write.internal_create(vec![e]).expect("create person");
    w.commit().expect("commit");
    Acct { name, uuid, anon: false, prim, pwbad, cred_id, totps, passkey, vf: None, ex: None }
}

async fn set_window(idms: &IdmServer, who: &mut Acct, vf: Option<u64>, ex: Option<u64>) {
    if who.vf == vf && who.ex == ex {
        return;
    }
    let mut mods = vec![Modify::Purged(Attribute::AccountValidFrom), Modify::Purged(Attribute::AccountExpire)];
    if let Some(v) = vf {
        mods.push(Modify::Present(Attribute::AccountValidFrom, Value::new_datetime_epoch(d(v))));
    }
    if let Some(x) = ex {
        mods.push(Modify::Present(Attribute::AccountExpire, Value::new_datetime_epoch(d(x))));
    }
    let mut w = idms.proxy_write(duration_from_epoch_now()).await.expect("proxy_write");
    w.qs_write.internal_modify_uuid(who.uuid, &ModifyList::new_list(mods)).expect("set window");
    w.commit().expect("commit");
    who.vf = vf;
    who.ex = ex;
}

async fn add_badlist(idms: &IdmServer, pw: &str) {
    let mut w = idms.proxy_write(duration_from_epoch_now()).await.expect("proxy_write");
    let ml = ModifyList::new_list(vec![Modify::Present(Attribute::BadlistPassword, Value::new_iutf8(pw))]);
    w.qs_write.internal_modify_uuid(UUID_SYSTEM_CONFIG, &ml).expect("badlist");
    w.commit().expect("commit");
}

// ------------------------------------------------------------------ driving one session
struct World<'i> {
    idms: &'i IdmServer,
    delayed: IdmServerDelayed,
    rt: tokio::runtime::Runtime,
}
type Txn<'i> = IdmServerAuthTransaction<'i>;

fn junk_assertion(kind: &str) -> AuthCredential {
    let j = format!(
        r#"{{"{}":{{"id":"AAECAwQFBgc","rawId":"AAECAwQFBgc","response":{{"authenticatorData":"AAECAwQFBgcICQ","clientDataJSON":"e30","signature":"AAEC","userHandle":null}},"extensions":{{}},"type":"public-key"}}}}"#,
        kind
    );
    serde_json::from_str(&j).expect("assertion json")
}

/// the TOTP code to present for `kind` at time ct, and the kind it really is (a code of an old or
/// future window can coincide with an accepted one with probability 1e-6: re-labelled then)
fn totp_code(who: &Acct, which: usize, kind: Tk, ct: u64) -> (u32, Tk) {
    let code_at = |t: &Totp, c: u64| t.do_totp_duration_from_epoch(&Duration::from_secs(c * 30)).expect("totp");
    let counter = ct / G / 30;
    let accepted: Vec<u32> = who.totps.iter().flat_map(|t| [code_at(t, counter), code_at(t, counter - 1)]).collect();
    if who.totps.is_empty() {
        return (123_456, Tk::Wrong);
    }
    let t = &who.totps[which % who.totps.len()];
    let code = match kind {
        Tk::Cur => code_at(t, counter),
        Tk::Prev => code_at(t, counter - 1),
        Tk::Old => code_at(t, counter - 2),
        Tk::Next => code_at(t, counter + 1),
        Tk::Wrong => {
            let mut w = (code_at(t, counter) + 1) % 1_000_000;
            while accepted.contains(&w) {
                w = (w + 1) % 1_000_000;
            }
            w
        }
    };
    let real_kind = if accepted.contains(&code) && !matches!(kind, Tk::Cur | Tk::Prev) { Tk::Cur } else { kind };
    (code, real_kind)
}

fn reason_of(s: &str) -> &'static str {
    match s {
        "account expired" => "RExpired",
        "invalid credential state" => "RInvalidCredState",
        "invalid credential message" => "RBadCredentials",
        "incorrect password" => "RBadPassword",
        "incorrect totp" => "RBadTotp",
        "invalid webauthn authentication" => "RBadWebauthn",
        "the credential no longer meets account policy requirements" => "RBadAccountPolicy",
        "invalid backup code" => "RBadBackupCode",
        "invalid authentication method in this context" => "RBadAuthType",
        "password is in badlist" => "RBadlist",
        "Account is temporarily locked" => "RLocked",
        _ => "ROther",
    }
}

impl<'i> World<'i> {
    /// one auth transaction serves a whole case (a transaction per call costs a millisecond)
    fn txn(&self) -> Txn<'i> {
        let idms = self.idms;
        self.rt.block_on(idms.auth()).expect("auth txn")
    }

    /// drain the delayed-action queue: (session records, backup code removals, others)
    fn drain(&mut self) -> Vec<DelayedAction> {
        use std::future::Future;
        use std::task::{Context, Poll, Waker};
        let mut all = vec![];
        loop {
            let mut buf: Vec<DelayedAction> = Vec::with_capacity(16);
            // poll the queue once, without a timer (a zero timeout costs a millisecond per call)
            let n = {
                let mut fut = std::pin::pin!(self.delayed.recv_many(&mut buf));
                let mut cx = Context::from_waker(Waker::noop());
                match fut.as_mut().poll(&mut cx) {
                    Poll::Ready(n) => n,
                    Poll::Pending => 0,
                }
            };
            if n == 0 {
                break;
            }
            all.append(&mut buf);
        }
        all
    }

    /// one `auth` call; translate the answer
    fn call(&mut self, a: &mut Txn<'i>, who: &Acct, ev: AuthEvent, ct: u64) -> (Ans, Uuid) {
        let r = self.rt.block_on(a.auth(&ev, d(ct), cai()));
        let acts = self.drain();
        let mut recs = vec![];
        let mut bkrm = 0;
        for a in acts {
            match a {
                DelayedAction::AuthSessionRecord(r) => recs.push(r),
                DelayedAction::BackupCodeRemoval(_) => bkrm += 1,
                _ => {}
            }
        }
        let mut sid = Uuid::nil();
        let (coq, txt, class) = match r {
            Ok(res) => {
                sid = res.sessionid;
                match res.state {
                    AuthState::Choose(ms) => {
                        let v: Vec<String> = ms.iter().map(|m| Mech::of_real(m).coq().to_string()).collect();
                        (capp("OChoose", &[clist_s(&v)]), format!("Choose{:?}", ms), Class::Choose)
                    }
                    AuthState::Continue(al) => {
                        let v: Vec<String> = al
                            .iter()
                            .map(|x| {
                                match x {
                                    AuthAllowed::Anonymous => "AAnonymous",
                                    AuthAllowed::BackupCode => "ABackupCode",
                                    AuthAllowed::Password => "APassword",
                                    AuthAllowed::Totp => "ATotp",
                                    AuthAllowed::SecurityKey(_) => "ASecurityKey",
                                    AuthAllowed::Passkey(_) => "APasskey",
                                }
                                .to_string()
                            })
                            .collect();
                        (capp("OContinue", &[clist_s(&v), cbool(bkrm > 0)]), format!("Continue{}{}", clist_s(&v), if bkrm > 0 { "+bkrm" } else { "" }), Class::Continue)
                    }
                    AuthState::Denied(why) => {
                        let r = reason_of(&why);
                        (capp("ODenied", &[r.to_string()]), format!("Denied({})", why), if r == "RLocked" { Class::DeniedLocked } else { Class::Denied })
                    }
                    AuthState::Success(_tok, _issue) => {
                        let rec = match recs.as_slice() {
                            [] => "None".to_string(),
                            [r] => {
                                let t = match r.type_ {
                                    AuthType::Anonymous => "TAnonymous",
                                    AuthType::Password => "TPassword",
                                    AuthType::GeneratedPassword => "TGeneratedPassword",
                                    AuthType::PasswordTotp => "TPasswordTotp",
                                    AuthType::PasswordBackupCode => "TPasswordBackupCode",
                                    AuthType::PasswordSecurityKey => "TPasswordSecurityKey",
                                    AuthType::Passkey => "TPasskey",
                                    AuthType::AttestedPasskey => "TAttestedPasskey",
                                    AuthType::OAuth2Trust => "TAnonymous",
                                };
                                let (s, sok) = match r.scope {
                                    SessionScope::ReadOnly => ("ScReadOnly", true),
                                    SessionScope::ReadWrite => ("ScReadWrite", true),
                                    SessionScope::PrivilegeCapable => ("ScPrivilegeCapable", true),
                                    SessionScope::Synchronise => ("ScReadOnly", false),
                                };
                                let ok = sok && r.target_uuid == who.uuid && Some(r.cred_id) == who.cred_id && !matches!(r.type_, AuthType::OAuth2Trust);
                                format!("(Some ({}, {}, {}))", t, s, cbool(ok))
                            }
                            _ => "(Some (TAnonymous, ScReadOnly, false))".to_string(),
                        };
                        recs.clear();
                        (capp("OSuccess", &[rec.clone()]), format!("Success{}", rec), Class::Success)
                    }
                    AuthState::External(_) => ("(OErr EOther)".to_string(), "External".to_string(), Class::Err),
                }
            }
            Err(e) => {
                let (c, t) = match e {
                    OperationError::InvalidAuthState(_) => ("EInvalidAuthState", "Err(InvalidAuthState)".to_string()),
                    OperationError::AU0001InvalidState => ("EInvalidState", "Err(AU0001InvalidState)".to_string()),
                    OperationError::InvalidSessionState => ("EInvalidSessionState", "Err(InvalidSessionState)".to_string()),
                    other => ("EOther", format!("Err({:?})", other)),
                };
                (capp("OErr", &[c.to_string()]), t, Class::Err)
            }
        };
        // a session record or backup-code removal queued by a call that did not report it
        let stray = !recs.is_empty() || (bkrm > 0 && class != Class::Continue);
        if stray {
            return (Ans { coq: "(OErr EOther)".to_string(), txt: format!("{}+STRAY-DELAYED-ACTION", txt), class: Class::Err }, sid);
        }
        (Ans { coq, txt, class }, sid)
    }

    fn init(&mut self, a: &mut Txn<'i>, who: &Acct, ct: u64, privileged: bool) -> (Ans, Uuid) {
        let ev = AuthEvent::from_message(
            None,
            AuthStep::Init2 { username: who.name.clone(), issue: AuthIssueSession::Token, privileged }.into(),
        )
        .expect("init ev");
        self.call(a, who, ev, ct)
    }

    /// returns the answer and the step as really presented (TOTP kind after re-labelling)
    fn step(&mut self, a: &mut Txn<'i>, who: &Acct, sid: Uuid, s: Step, ct: u64, variant: usize) -> (Ans, Step) {
        let (astep, real) = match s {
            Step::Begin(m) => (AuthStep::Begin(m.real()), s),
            Step::Cred(c) => {
                let (cred, real) = match c {
                    Cred::Anonymous => (AuthCredential::Anonymous, c),
                    Cred::Password(right) => (AuthCredential::Password(who.password(right).to_string()), c),
                    Cred::Totp(k) => {
                        let (code, rk) = totp_code(who, variant, k, ct);
                        (AuthCredential::Totp(code), Cred::Totp(rk))
                    }
                    Cred::Backup(right) => (
                        AuthCredential::BackupCode(if right { if variant % 2 == 0 { BK_GOOD } else { BK_GOOD2 } } else { BK_BAD }.to_string()),
                        c,
                    ),
                    Cred::SecurityKeyJunk => (junk_assertion("securitykey"), c),
                    Cred::PasskeyJunk => (junk_assertion("passkey"), c),
                };
                (AuthStep::Cred(cred), Step::Cred(real))
            }
        };
        let ev = AuthEvent::from_message(Some(sid), astep.into()).expect("step ev");
        let (ans, _) = self.call(a, who, ev, ct);
        (ans, real)
    }
}

fn step_coq(s: Step, locked: bool) -> String {
    match s {
        Step::Begin(m) => capp("SBegin", &[m.coq().to_string(), cbool(locked)]),
        Step::Cred(c) => {
            let cc = match c {
                Cred::Anonymous => "CAnonymous".to_string(),
                Cred::Password(r) => format!("(CPassword {})", cbool(r)),
                Cred::Totp(k) => format!("(CTotp {})", match k { Tk::Cur => "KCur", Tk::Prev => "KPrev", Tk::Old => "KOld", Tk::Next => "KNext", Tk::Wrong => "KWrong" }),
                Cred::Backup(r) => format!("(CBackup {})", cbool(r)),
                Cred::SecurityKeyJunk => "(CSecurityKey false)".to_string(),
                Cred::PasskeyJunk => "(CPasskey PkError)".to_string(),
            };
            capp("SCred", &[cc, cbool(locked)])
        }
    }
}

/// a recorded session
struct Sess {
    ct: u64,
    privileged: bool,
    init: Ans,
    evs: Vec<(Step, bool, Ans)>,
}
impl Sess {
    fn coq(&self) -> String {
        let evs: Vec<String> = self.evs.iter().map(|(s, l, a)| format!("({}, {})", step_coq(*s, *l), a.coq)).collect();
        format!("(mksess {} {} {} {})", cn(self.ct - BASE * G), cbool(self.privileged), self.init.coq, clist_s(&evs))
    }
    fn txt(&self) -> String {
        let mut t = format!("init@{}{}=>{}", self.ct - BASE * G, if self.privileged { "(priv)" } else { "" }, self.init.txt);
        for (s, l, a) in &self.evs {
            t.push_str(&format!(" | {:?}{}=>{}", s, if *l { "[locked]" } else { "" }, a.txt));
        }
        t
    }
    fn nontrivial(&self) -> bool {
        self.evs.iter().any(|(s, _, a)| matches!(s, Step::Cred(_)) && a.class != Class::Err)
    }
}

/// the generator's view of the session phase, read off the real answers
#[derive(Clone, Copy, PartialEq, Eq, Debug)]
enum Phase {
    Init,
    InProgress(Mech),
    Dead,
}
fn phase_after(p: Phase, s: Step, a: &Ans) -> Phase {
    match (p, s, a.class) {
        (_, _, Class::Denied) | (_, _, Class::DeniedLocked) | (_, _, Class::Success) => Phase::Dead,
        (Phase::Init, Step::Begin(m), Class::Continue) => Phase::InProgress(m),
        (Phase::Init, Step::Begin(_), Class::Err) => Phase::Dead,
        (p, _, _) => p,
    }
}

struct Gen<'i> {
    w: World<'i>,
    sink: Sink,
    slot: u64,
    days: Vec<u64>,
    tmax: u64,
}
impl<'i> Gen<'i> {
    /// a fresh day for this account: nothing this harness did before can still hold (or count
    /// towards) a soft lock on its credential; `slot` numbers all sessions of the run
    fn fresh_time(&mut self, ai: usize) -> u64 {
        self.slot += 1;
        while self.days.len() <= ai {
            self.days.push(0);
        }
        self.days[ai] += 1;
        let secs = BASE + self.days[ai] * DAY + 3600;
        assert!(secs < 18_000_000_000, "too many sessions for one account: times leave the u64 nanosecond range");
        self.tmax = self.tmax.max(secs);
        if self.slot % 2000 == 0 {
            // all earlier sessions are finished: drop them from the server's session table
            let mut a = self.w.txn();
            self.w.rt.block_on(a.expire_auth_sessions(d(self.tmax * G)));
        }
        secs * G
    }

    /// run one plain session: Init at t0 (+jitter), step i at t0 + 2(i+1) s
    fn run_plain(&mut self, who: &Acct, t0: u64, privileged: bool, steps: &[Step], variant: usize) -> (Sess, Phase) {
        let mut a = self.w.txn();
        let (init, sid) = self.w.init(&mut a, who, t0, privileged);
        let mut phase = if init.class == Class::Choose { Phase::Init } else { Phase::Dead };
        let mut evs = vec![];
        for (i, s) in steps.iter().enumerate() {
            let ct = t0 + 2 * (i as u64 + 1) * G + (variant as u64 % 7) * 100_000_000;
            let (ans, real) = self.w.step(&mut a, who, sid, *s, ct, variant + i);
            phase = phase_after(phase, real, &ans);
            evs.push((real, false, ans));
        }
        (Sess { ct: t0, privileged, init, evs }, phase)
    }

    fn emit_sess(&mut self, tag: &str, who: &Acct, s: &Sess) {
        self.sink.bump(tag);
        for (_, _, a) in &s.evs {
            self.sink.bump(match a.class {
                Class::Success => "answers_success",
                Class::Denied => "answers_denied",
                Class::DeniedLocked => "answers_denied_locked",
                Class::Continue => "answers_continue",
                Class::Err => "answers_error",
                Class::Choose => "answers_choose",
            });
        }
        self.sink.case(capp("CSess", &[who.coq(), s.coq()]), format!("{} {} {:?}: {}", tag, who.name, who.prim, s.txt()), s.nontrivial());
    }
}

fn alphabet(p: Phase, full: bool) -> Vec<Step> {
    match p {
        // before a mechanism is chosen every credential step is refused alike: three representatives
        Phase::Init => {
            let mut v: Vec<Step> = MECHS.iter().map(|m| Step::Begin(*m)).collect();
            if full {
                v.extend(CREDS.iter().map(|c| Step::Cred(*c)));
            } else {
                v.extend([Step::Cred(Cred::Password(true)), Step::Cred(Cred::Totp(Tk::Cur)), Step::Cred(Cred::Anonymous)]);
            }
            v
        }
        Phase::InProgress(m) => {
            let mut v: Vec<Step> = CREDS.iter().map(|c| Step::Cred(*c)).collect();
            if full {
                v.extend(MECHS.iter().map(|m| Step::Begin(*m)));
            } else {
                v.extend([Step::Begin(m), Step::Begin(if m == Mech::Password { Mech::Passkey } else { Mech::Password })]);
            }
            v
        }
        // after the end: one more step of each sort, never deeper
        Phase::Dead => vec![Step::Begin(Mech::Password), Step::Begin(Mech::PasswordTotp), Step::Cred(Cred::Password(true)), Step::Cred(Cred::Totp(Tk::Cur))],
    }
}

fn main() {
    // every auth call logs several lines; keep the harness log (and the run time) small
    std::env::set_var("RUST_LOG", "off");
    let args = parse_args();
    let mut rng = Rng::new(args.seed);
    let mut sink = Sink::new(&args, "KV.C27.Model", 400);
    sink.rule = "one case = one authentication session (CSess) or two interleaved sessions of one account (CInter) on a real in-memory IdmServer, driven through auth Init/Begin/Cred. \
(1) exhaustive: for each of 13 account shapes (no credential, password, generated password, badlisted password, password+TOTP, +2 TOTP, +TOTP+backup codes, badlisted password+TOTP+backup, password+security key, password+TOTP+backup+security key+passkey, passkey only, password+passkey, anonymous; WebAuthn keys are fixtures no authenticator holds) every step sequence up to length 4 (quick; length 3 for six of the shapes) / 5 (thorough) over {7 mechanisms} x {anonymous, right/wrong password, TOTP of current/previous/older/next window/wrong, right/wrong backup code, junk security-key and passkey assertions}, pruned: before a mechanism is chosen 3 representative credential steps, while in progress 2 representative Begin steps, after the session ended exactly one further step (4 representatives); \
(2) validity: sessions begun 1 ns before / exactly at / after valid_from and expire; (3) soft lock: sessions begun, continued or re-begun within / exactly at / just after one second of a failure on the same credential, and random interleavings of two sessions; (4) random sequences up to length 10 over the full alphabet. \
non-trivial = at least one credential step was processed by a handler (answered Success, Continue or Denied)".into();
    let rt = tokio::runtime::Builder::new_current_thread().enable_all().build().expect("rt");
    let (idms, delayed, _audit) = rt.block_on(setup_idm_test(TestConfiguration::default()));
    rt.block_on(add_badlist(&idms, PW_LISTED));

    // ---------------------------------------------------------------- accounts
    // (primary credential, password badlisted, number of TOTPs, has a passkey)
    let shapes: Vec<(Prim, bool, usize, bool)> = vec![
        (Prim::None, false, 0, false),
        (Prim::Pw, false, 0, false),
        (Prim::Gen, false, 0, false),
        (Prim::Pw, true, 0, false),
        (Prim::Mfa { totp: true, seckey: false, backup: false }, false, 1, false),
        (Prim::Mfa { totp: true, seckey: false, backup: false }, false, 2, false),
        (Prim::Mfa { totp: true, seckey: false, backup: true }, false, 1, false),
        (Prim::Mfa { totp: true, seckey: false, backup: true }, true, 1, false),
        // fixture WebAuthn credentials: the mechanisms are offered, every assertion fails
        (Prim::Mfa { totp: false, seckey: true, backup: false }, false, 0, false),
        (Prim::Mfa { totp: true, seckey: true, backup: true }, false, 1, true),
        (Prim::None, false, 0, true),
        (Prim::Pw, false, 0, true),
    ];
    let mut accts: Vec<Acct> = vec![];
    for (i, (p, bad, nt, pk)) in shapes.iter().enumerate() {
        accts.push(rt.block_on(mk_account(&idms, i as u64, *p, *bad, *nt, *pk, &mut rng)));
    }
    accts.push(Acct { name: "anonymous".to_string(), uuid: UUID_ANONYMOUS, anon: true, prim: Prim::None, pwbad: false, cred_id: None, totps: vec![], passkey: false, vf: None, ex: None });

    let mut g = Gen { w: World { idms: &idms, delayed, rt }, sink, slot: 0, days: vec![], tmax: 0 };
    let _ = g.w.drain();

    // ---------------------------------------------------------------- (1) exhaustive, pruned
    for ai in 0..accts.len() {
        // quick: the shapes that differ from a sibling only in an oracle (badlisted password, a second
        // TOTP) or in the WebAuthn fixture are explored one step less deep
        let depth = if args.thorough { 5 } else if [3usize, 5, 7, 10, 11, 12].contains(&ai) { 3 } else { 4 };
        // level by level: (sequence, phase after it)
        let mut level: Vec<(Vec<Step>, Phase, bool)> = vec![(vec![], Phase::Init, false)];
        for dlev in 0..depth {
            let mut next = vec![];
            for (seq, phase, was_dead) in &level {
                if *was_dead {
                    continue; // already took its one extra step
                }
                for s in alphabet(*phase, false) {
                    let mut seq2 = seq.clone();
                    seq2.push(s);
                    let t0 = g.fresh_time(ai);
                    let privileged = (g.slot % 3) == 0;
                    let variant = g.slot as usize;
                    let (sess, ph2) = g.run_plain(&accts[ai], t0, privileged, &seq2, variant);
                    let leaf = *phase == Phase::Dead || dlev + 1 == depth;
                    if leaf {
                        g.emit_sess("exhaustive", &accts[ai], &sess);
                    }
                    next.push((seq2, ph2, *phase == Phase::Dead));
                }
            }
            level = next;
        }
    }

    // ---------------------------------------------------------------- (2) validity windows
    let paths: Vec<Vec<Step>> = vec![
        vec![Step::Begin(Mech::Password), Step::Cred(Cred::Password(true))],
        vec![Step::Begin(Mech::PasswordTotp), Step::Cred(Cred::Totp(Tk::Cur)), Step::Cred(Cred::Password(true))],
        vec![Step::Begin(Mech::PasswordBackupCode), Step::Cred(Cred::Backup(true)), Step::Cred(Cred::Password(true))],
        vec![Step::Begin(Mech::PasswordTotp), Step::Cred(Cred::Totp(Tk::Prev)), Step::Cred(Cred::Password(false))],
        vec![Step::Cred(Cred::Password(true)), Step::Begin(Mech::Password), Step::Cred(Cred::Password(true)), Step::Cred(Cred::Password(true))],
    ];
    // (valid_from - t0, expire - t0) in ns; None = unset
    let h = 3600 * G as i64;
    let windows: Vec<(Option<i64>, Option<i64>)> = vec![
        (Some(1), None),
        (Some(0), None),
        (Some(-1), None),
        (Some(G as i64), None),
        (None, Some(-1)),
        (None, Some(0)),
        (None, Some(1)),
        (None, Some(-(G as i64))),
        (Some(-h), Some(h)),
        (Some(0), Some(0)),
        (Some(-h), Some(-1)),
        (Some(1), Some(h)),
        (Some(h), Some(-h)),
        // begun inside the window, finished after its end (steps are 2 s apart)
        (None, Some(3 * G as i64)),
        (Some(-h), Some(G as i64)),
    ];
    let reps = if args.thorough { 3 } else { 1 };
    // the anonymous account has its own (credential-free) path; it must obey its window too
    let anon_paths: Vec<Vec<Step>> = vec![
        vec![Step::Begin(Mech::Anonymous), Step::Cred(Cred::Anonymous)],
        vec![Step::Cred(Cred::Anonymous), Step::Begin(Mech::Anonymous)],
    ];
    let anon_ai = accts.len() - 1;
    for ai in [1usize, 4, 6, anon_ai] {
        let paths = if ai == anon_ai { &anon_paths } else { &paths };
        for _ in 0..reps {
            for (vf, ex) in &windows {
                for p in paths {
                    let t0 = g.fresh_time(ai);
                    let abs = |o: &Option<i64>| o.map(|x| (t0 as i64 + x) as u64);
                    let rtm = &g.w.rt;
                    rtm.block_on(set_window(&idms, &mut accts[ai], abs(vf), abs(ex)));
                    let variant = g.slot as usize;
                    let (sess, _) = g.run_plain(&accts[ai], t0, variant % 2 == 0, p, variant);
                    g.emit_sess("validity", &accts[ai], &sess);
                }
            }
        }
        let rtm = &g.w.rt;
        rtm.block_on(set_window(&idms, &mut accts[ai], None, None));
    }

    // ---------------------------------------------------------------- (3) soft lock and interleaving
    // steps of two sessions A (index 0) and B (index 1) of one account at explicit offsets from t0
    let n_inter = if args.thorough { 6000 } else { 1000 };
    let gaps: [u64; 7] = [G / 4, G / 2, G - 1, G, G + 1, 2 * G, 5 * G / 2];
    for k in 0..n_inter {
        let ai = *rng.pick(&[1usize, 2, 3, 4, 5, 6, 7, 9]);
        let who = &accts[ai];
        let t0 = g.fresh_time(ai);
        let mut t = t0;
        let pa = rng.chance(1, 2);
        let pb = rng.chance(1, 2);
        let mut txn = g.w.txn();
        let (init_a, sid_a) = g.w.init(&mut txn, who, t, pa);
        t += 1 + rng.below(1000);
        let (init_b, sid_b) = g.w.init(&mut txn, who, t, pb);
        let ct_b = t;
        let mut sa = Sess { ct: t0, privileged: pa, init: init_a, evs: vec![] };
        let mut sb = Sess { ct: ct_b, privileged: pb, init: init_b, evs: vec![] };
        let sids = [sid_a, sid_b];
        let mut phases = [Phase::Init, Phase::Init];
        let mut locked_until: Option<u64> = None;
        let mut failures = 0;
        let mut order = vec![];
        let n_steps = rng.range(3, 9);
        // the mechanisms this account really offers, to bias towards live sessions
        let offered: Vec<Mech> = match who.prim {
            Prim::Pw | Prim::Gen => vec![Mech::Password],
            Prim::Mfa { totp, seckey, backup } => {
                let mut v = vec![];
                if totp { v.push(Mech::PasswordTotp) }
                if backup { v.push(Mech::PasswordBackupCode) }
                if seckey { v.push(Mech::PasswordSecurityKey) }
                v
            }
            Prim::None => vec![],
        };
        for _ in 0..n_steps {
            if failures >= 2 {
                break; // a third failure would lengthen the lock (C28's business)
            }
            let which = if k % 5 == 0 { 0 } else { rng.below(2) as usize };
            t += *rng.pick(&gaps);
            let s = match phases[which] {
                Phase::Init => {
                    if rng.chance(5, 6) { Step::Begin(*rng.pick(&offered)) } else { Step::Cred(*rng.pick(&CREDS)) }
                }
                Phase::InProgress(m) => {
                    // mostly the credential the handler is waiting for, right or wrong
                    let evs = if which == 0 { &sa.evs } else { &sb.evs };
                    let continued = evs.iter().any(|(s, _, a)| matches!(s, Step::Cred(_)) && a.class == Class::Continue);
                    let want = match (m, continued) {
                        (Mech::PasswordTotp, false) => Cred::Totp(*rng.pick(&[Tk::Cur, Tk::Prev, Tk::Wrong, Tk::Old])),
                        (Mech::PasswordBackupCode, false) => Cred::Backup(rng.chance(2, 3)),
                        _ => Cred::Password(rng.chance(2, 3)),
                    };
                    match rng.below(8) {
                        0 => Step::Begin(*rng.pick(&MECHS)),
                        1 => Step::Cred(*rng.pick(&CREDS)),
                        _ => Step::Cred(want),
                    }
                }
                Phase::Dead => {
                    if rng.chance(1, 2) { Step::Begin(*rng.pick(&MECHS)) } else { Step::Cred(*rng.pick(&CREDS)) }
                }
            };
            let locked = locked_until.map(|u| t <= u).unwrap_or(false);
            let (a, real) = g.w.step(&mut txn, who, sids[which], s, t, k as usize);
            // a failure is recorded when a credential step of a soft-lockable handler is denied by the handler
            if let (Phase::InProgress(m), Step::Cred(_), Class::Denied) = (phases[which], real, a.class) {
                if m.softlockable() {
                    locked_until = Some(t + G);
                    failures += 1;
                }
            }
            phases[which] = phase_after(phases[which], real, &a);
            if a.class == Class::DeniedLocked {
                g.sink.bump("lock_refusals");
            }
            order.push(cbool(which == 1));
            if which == 0 { sa.evs.push((real, locked, a)) } else { sb.evs.push((real, locked, a)) }
        }
        g.sink.bump("interleaved");
        let nontrivial = sa.nontrivial() || sb.nontrivial();
        let coq = capp("CInter", &[who.coq(), sa.coq(), sb.coq(), clist_s(&order)]);
        let txt = format!("interleaved {} {:?}: A: {} || B: {} || order {}", who.name, who.prim, sa.txt(), sb.txt(), clist_s(&order));
        g.sink.case(coq, txt, nontrivial);
    }

    // ---------------------------------------------------------------- (4) random long sequences
    let n_rand = if args.thorough { 30000 } else { 4000 };
    for k in 0..n_rand {
        let ai = rng.below(accts.len() as u64) as usize;
        let len = rng.range(1, 10) as usize;
        let mut steps = vec![];
        let flavour = rng.below(3);
        for _ in 0..len {
            let s = if flavour == 0 {
                // uniform over the whole alphabet
                if rng.chance(1, 3) { Step::Begin(*rng.pick(&MECHS)) } else { Step::Cred(*rng.pick(&CREDS)) }
            } else {
                // mostly plausible material
                match rng.below(10) {
                    0 => Step::Begin(*rng.pick(&MECHS)),
                    1 | 2 => Step::Begin(*rng.pick(&[Mech::Password, Mech::PasswordTotp, Mech::PasswordBackupCode, Mech::Anonymous])),
                    3 | 4 => Step::Cred(Cred::Password(rng.chance(3, 4))),
                    5 | 6 => Step::Cred(Cred::Totp(*rng.pick(&[Tk::Cur, Tk::Prev, Tk::Old, Tk::Next, Tk::Wrong]))),
                    7 => Step::Cred(Cred::Backup(rng.chance(3, 4))),
                    8 => Step::Cred(Cred::Anonymous),
                    _ => Step::Cred(*rng.pick(&CREDS)),
                }
            };
            steps.push(s);
        }
        let t0 = g.fresh_time(ai);
        let (sess, _) = g.run_plain(&accts[ai], t0, rng.chance(1, 2), &steps, k as usize);
        g.emit_sess("random", &accts[ai], &sess);
    }

    g.sink.finish();
}
