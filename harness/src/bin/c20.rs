//! C20 stub (being written)
use kanidmd_lib::verif_hooks::c20::base_pre_create_transform;
fn main() {
    let _ = base_pre_create_transform;
}
