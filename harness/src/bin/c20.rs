//! C20 — uuids are immutable and the system uuid range is protected.
//!
//! Drives REAL QueryServers (fresh in-memory server per history) through random histories of
//! create / modify / batch_modify / delete requests issued by the internal system identity, a
//! read-write user and a read-only user, where the user's group holds ONE access control profile
//! chosen by the history's configuration (grant-everything most of the time).  After every request
//! the answer and a view of the directory (checksums of the reserved uuid range, the state of
//! every tracked uuid) are recorded.  The Coq model (KV.C20.Model) replays the same history
//! (`agree`); `pcheck` evaluates the property on the implementation's own observations.
//! The Base plugin's create-side checks are additionally run in isolation through a hook
//! (`CBase` cases), because in the full create path the access module refuses reserved uuids first.
use kanidmd_lib::entry::{Entry, EntryInit, EntryNew};
use kanidmd_lib::prelude::*;
use kanidmd_lib::testkit::{setup_test, TestConfiguration};
use kanidmd_lib::valueset::{ValueSet, ValueSetUtf8, ValueSetUuid};
use kanidmd_lib::verif_hooks::c20::base_pre_create_transform;
use kanidmd_lib::{filter, filter_all};
use kvh::*;
use std::collections::BTreeMap;

const ANON: u128 = 0x0000_ffff_ffff_ffff;
const DNE: u128 = 0x0000_ffff_ffff_fffe;
const DYN_MIN: u128 = 0x0001_0000_0000_0000;
const U_USER: u128 = 0xc20c_20c2_0000_4000_8000_0000_0000_0001;
const U_GROUP: u128 = 0xc20c_20c2_0000_4000_8000_0000_0000_0002;
const U_ACP: u128 = 0xc20c_20c2_0000_4000_8000_0000_0000_0003;
const T_BASE: u128 = 0xc20c_20c2_0000_4000_8000_0000_0000_0100;
const R0: u128 = 0xc200_0007; // a reserved-range entry created by the system identity in the set-up
const STANDIN_INIT: u128 = 1 << 120;
const STANDIN_GEN: u128 = 1 << 121;

const PROT_CLASSES: [EntryClass; 8] = [
    EntryClass::System,
    EntryClass::DomainInfo,
    EntryClass::SystemInfo,
    EntryClass::SystemConfig,
    EntryClass::DynGroup,
    EntryClass::SyncObject,
    EntryClass::Tombstone,
    EntryClass::Recycled,
];

#[derive(Clone, Copy, Debug, PartialEq)]
enum Ident {
    System,
    User(bool),
}
#[derive(Clone, Debug)]
struct Cent {
    uuids: Vec<u128>,
    prot: bool,
}
#[derive(Clone, Debug)]
enum Modi {
    Present(bool, u128), // (is uuid attr, value)
    Removed(bool, u128),
    Purged(bool),
    Set(bool, u128),
    AssertUuid(u128),
}
#[derive(Clone, Debug)]
enum Target {
    Uuids(Vec<u128>),
    All,
}
#[derive(Clone, Debug)]
enum Op {
    Create(Vec<Cent>),
    Modify(Target, Vec<Modi>),
    Batch(Vec<(u128, Vec<Modi>)>),
    Delete(Target),
}
#[derive(Clone, Copy, Debug)]
struct Cfg {
    mod_uuid: bool,
    mod_other: bool,
    create: bool,
    create_uuid: bool,
    delete: bool,
}

fn err_code(e: &OperationError) -> &'static str {
    match e {
        OperationError::EmptyRequest => "EEmpty",
        OperationError::NoMatchingEntries => "ENoMatch",
        OperationError::AccessDenied => "EDenied",
        OperationError::MissingEntries => "EMissing",
        OperationError::ModifyAssertionFailed => "EAssert",
        OperationError::SystemProtectedAttribute => "ESysProt",
        OperationError::SchemaViolation(_) => "ESchema",
        OperationError::Plugin(PluginError::Base(m)) => match m.as_str() {
            "Uuid has multiple values" => "EBaseMulti",
            "Uuid duplicate detected in request" => "EBaseDupReq",
            "Uuid must not be in protected range" => "EBaseRange",
            "Attempt to create UUID_DOES_NOT_EXIST" => "EBaseDNE",
            "Uuid duplicate found in database" => "EBaseDupDb",
            _ => "EOther",
        },
        _ => "EOther",
    }
}

fn uu(u: u128) -> Uuid {
    Uuid::from_u128(u)
}

fn mk_entry(name: &str, c: &Cent) -> Entry<EntryInit, EntryNew> {
    let mut e: Entry<EntryInit, EntryNew> = kanidmd_lib::entry_init!(
        (Attribute::Class, EntryClass::Object.to_value()),
        (Attribute::Class, EntryClass::Group.to_value()),
        (Attribute::Name, Value::new_iname(name))
    );
    for u in &c.uuids {
        e.add_ava(Attribute::Uuid, Value::Uuid(uu(*u)));
    }
    if c.prot {
        e.add_ava(Attribute::Class, EntryClass::System.to_value());
    }
    e
}

fn mk_mod(m: &Modi) -> Modify {
    let a = |is_uuid: bool| if is_uuid { Attribute::Uuid } else { Attribute::Description };
    match m {
        Modi::Present(true, v) => Modify::Present(Attribute::Uuid, Value::Uuid(uu(*v))),
        Modi::Present(false, _) => Modify::Present(Attribute::Description, Value::new_utf8s("d")),
        Modi::Removed(true, v) => Modify::Removed(Attribute::Uuid, PartialValue::Uuid(uu(*v))),
        Modi::Removed(false, _) => Modify::Removed(Attribute::Description, PartialValue::new_utf8s("d")),
        Modi::Purged(b) => Modify::Purged(a(*b)),
        Modi::Set(true, v) => Modify::Set(Attribute::Uuid, ValueSetUuid::new(uu(*v)) as ValueSet),
        Modi::Set(false, _) => Modify::Set(Attribute::Description, ValueSetUtf8::new("d".to_string()) as ValueSet),
        Modi::AssertUuid(v) => Modify::Assert(Attribute::Uuid, PartialValue::Uuid(uu(*v))),
    }
}
fn mk_ml(ml: &[Modi]) -> ModifyList<ModifyInvalid> {
    ModifyList::new_list(ml.iter().map(mk_mod).collect())
}
fn mk_filter(t: &Target) -> Filter<FilterInvalid> {
    match t {
        Target::All => filter!(f_pres(Attribute::Class)),
        Target::Uuids(us) => filter!(f_or(us.iter().map(|u| f_eq(Attribute::Uuid, PartialValue::Uuid(uu(*u)))).collect())),
    }
}

// ------------------------------------------------------------------ Coq printers
fn c_ident(i: Ident) -> String {
    match i {
        Ident::System => "ISystem".into(),
        Ident::User(rw) => capp("IUser", &[cbool(rw)]),
    }
}
fn c_cent(c: &Cent, gen: u128) -> String {
    capp("mkcent", &[clist(&c.uuids, |u| cn128(*u)), cn128(gen), cbool(c.prot)])
}
fn c_attr(b: bool) -> String {
    if b { "AUuid".into() } else { "AOther".into() }
}
fn c_modi(m: &Modi) -> String {
    match m {
        Modi::Present(a, v) => capp("MPresent", &[c_attr(*a), cn128(*v)]),
        Modi::Removed(a, v) => capp("MRemoved", &[c_attr(*a), cn128(*v)]),
        Modi::Purged(a) => capp("MPurged", &[c_attr(*a)]),
        Modi::Set(a, v) => capp("MSet", &[c_attr(*a), cn128(*v)]),
        Modi::AssertUuid(v) => capp("MAssertUuid", &[cn128(*v)]),
    }
}
fn c_target(t: &Target) -> String {
    match t {
        Target::All => "TAll".into(),
        Target::Uuids(us) => capp("TUuids", &[clist(us, |u| cn128(*u))]),
    }
}
fn c_op(o: &Op, gens: &[u128]) -> String {
    match o {
        Op::Create(es) => {
            let v: Vec<String> = es.iter().zip(gens.iter()).map(|(c, g)| c_cent(c, *g)).collect();
            capp("OCreate", &[clist_s(&v)])
        }
        Op::Modify(t, ml) => capp("OModify", &[c_target(t), clist(ml, c_modi)]),
        Op::Batch(ms) => capp("OBatch", &[clist(ms, |(u, ml)| format!("({}, {})", cn128(*u), clist(ml, c_modi)))]),
        Op::Delete(t) => capp("ODelete", &[c_target(t)]),
    }
}
#[derive(Clone, Debug, PartialEq)]
struct Obs {
    live: (u128, u64),
    rec: (u128, u64),
    track: Vec<u64>,
}
fn c_obs(o: &Obs) -> String {
    format!(
        "(({}, {}), ({}, {}), {})",
        cn128(o.live.0),
        cn(o.live.1),
        cn128(o.rec.0),
        cn(o.rec.1),
        clist(&o.track, |s| cn(*s))
    )
}

// ------------------------------------------------------------------ server access
/// (uuid, protected class, live) of every entry, recycled ones included, sorted by uuid
async fn listing(qs: &QueryServer) -> Vec<(u128, bool, bool)> {
    let mut r = qs.read().await.expect("read");
    let es = r.internal_search(filter_all!(f_pres(Attribute::Class))).expect("listing");
    let mut v: Vec<(u128, bool, bool)> = es
        .iter()
        .map(|e| {
            let dead = e.attribute_equality(Attribute::Class, &EntryClass::Recycled.into())
                || e.attribute_equality(Attribute::Class, &EntryClass::Tombstone.into());
            let prot = PROT_CLASSES.iter().any(|c| e.attribute_equality(Attribute::Class, &(*c).into()));
            (e.get_uuid().as_u128(), prot, !dead)
        })
        .collect();
    v.sort();
    v
}
fn observe(l: &[(u128, bool, bool)], track: &[u128]) -> Obs {
    let mut live = (0u128, 0u64);
    let mut rec = (0u128, 0u64);
    for (u, _, alive) in l {
        if *u < DYN_MIN {
            if *alive {
                live = (live.0 + u, live.1 + 1);
            } else {
                rec = (rec.0 + u, rec.1 + 1);
            }
        }
    }
    let track = track
        .iter()
        .map(|t| {
            let m: Vec<_> = l.iter().filter(|x| x.0 == *t).collect();
            match m.len() {
                0 => 2,
                1 => if m[0].2 { 0 } else { 1 },
                _ => 3, // two entries with one uuid: outside the model
            }
        })
        .collect();
    Obs { live, rec, track }
}

fn acp_entry(g: &Cfg) -> Entry<EntryInit, EntryNew> {
    let mut e: Entry<EntryInit, EntryNew> = kanidmd_lib::entry_init!(
        (Attribute::Class, EntryClass::Object.to_value()),
        (Attribute::Class, EntryClass::AccessControlProfile.to_value()),
        (Attribute::Class, EntryClass::AccessControlTargetScope.to_value()),
        (Attribute::Class, EntryClass::AccessControlReceiverGroup.to_value()),
        (Attribute::Class, EntryClass::AccessControlSearch.to_value()),
        (Attribute::Name, Value::new_iname("c20_acp")),
        (Attribute::Uuid, Value::Uuid(uu(U_ACP))),
        (Attribute::AcpReceiverGroup, Value::Refer(uu(U_GROUP))),
        (Attribute::AcpTargetScope, Value::new_json_filter_s("{\"pres\":\"class\"}").expect("filter")),
        (Attribute::AcpSearchAttr, Value::from(Attribute::Name)),
        (Attribute::AcpSearchAttr, Value::from(Attribute::Class)),
        (Attribute::AcpSearchAttr, Value::from(Attribute::Uuid)),
        (Attribute::AcpSearchAttr, Value::from(Attribute::Description))
    );
    if g.mod_uuid || g.mod_other {
        e.add_ava(Attribute::Class, EntryClass::AccessControlModify.to_value());
        if g.mod_uuid {
            e.add_ava(Attribute::AcpModifyPresentAttr, Value::from(Attribute::Uuid));
            e.add_ava(Attribute::AcpModifyRemovedAttr, Value::from(Attribute::Uuid));
        }
        if g.mod_other {
            e.add_ava(Attribute::AcpModifyPresentAttr, Value::from(Attribute::Description));
            e.add_ava(Attribute::AcpModifyRemovedAttr, Value::from(Attribute::Description));
        }
    }
    if g.create {
        e.add_ava(Attribute::Class, EntryClass::AccessControlCreate.to_value());
        e.add_ava(Attribute::AcpCreateClass, EntryClass::Object.to_value());
        e.add_ava(Attribute::AcpCreateClass, EntryClass::Group.to_value());
        e.add_ava(Attribute::AcpCreateClass, EntryClass::System.to_value());
        e.add_ava(Attribute::AcpCreateAttr, Value::from(Attribute::Class));
        e.add_ava(Attribute::AcpCreateAttr, Value::from(Attribute::Name));
        e.add_ava(Attribute::AcpCreateAttr, Value::from(Attribute::Description));
        if g.create_uuid {
            e.add_ava(Attribute::AcpCreateAttr, Value::from(Attribute::Uuid));
        }
    }
    if g.delete {
        e.add_ava(Attribute::Class, EntryClass::AccessControlDelete.to_value());
    }
    e
}

/// fresh server + test user, its group, the profile, four target entries and one reserved entry
async fn new_server(g: &Cfg) -> QueryServer {
    let qs = setup_test(TestConfiguration::default()).await;
    let mut w = qs.write(duration_from_epoch_now()).await.expect("write");
    let user: Entry<EntryInit, EntryNew> = kanidmd_lib::entry_init!(
        (Attribute::Class, EntryClass::Object.to_value()),
        (Attribute::Class, EntryClass::Account.to_value()),
        (Attribute::Class, EntryClass::ServiceAccount.to_value()),
        (Attribute::Name, Value::new_iname("c20_user")),
        (Attribute::DisplayName, Value::new_utf8s("c20 user")),
        (Attribute::Uuid, Value::Uuid(uu(U_USER)))
    );
    let group: Entry<EntryInit, EntryNew> = kanidmd_lib::entry_init!(
        (Attribute::Class, EntryClass::Object.to_value()),
        (Attribute::Class, EntryClass::Group.to_value()),
        (Attribute::Name, Value::new_iname("c20_group")),
        (Attribute::Uuid, Value::Uuid(uu(U_GROUP))),
        (Attribute::Member, Value::Refer(uu(U_USER)))
    );
    let mut es = vec![user, group, acp_entry(g)];
    for k in 0..4u128 {
        es.push(mk_entry(&format!("c20_t{}", k), &Cent { uuids: vec![T_BASE + k], prot: k == 3 }));
    }
    es.push(mk_entry("c20_r0", &Cent { uuids: vec![R0], prot: false }));
    w.internal_create(es).expect("setup create");
    w.commit().expect("setup commit");
    qs
}

async fn user_ident(w: &mut QueryServerWriteTransaction<'_>, rw: bool) -> Identity {
    let e = w.internal_search_uuid(uu(U_USER)).expect("test user");
    let i = Identity::from_impersonate_entry_readwrite(e);
    if rw { i } else { i.project_with_scope(AccessScope::ReadOnly) }
}
fn system_ident() -> Identity {
    CreateEvent::new_internal(vec![]).ident
}

/// run one request in its own write transaction; commit on success, drop otherwise.
/// returns the result constructor and, for creates, the per entry generated uuid stand-ins
async fn run_op(qs: &QueryServer, id: Ident, op: &Op, names: &mut u64, gen_ctr: &mut u128) -> (String, Vec<u128>) {
    let mut w = qs.write(duration_from_epoch_now()).await.expect("write");
    let ident = match id {
        Ident::System => system_ident(),
        Ident::User(rw) => user_ident(&mut w, rw).await,
    };
    let mut gens: Vec<u128> = vec![];
    let r: Result<(), OperationError> = match op {
        Op::Create(cs) => {
            let entries: Vec<_> = cs
                .iter()
                .map(|c| {
                    *names += 1;
                    mk_entry(&format!("c20_n{}", names), c)
                })
                .collect();
            let ce = CreateEvent { ident, entries, return_created_uuids: true };
            match w.create(&ce) {
                Ok(created) => {
                    let created = created.unwrap_or_default();
                    for (k, c) in cs.iter().enumerate() {
                        if c.uuids.is_empty() {
                            // canonical stand-in for a generated uuid of the dynamic range; the raw
                            // value if the server generated one inside the reserved range
                            let g = created.get(k).map(|u| u.as_u128()).unwrap_or(0);
                            *gen_ctr += 1;
                            gens.push(if g >= DYN_MIN { STANDIN_GEN + *gen_ctr } else { g });
                        } else {
                            gens.push(0);
                        }
                    }
                    Ok(())
                }
                Err(e) => {
                    for _ in cs {
                        *gen_ctr += 1;
                        gens.push(STANDIN_GEN + *gen_ctr);
                    }
                    Err(e)
                }
            }
        }
        Op::Modify(t, ml) => {
            let f = mk_filter(t);
            match id {
                Ident::System => w.internal_modify(&f, &mk_ml(ml)),
                Ident::User(_) => match ModifyEvent::from_internal_parts(ident, &mk_ml(ml), &f, &w) {
                    Ok(me) => w.modify(&me),
                    Err(e) => Err(e),
                },
            }
        }
        Op::Batch(ms) => {
            let mut modset = BTreeMap::new();
            let mut bad = None;
            for (u, ml) in ms {
                match mk_ml(ml).validate(w.get_schema()) {
                    Ok(v) => {
                        modset.insert(uu(*u), v);
                    }
                    Err(e) => bad = Some(OperationError::SchemaViolation(e)),
                }
            }
            match bad {
                Some(e) => Err(e),
                None => w.batch_modify(&BatchModifyEvent { ident, modset }),
            }
        }
        Op::Delete(t) => {
            let f = mk_filter(t);
            match id {
                Ident::System => w.internal_delete(&f),
                Ident::User(_) => match DeleteEvent::from_parts(ident, &f, &mut w) {
                    Ok(de) => w.delete(&de),
                    Err(e) => Err(e),
                },
            }
        }
    };
    match r {
        Ok(()) => {
            w.commit().expect("commit");
            ("ROk".to_string(), gens)
        }
        Err(e) => {
            drop(w);
            (err_code(&e).to_string(), gens)
        }
    }
}

// ------------------------------------------------------------------ generators
fn gen_modi(rng: &mut Rng, vals: &[u128], own: u128) -> Modi {
    let v = if rng.chance(1, 3) { own } else { *rng.pick(vals) };
    match rng.below(12) {
        0 | 1 => Modi::Present(true, v),
        2 | 3 => Modi::Removed(true, v),
        4 => Modi::Purged(true),
        5 | 6 => Modi::Set(true, v),
        7 => Modi::AssertUuid(own),
        8 => Modi::AssertUuid(v),
        9 => Modi::Present(false, 0),
        10 => Modi::Set(false, 0),
        _ => {
            if rng.chance(1, 2) { Modi::Purged(false) } else { Modi::Removed(false, 0) }
        }
    }
}
fn gen_ml(rng: &mut Rng, vals: &[u128], own: u128, allow_empty: bool) -> Vec<Modi> {
    let n = if allow_empty && rng.chance(1, 10) { 0 } else { rng.range(1, 3) };
    let mut ml: Vec<Modi> = (0..n).map(|_| gen_modi(rng, vals, own)).collect();
    // every mod kind on the uuid attribute alone, often
    if n == 1 && rng.chance(1, 2) {
        ml = vec![match rng.below(4) {
            0 => Modi::Present(true, *rng.pick(vals)),
            1 => Modi::Removed(true, own),
            2 => Modi::Purged(true),
            _ => Modi::Set(true, *rng.pick(vals)),
        }];
    }
    ml
}

fn main() {
    let args = parse_args();
    let mut rng = Rng::new(args.seed);
    let mut sink = Sink::new(&args, "KV.C20.Model", 100);
    sink.rule = "hist: fresh in-memory server per history; a service-account user whose group holds one access control profile \
(grant-everything in 60% of the histories, else each of modify-uuid / modify-other / create / create-with-uuid / delete switched at random); \
8..24 requests by the system identity, the read-write user or the read-only user: creates of 1..3 entries with no / one / two uuid values drawn \
from {0, 1, 0xc2000007, 0xc2000001, 2^48-3, UUID_DOES_NOT_EXIST, UUID_ANONYMOUS, 2^48, 2^48+1, fresh dynamic, existing}, modifies and batch modifies with every \
modify kind (present, removed, purged, set, assert) on uuid and on description, deletes of test entries and of built-in entries (sampled so that \
all are covered across histories, plus `pres class` = everything). base: Base::pre_create_transform alone (hook) on all 1- and 2-entry requests \
over the uuid choices x {internal, user}. non-trivial = history in which a user request reached the uuid-modification guard, tried to create inside \
the reserved range and tried to delete a built-in entry / base request touching the reserved range or a duplicate".into();
    let rt = tokio::runtime::Builder::new_current_thread().enable_all().build().expect("rt");

    // ---------------------------------------------------------------- constants
    sink.case(
        capp("CConst", &[cn128(UUID_ANONYMOUS.as_u128()), cn128(UUID_DOES_NOT_EXIST.as_u128()), cn128(DYNAMIC_RANGE_MINIMUM_UUID.as_u128())]),
        format!("const anon={} dne={} dynmin={}", UUID_ANONYMOUS.as_u128(), UUID_DOES_NOT_EXIST.as_u128(), DYNAMIC_RANGE_MINIMUM_UUID.as_u128()),
        true,
    );
    sink.bump("const");

    let all_cfg = Cfg { mod_uuid: true, mod_other: true, create: true, create_uuid: true, delete: true };

    // cases are collected first and written interleaved, so that every shard holds some histories
    let mut base_cases: Vec<(String, String, bool)> = vec![];
    let mut hist_cases: Vec<(String, String, bool)> = vec![];

    // ---------------------------------------------------------------- Base plugin alone
    {
        let qs = rt.block_on(new_server(&all_cfg));
        let choices: Vec<Vec<u128>> = vec![
            vec![],
            vec![0],
            vec![1],
            vec![R0],
            vec![0xc200_0001],
            vec![DNE - 1],
            vec![DNE],
            vec![ANON],
            vec![DYN_MIN],
            vec![DYN_MIN + 1],
            vec![T_BASE],
            vec![T_BASE + 0x50],
            vec![u128::MAX],
            vec![DYN_MIN + 5, DYN_MIN + 6],
        ];
        // which single uuids of the pool exist in the database (recycled ones included)
        let l = rt.block_on(listing(&qs));
        let mut existing: Vec<u128> = choices.iter().filter(|c| c.len() == 1).map(|c| c[0]).filter(|u| l.iter().any(|x| x.0 == *u)).collect();
        existing.sort();
        let mut reqs: Vec<Vec<Cent>> = vec![];
        for a in &choices {
            reqs.push(vec![Cent { uuids: a.clone(), prot: false }]);
            for b in &choices {
                reqs.push(vec![Cent { uuids: a.clone(), prot: false }, Cent { uuids: b.clone(), prot: false }]);
            }
        }
        let n_rand = if args.thorough { 1500 } else { 200 };
        for _ in 0..n_rand {
            let n = rng.range(3, 5);
            reqs.push((0..n).map(|_| Cent { uuids: rng.pick(&choices).clone(), prot: false }).collect());
        }
        let mut names = 0u64;
        for req in &reqs {
            for intern in [true, false] {
                let (r, out, gens) = rt.block_on(async {
                    let mut w = qs.write(duration_from_epoch_now()).await.expect("write");
                    let ident = if intern { system_ident() } else { user_ident(&mut w, true).await };
                    let entries: Vec<_> = req
                        .iter()
                        .map(|c| {
                            names += 1;
                            mk_entry(&format!("c20_b{}", names), c)
                        })
                        .collect();
                    let ce = CreateEvent { ident, entries, return_created_uuids: false };
                    let res = base_pre_create_transform(&mut w, &ce);
                    drop(w);
                    let mut gens = vec![];
                    match res {
                        Ok(v) => {
                            let mut out = vec![];
                            for (k, c) in req.iter().enumerate() {
                                let (u, b) = v.get(k).cloned().unwrap_or((None, false));
                                let u = u.map(|x| x.as_u128()).unwrap_or(u128::MAX - 1);
                                if c.uuids.is_empty() {
                                    let g = if u >= DYN_MIN { STANDIN_GEN + k as u128 + 1 } else { u };
                                    gens.push(g);
                                    out.push((g, b));
                                } else {
                                    gens.push(0);
                                    out.push((u, b));
                                }
                            }
                            ("ROk".to_string(), out, gens)
                        }
                        Err(e) => {
                            for (k, _) in req.iter().enumerate() {
                                gens.push(STANDIN_GEN + k as u128 + 1);
                            }
                            (err_code(&e).to_string(), vec![], gens)
                        }
                    }
                });
                let ces: Vec<String> = req.iter().zip(gens.iter()).map(|(c, g)| c_cent(c, *g)).collect();
                let nontrivial = req.iter().any(|c| c.uuids.iter().any(|u| *u < DYN_MIN)) || r != "ROk";
                base_cases.push((
                    capp("CBase", &[cbool(intern), clist(&existing, |u| cn128(*u)), clist_s(&ces), r.clone(), clist(&out, |(u, b)| format!("({}, {})", cn128(*u), cbool(*b)))]),
                    format!("base intern={} req={:?} -> {} {:?}", intern, req.iter().map(|c| c.uuids.clone()).collect::<Vec<_>>(), r, out),
                    nontrivial,
                ));
                sink.bump(&format!("base_{}", r));
            }
        }
    }

    // ---------------------------------------------------------------- histories
    let n_hist = if args.thorough { 260 } else { 36 };
    for hid in 0..n_hist {
        let g = if hid == 0 || rng.chance(3, 5) {
            all_cfg
        } else {
            Cfg { mod_uuid: rng.chance(1, 2), mod_other: rng.chance(1, 2), create: rng.chance(2, 3), create_uuid: rng.chance(2, 3), delete: rng.chance(2, 3) }
        };
        let qs = rt.block_on(new_server(&g));
        let l0 = rt.block_on(listing(&qs));
        // built-in entries: everything of the reserved range
        let builtin: Vec<u128> = l0.iter().filter(|x| x.0 < DYN_MIN).map(|x| x.0).collect();
        let n_b = builtin.len();
        // this history's sample of built-in entries (a sliding window covers all of them across histories)
        let per = (n_b + n_hist - 1) / n_hist.max(1) + 2;
        let mut bsample: Vec<u128> = (0..per).map(|k| builtin[(hid * per + k) % n_b]).collect();
        bsample.push(*rng.pick(&builtin));
        bsample.push(UUID_IDM_ADMINS.as_u128());
        // both ends of the reserved range that hold an entry: admin (0) and anonymous (2^48-1)
        bsample.push(0);
        bsample.push(ANON);
        let fresh: Vec<u128> = (0..5u128).map(|k| T_BASE + 0x10 + k).collect();
        let targets: Vec<u128> = (0..4u128).map(|k| T_BASE + k).collect();
        let create_pool: Vec<u128> = {
            let mut v = vec![0, 1, R0, 0xc200_0001, DNE - 1, DNE, ANON, DYN_MIN, DYN_MIN + 1, T_BASE];
            v.extend(fresh.iter());
            v
        };
        let mut track: Vec<u128> = vec![U_USER, U_GROUP, U_ACP];
        track.extend(create_pool.iter());
        track.extend(targets.iter());
        track.extend(bsample.iter());
        track.sort();
        track.dedup();
        // values used inside modlists
        let mut vals: Vec<u128> = vec![0, 1, ANON, DYN_MIN, T_BASE + 0x40, u128::MAX];
        vals.extend(targets.iter());
        // owned test entries the system identity may modify or delete without harming the server
        let mut owned: Vec<u128> = targets.clone();
        owned.push(R0);
        owned.extend(fresh.iter());
        owned.push(DYN_MIN);
        owned.push(DYN_MIN + 1);

        // canonical initial listing: unknown random (v4) uuids become stand-ins
        let mut init: Vec<(u128, bool, bool)> = vec![];
        let mut unknown: Vec<(bool, bool)> = vec![];
        for (u, p, a) in &l0 {
            if *u >= (1u128 << 76) && (*u >> 96) != (T_BASE >> 96) {
                unknown.push((*p, *a));
            } else {
                init.push((*u, *p, *a));
            }
        }
        unknown.sort();
        for (k, (p, a)) in unknown.iter().enumerate() {
            init.push((STANDIN_INIT + k as u128, *p, *a));
        }
        let o0 = observe(&l0, &track);

        let len = rng.range(8, if args.thorough { 30 } else { 24 }) as usize;
        let mut names = 0u64;
        let mut gen_ctr = 0u128;
        let mut steps: Vec<String> = vec![];
        let mut txt = format!("hist cfg={:?}:", g);
        let (mut saw_guard, mut saw_resv_create, mut saw_builtin_delete) = (false, false, false);
        for _ in 0..len {
            let id = match rng.below(10) {
                0 | 1 => Ident::System,
                2 => Ident::User(false),
                _ => Ident::User(true),
            };
            let is_sys = id == Ident::System;
            let op = match rng.below(20) {
                0..=5 => {
                    let n = rng.range(1, 3);
                    Op::Create(
                        (0..n)
                            .map(|_| {
                                let dynp: Vec<u128> = [fresh.clone(), vec![DYN_MIN, DYN_MIN + 1]].concat();
                                let cp: &Vec<u128> = if rng.chance(1, 2) { &dynp } else { &create_pool };
                                let uuids = match rng.below(10) {
                                    0 => vec![],
                                    1 => vec![*rng.pick(cp), *rng.pick(cp)],
                                    _ => vec![*rng.pick(cp)],
                                };
                                let mut uuids = uuids;
                                uuids.dedup();
                                Cent { uuids, prot: rng.chance(1, 10) }
                            })
                            .collect(),
                    )
                }
                6..=11 => {
                    let pool: Vec<u128> = if is_sys { owned.clone() } else if rng.chance(2, 3) { targets.clone() } else { [owned.clone(), bsample.clone(), vec![U_USER, U_GROUP, U_ACP]].concat() };
                    let t = if !is_sys && rng.chance(1, 15) {
                        Target::All
                    } else {
                        let mut us: Vec<u128> = (0..rng.range(1, 2)).map(|_| *rng.pick(&pool)).collect();
                        us.dedup();
                        Target::Uuids(us)
                    };
                    let own = match &t { Target::Uuids(us) => us[0], Target::All => T_BASE };
                    Op::Modify(t, gen_ml(&mut rng, &vals, own, true))
                }
                12..=14 => {
                    let pool: Vec<u128> = if is_sys { owned.clone() } else if rng.chance(1, 2) { targets.clone() } else { [owned.clone(), bsample.clone()].concat() };
                    let mut keys: Vec<u128> = (0..rng.range(1, 3)).map(|_| *rng.pick(&pool)).collect();
                    keys.sort();
                    keys.dedup();
                    Op::Batch(keys.iter().map(|k| (*k, gen_ml(&mut rng, &vals, *k, true))).collect())
                }
                _ => {
                    let pool: Vec<u128> = if is_sys { owned.clone() } else if rng.chance(1, 3) { [targets.clone(), fresh.clone()].concat() } else { [owned.clone(), bsample.clone(), bsample.clone()].concat() };
                    if !is_sys && rng.chance(1, 10) {
                        Op::Delete(Target::All)
                    } else {
                        let mut us: Vec<u128> = (0..rng.range(1, 2)).map(|_| *rng.pick(&pool)).collect();
                        us.dedup();
                        Op::Delete(Target::Uuids(us))
                    }
                }
            };
            let (r, gens) = rt.block_on(run_op(&qs, id, &op, &mut names, &mut gen_ctr));
            let l = rt.block_on(listing(&qs));
            let ob = observe(&l, &track);
            if !is_sys {
                match &op {
                    Op::Create(cs) => {
                        if cs.iter().any(|c| c.uuids.iter().any(|u| *u < DYN_MIN)) {
                            saw_resv_create = true;
                        }
                    }
                    Op::Delete(Target::All) => saw_builtin_delete = true,
                    Op::Delete(Target::Uuids(us)) => {
                        if us.iter().any(|u| *u < DYN_MIN && l0.iter().any(|x| x.0 == *u)) {
                            saw_builtin_delete = true;
                        }
                    }
                    _ => {}
                }
                if r == "ESysProt" {
                    saw_guard = true;
                }
            }
            sink.bump(&format!(
                "op_{}_{}_{}",
                match id { Ident::System => "sys", Ident::User(true) => "rw", Ident::User(false) => "ro" },
                match &op { Op::Create(_) => "create", Op::Modify(..) => "modify", Op::Batch(_) => "batch", Op::Delete(_) => "delete" },
                r
            ));
            steps.push(format!("({}, {}, {}, {})", c_ident(id), c_op(&op, &gens), r, c_obs(&ob)));
            let _ = std::fmt::Write::write_fmt(&mut txt, format_args!(" [{:?} {:?} => {} {:?}]", id, op, r, ob));
        }
        let init_s = clist(&init, |(u, p, a)| capp("mkent", &[cn128(*u), cbool(*p), if *a { "Live".into() } else { "Recycled".to_string() }]));
        let cfg_s = capp("mkcfg", &[cbool(g.mod_uuid), cbool(g.mod_other), cbool(g.create), cbool(g.create_uuid), cbool(g.delete)]);
        hist_cases.push((
            capp("CHist", &[cfg_s, clist(&track, |u| cn128(*u)), init_s, c_obs(&o0), clist_s(&steps)]),
            txt,
            saw_guard && saw_resv_create && saw_builtin_delete,
        ));
        sink.bump("hist");
        sink.add_stat("builtin_entries_seen", n_b as u64);
        drop(qs);
    }
    let per = (base_cases.len() / hist_cases.len().max(1)).max(1);
    let mut hi = hist_cases.into_iter();
    for (k, (c, t, n)) in base_cases.into_iter().enumerate() {
        if k % per == 0 {
            if let Some((hc, ht, hn)) = hi.next() {
                sink.case(hc, ht, hn);
            }
        }
        sink.case(c, t, n);
    }
    for (hc, ht, hn) in hi {
        sink.case(hc, ht, hn);
    }
    sink.finish();
}
