//! C41 — LDAP and SCIM filters mean what their standards say.
//!
//! One real in-memory QueryServer. A small population (groups, posix groups, persons with
//! several mail addresses, one recycled person) is created; every entry is read back and
//! printed with the values the server actually stores. Random LDAP filter trees are run
//! through the search `LdapServer::do_search` assembles (hook `verif_hooks::c41::ldap_search`:
//! Filter::from_ldap_ro -> validate -> into_ignore_hidden -> search_ext), random SCIM filter
//! trees through the public `scim_search_ext` (Filter::from_scim_ro -> scim_search_filter_ext),
//! both for an internal identity whose only finite limit is the filter element budget.
use kanidm_proto::internal::Filter as ProtoFilter;
use kanidm_proto::scim_v1::{AttrPath, ScimComplexFilter, ScimEntryGetQuery, ScimFilter};
use kanidmd_lib::entry::{Entry, EntryInit, EntryNew};
use kanidmd_lib::prelude::*;
use kanidmd_lib::schema::SchemaTransaction;
use kanidmd_lib::testkit::{setup_test, TestConfiguration};
use kanidmd_lib::verif_hooks::c41::{ident_limits, ldap_attr_map, ldap_search, HookLdapFilter as LF};
use kvh::*;
use serde_json::Value as J;

const BASEU: u128 = (1u128 << 48) + 0x1000;
fn uu(k: u128) -> Uuid {
    Uuid::from_u128(BASEU + 16 * k)
}

fn cs(x: &str) -> String {
    assert!(!x.contains('"') && x.is_ascii(), "unprintable string {x:?}");
    format!("(s \"{}\")", x)
}

/// modelled attributes (kanidm names)
const MATTRS: &[&str] = &[
    "name", "displayname", "description", "class", "mail", "spn", "uuid", "member", "memberof",
    "directmemberof", "entry_managed_by", "gidnumber", "legalname",
];

fn syn_coq(st: &SyntaxType) -> &'static str {
    match st {
        SyntaxType::Utf8StringIname => "SyIname",
        SyntaxType::Utf8StringInsensitive => "SyIutf8",
        SyntaxType::Utf8String => "SyUtf8",
        SyntaxType::EmailAddress => "SyEmail",
        SyntaxType::SecurityPrincipalName => "SySpn",
        SyntaxType::Uuid => "SyUuid",
        SyntaxType::ReferenceUuid => "SyRefer",
        SyntaxType::Uint32 => "SyU32",
        other => panic!("unmodelled syntax {other:?}"),
    }
}

// ------------------------------------------------------------------ LDAP filters
fn ldap_coq(f: &LF) -> String {
    let o = |x: &Option<String>| copt(x, |v| cs(v));
    match f {
        LF::And(l) => format!("(LAnd {})", clist(l, ldap_coq)),
        LF::Or(l) => format!("(LOr {})", clist(l, ldap_coq)),
        LF::Not(g) => format!("(LNot {})", ldap_coq(g)),
        LF::Eq(a, v) => format!("(LEq {} {})", cs(a), cs(v)),
        LF::Pres(a) => format!("(LPres {})", cs(a)),
        LF::Sub(a, i, m, e) => format!("(LSub {} {} {} {})", cs(a), o(i), clist(m, |v| cs(v)), o(e)),
        LF::Ge(a, v) => format!("(LGe {} {})", cs(a), cs(v)),
        LF::Le(a, v) => format!("(LLe {} {})", cs(a), cs(v)),
        LF::Approx(a, v) => format!("(LApprox {} {})", cs(a), cs(v)),
        LF::Ext(a, v) => format!("(LExt {} {})", cs(a), cs(v)),
    }
}
fn ldap_txt(f: &LF) -> String {
    match f {
        LF::And(l) => format!("(&{})", l.iter().map(ldap_txt).collect::<String>()),
        LF::Or(l) => format!("(|{})", l.iter().map(ldap_txt).collect::<String>()),
        LF::Not(g) => format!("(!{})", ldap_txt(g)),
        LF::Eq(a, v) => format!("({a}={v})"),
        LF::Pres(a) => format!("({a}=*)"),
        LF::Sub(a, i, m, e) => {
            let mut s = format!("({a}={}*", i.clone().unwrap_or_default());
            for x in m {
                s.push_str(x);
                s.push('*');
            }
            s.push_str(&e.clone().unwrap_or_default());
            s.push(')');
            s
        }
        LF::Ge(a, v) => format!("({a}>={v})"),
        LF::Le(a, v) => format!("({a}<={v})"),
        LF::Approx(a, v) => format!("({a}~={v})"),
        LF::Ext(a, v) => format!("({a}:={v})"),
    }
}

struct Pools {
    /// (ldap attribute names, value pool, substring piece pool)
    ldap: Vec<(Vec<&'static str>, Vec<String>, Vec<String>)>,
    /// (kanidm attribute name, json string pool)
    scim: Vec<(&'static str, Vec<String>)>,
}

fn gen_ldap_leaf(rng: &mut Rng, w: &Pools) -> LF {
    let (names, vals, pieces) = rng.pick(&w.ldap);
    let a = rng.pick(names).to_string();
    let v = rng.pick(vals).clone();
    match rng.below(20) {
        0..=6 => LF::Eq(a, v),
        7..=8 => LF::Pres(a),
        9..=17 => {
            // substring: shapes with 0..4 parts
            let shape = rng.below(10);
            let pc = |rng: &mut Rng| rng.pick(pieces).clone();
            let (i, m, e) = match shape {
                0 => (Some(pc(rng)), vec![], None),
                1 => (None, vec![pc(rng)], None),
                2 => (None, vec![], Some(pc(rng))),
                3 => (Some(pc(rng)), vec![], Some(pc(rng))),
                4 => (None, vec![pc(rng), pc(rng)], None),
                5 => (Some(pc(rng)), vec![pc(rng)], None),
                6 => (None, vec![pc(rng)], Some(pc(rng))),
                7 => (Some(pc(rng)), vec![pc(rng)], Some(pc(rng))),
                8 => (None, vec![pc(rng), pc(rng), pc(rng)], None),
                _ => {
                    if rng.chance(1, 3) {
                        (None, vec![], None)
                    } else {
                        (Some(pc(rng)), vec![pc(rng), pc(rng)], Some(pc(rng)))
                    }
                }
            };
            LF::Sub(a, i, m, e)
        }
        18 => match rng.below(4) {
            0 => LF::Ge(a, v),
            1 => LF::Le(a, v),
            2 => LF::Approx(a, v),
            _ => LF::Ext(a, v),
        },
        _ => LF::Eq(a, v),
    }
}
fn gen_ldap(rng: &mut Rng, w: &Pools, depth: u32, maxw: u64) -> LF {
    if depth == 0 || rng.chance(2, 5) {
        return gen_ldap_leaf(rng, w);
    }
    match rng.below(7) {
        0..=2 => {
            let n = if rng.chance(1, 25) { 0 } else { rng.range(1, maxw) };
            LF::And((0..n).map(|_| gen_ldap(rng, w, depth - 1, maxw)).collect())
        }
        3..=4 => {
            let n = if rng.chance(1, 25) { 0 } else { rng.range(1, maxw) };
            LF::Or((0..n).map(|_| gen_ldap(rng, w, depth - 1, maxw)).collect())
        }
        _ => LF::Not(Box::new(gen_ldap(rng, w, depth - 1, maxw))),
    }
}

// ------------------------------------------------------------------ SCIM filters
#[derive(Clone, Debug)]
enum SJ {
    Str(String),
    Bool(bool),
    Num(u64),
    Null,
}
#[derive(Clone, Debug)]
enum SF {
    Pres(String, bool),
    Cmp(&'static str, String, bool, SJ),
    Not(Box<SF>),
    Or(Box<SF>, Box<SF>),
    And(Box<SF>, Box<SF>),
    Complex(String),
}
fn sj_json(j: &SJ) -> J {
    match j {
        SJ::Str(x) => J::String(x.clone()),
        SJ::Bool(b) => J::Bool(*b),
        SJ::Num(n) => J::Number((*n).into()),
        SJ::Null => J::Null,
    }
}
fn sj_coq(j: &SJ) -> String {
    match j {
        SJ::Str(x) => format!("(JStr {})", cs(x)),
        SJ::Bool(b) => format!("(JBool {})", cbool(*b)),
        SJ::Num(n) => format!("(JNum {})", cn(*n)),
        SJ::Null => "JNull".into(),
    }
}
fn ap(a: &str, sub: bool) -> AttrPath {
    AttrPath { a: Attribute::from(a), s: if sub { Some("value".into()) } else { None } }
}
fn to_scim(f: &SF) -> ScimFilter {
    match f {
        SF::Pres(a, sub) => ScimFilter::Present(ap(a, *sub)),
        SF::Cmp(o, a, sub, j) => {
            let p = ap(a, *sub);
            let v = sj_json(j);
            match *o {
                "eq" => ScimFilter::Equal(p, v),
                "ne" => ScimFilter::NotEqual(p, v),
                "co" => ScimFilter::Contains(p, v),
                "sw" => ScimFilter::StartsWith(p, v),
                "ew" => ScimFilter::EndsWith(p, v),
                "gt" => ScimFilter::Greater(p, v),
                "lt" => ScimFilter::Less(p, v),
                "ge" => ScimFilter::GreaterOrEqual(p, v),
                _ => ScimFilter::LessOrEqual(p, v),
            }
        }
        SF::Not(g) => ScimFilter::Not(Box::new(to_scim(g))),
        SF::Or(l, r) => ScimFilter::Or(Box::new(to_scim(l)), Box::new(to_scim(r))),
        SF::And(l, r) => ScimFilter::And(Box::new(to_scim(l)), Box::new(to_scim(r))),
        SF::Complex(a) => ScimFilter::Complex(Attribute::from(a.as_str()), Box::new(ScimComplexFilter::Present("value".into()))),
    }
}
fn scim_coq(f: &SF) -> String {
    match f {
        SF::Pres(a, sub) => format!("(SPres {} {})", cs(a), cbool(*sub)),
        SF::Cmp(o, a, sub, j) => {
            let oc = match *o {
                "eq" => "OEq", "ne" => "ONe", "co" => "OCo", "sw" => "OSw", "ew" => "OEw",
                "gt" => "OGt", "lt" => "OLt", "ge" => "OGe", _ => "OLe",
            };
            format!("(SCmp {} {} {} {})", oc, cs(a), cbool(*sub), sj_coq(j))
        }
        SF::Not(g) => format!("(SNot {})", scim_coq(g)),
        SF::Or(l, r) => format!("(SOr {} {})", scim_coq(l), scim_coq(r)),
        SF::And(l, r) => format!("(SAnd {} {})", scim_coq(l), scim_coq(r)),
        SF::Complex(a) => format!("(SComplex {})", cs(a)),
    }
}
fn scim_txt(f: &SF) -> String {
    match f {
        SF::Pres(a, sub) => format!("({a}{} pr)", if *sub { ".value" } else { "" }),
        SF::Cmp(o, a, sub, j) => format!("({a}{} {o} {})", if *sub { ".value" } else { "" }, sj_json(j)),
        SF::Not(g) => format!("(not {})", scim_txt(g)),
        SF::Or(l, r) => format!("({} or {})", scim_txt(l), scim_txt(r)),
        SF::And(l, r) => format!("({} and {})", scim_txt(l), scim_txt(r)),
        SF::Complex(a) => format!("{a}[value pr]"),
    }
}
fn gen_scim_leaf(rng: &mut Rng, w: &Pools) -> SF {
    let (a, vals) = rng.pick(&w.scim);
    let a = a.to_string();
    let sub = rng.chance(1, 40);
    if rng.chance(1, 60) {
        return SF::Complex(a);
    }
    if rng.chance(1, 8) {
        return SF::Pres(a, sub);
    }
    let j = match rng.below(30) {
        0 => SJ::Bool(rng.chance(1, 2)),
        1 => SJ::Num(rng.below(9000)),
        2 => SJ::Null,
        _ => SJ::Str(rng.pick(vals).clone()),
    };
    let o = *rng.pick(&["eq", "eq", "co", "sw", "ew", "gt", "gt", "lt", "lt", "ge", "ge", "le", "le", "ne"]);
    SF::Cmp(o, a, sub, j)
}
fn gen_scim(rng: &mut Rng, w: &Pools, depth: u32) -> SF {
    if depth == 0 || rng.chance(2, 5) {
        return gen_scim_leaf(rng, w);
    }
    match rng.below(7) {
        0..=2 => SF::And(Box::new(gen_scim(rng, w, depth - 1)), Box::new(gen_scim(rng, w, depth - 1))),
        3..=4 => SF::Or(Box::new(gen_scim(rng, w, depth - 1)), Box::new(gen_scim(rng, w, depth - 1))),
        _ => SF::Not(Box::new(gen_scim(rng, w, depth - 1))),
    }
}

fn base_attrs() -> std::collections::BTreeSet<String> {
    ["class", "uuid", "name"].iter().map(|x| x.to_string()).collect()
}
fn ldap_attrs(f: &LF) -> std::collections::BTreeSet<String> {
    fn go(f: &LF, out: &mut std::collections::BTreeSet<String>) {
        let val = |out: &mut std::collections::BTreeSet<String>, a: &str, vs: &[&String]| {
            out.insert(ldap_attr_map(a));
            if vs.iter().any(|v| v.contains('@')) {
                out.insert("spn".to_string());
            }
        };
        match f {
            LF::And(l) | LF::Or(l) => l.iter().for_each(|x| go(x, out)),
            LF::Not(g) => go(g, out),
            LF::Eq(a, v) | LF::Ge(a, v) | LF::Le(a, v) | LF::Approx(a, v) | LF::Ext(a, v) => val(out, a, &[v]),
            LF::Pres(a) => val(out, a, &[]),
            LF::Sub(a, i, m, e) => {
                let vs: Vec<&String> = i.iter().chain(m.iter()).chain(e.iter()).collect();
                val(out, a, &vs)
            }
        }
    }
    let mut out = base_attrs();
    go(f, &mut out);
    out
}
fn scim_attrs(f: &SF) -> std::collections::BTreeSet<String> {
    fn go(f: &SF, out: &mut std::collections::BTreeSet<String>) {
        match f {
            SF::Pres(a, _) | SF::Complex(a) => {
                out.insert(a.clone());
            }
            SF::Cmp(_, a, _, j) => {
                out.insert(a.clone());
                if let SJ::Str(v) = j {
                    if v.contains('@') {
                        out.insert("spn".to_string());
                    }
                }
            }
            SF::Not(g) => go(g, out),
            SF::Or(l, r) | SF::And(l, r) => {
                go(l, out);
                go(r, out);
            }
        }
    }
    let mut out = base_attrs();
    go(f, &mut out);
    out
}

fn err_coq(e: &OperationError) -> &'static str {
    match e {
        OperationError::ResourceLimit => "EResourceLimit",
        OperationError::FilterGeneration => "EFilterGeneration",
        OperationError::InvalidAttributeName(_) => "EInvalidAttrName",
        OperationError::InvalidAttribute(_) => "EInvalidAttribute",
        OperationError::SchemaViolation(_) => "ESchema",
        _ => "EOther",
    }
}

fn main() {
    let args = parse_args();
    let mut rng = Rng::new(args.seed);
    let mut sink = Sink::new(&args, "KV.C41.Model", 60);
    sink.import("KV.Base.Filter");
    sink.import("Coq.Strings.String");
    sink.rule = "population: 6 groups (2 posix, nested members, entry_managed_by, description), 7 persons (1-3 mail addresses, \
displayname, legalname), 1 recycled person, read back from the real server with their stored values (memberof, spn, class \
generated by the server); LDAP: random trees depth<=3/4 over and/or/not, equality, presence, substring with 0-4 parts, \
ge/le/approx/extensible, presentation names in mixed case (cn, uid, gecos, objectClass, email, entryuuid, uidnumber ...), \
unknown attributes, unparsable spn / uidnumber values, element budgets 3..40 and not-chains up to depth 14; SCIM: random trees \
over and/or/not, pr/eq/ne/co/sw/ew/gt/lt/ge/le on string, uuid and multi-valued reference attributes (member, memberof) with \
uuid and name operands, non-string json, sub-attributes, complex filters; each filter is run on the real server (from_ldap_ro / \
from_scim_ro -> validate -> search_ext) and the uuid set restricted to the population is recorded. \
non-trivial = the server accepted the filter and selected some but not all entries of the population".into();

    // ---- LDAP presentation names
    for n in [
        "cn", "CN", "Cn", "uid", "entrydn", "dn", "DN", "gecos", "Gecos", "email", "emailaddress", "emailalternative",
        "emailprimary", "entryuuid", "EntryUUID", "keys", "mail;alternative", "mail;primary", "Mail;Primary", "objectclass",
        "objectClass", "OBJECTCLASS", "sshpublickey", "sshPublicKey", "uidnumber", "uidNumber", "homedirectory",
        "homeDirectory", "pwdChangedTime", "pwdchangedtime", "name", "Name", "displayName", "mail", "member", "memberOf",
        "nosuchattr", "NoSuchAttr", "gidnumber", "spn", "class", "uuid", "ssh_publickey", "pwd_changed_time",
    ] {
        let o = ldap_attr_map(n);
        sink.case(format!("(CMap {} {})", cs(n), cs(&o)), format!("map {n} -> {o}"), n.to_lowercase() != o);
        sink.bump("attr_map");
    }

    let rt = tokio::runtime::Builder::new_current_thread().enable_all().build().expect("rt");
    let qs = rt.block_on(setup_test(TestConfiguration::default()));

    // ---- population
    let gnames = ["abab", "ba", "xab", "aba", "abcab", "cabx"];
    let pnames = ["bca", "ab", "bab", "zed", "abba", "caab", "bb", "gone"];
    let ng = gnames.len();
    let np = pnames.len();
    let gu: Vec<Uuid> = (0..ng).map(|i| uu(i as u128)).collect();
    let pu: Vec<Uuid> = (0..np).map(|i| uu((ng + i) as u128)).collect();
    let gdesc: [Option<&str>; 6] = [Some("alpha beta"), Some("beta"), None, Some("Alpha"), Some("gamma beta alpha"), None];
    let ggid: [Option<u32>; 6] = [Some(3000), None, Some(70000), None, None, None];
    // members (indices: 0..ng groups, ng.. persons)
    let gmem: [&[usize]; 6] = [&[6, 9], &[7], &[0, 8, 10], &[], &[1, 11, 12], &[6, 7, 8, 13]];
    let gmgr: [Option<usize>; 6] = [None, Some(0), Some(4), None, None, Some(2)];
    let pmail: [&[&str]; 8] = [
        &["abc@x.example", "def@y.example"],
        &["ab@x.example"],
        &[],
        &["zed@y.example", "abz@x.example", "yab@z.example"],
        &["abba@y.example"],
        &[],
        &["bb@x.example", "cab@y.example"],
        &["gone@x.example"],
    ];
    let pdisp = ["Bea Cab", "ab ba", "Bab", "zed zed", "Abba Ab", "caab", "b b", "gone"];
    let all_u: Vec<Uuid> = gu.iter().chain(pu.iter()).copied().collect();
    let reader_u = Uuid::from_u128(BASEU + 16 * 200);
    let readers_u = Uuid::from_u128(BASEU + 16 * 201);
    {
        let mut wr = rt.block_on(qs.write(duration_from_epoch_now())).expect("write");
        let mut es = vec![];
        for i in 0..np {
            let mut e: Entry<EntryInit, EntryNew> = kanidmd_lib::entry_init!(
                (Attribute::Class, EntryClass::Object.to_value()),
                (Attribute::Class, EntryClass::Account.to_value()),
                (Attribute::Class, EntryClass::Person.to_value()),
                (Attribute::Name, Value::new_iname(pnames[i])),
                (Attribute::Uuid, Value::Uuid(pu[i])),
                (Attribute::DisplayName, Value::new_utf8s(pdisp[i]))
            );
            for (k, m) in pmail[i].iter().enumerate() {
                let v = if k == 0 { Value::new_email_address_primary_s(m) } else { Value::new_email_address_s(m) };
                e.add_ava(Attribute::Mail, v.expect("mail"));
            }
            if i % 3 == 0 {
                e.add_ava(Attribute::LegalName, Value::new_utf8s(&format!("legal {}", pnames[i])));
            }
            es.push(e);
        }
        for i in 0..ng {
            let mut e: Entry<EntryInit, EntryNew> = kanidmd_lib::entry_init!(
                (Attribute::Class, EntryClass::Object.to_value()),
                (Attribute::Class, EntryClass::Group.to_value()),
                (Attribute::Name, Value::new_iname(gnames[i])),
                (Attribute::Uuid, Value::Uuid(gu[i]))
            );
            if let Some(d) = gdesc[i] {
                e.add_ava(Attribute::Description, Value::new_utf8s(d));
            }
            if let Some(g) = ggid[i] {
                e.add_ava(Attribute::Class, EntryClass::PosixGroup.to_value());
                e.add_ava(Attribute::GidNumber, Value::Uint32(g));
            }
            for m in gmem[i] {
                e.add_ava(Attribute::Member, Value::Refer(all_u[*m]));
            }
            if let Some(m) = gmgr[i] {
                e.add_ava(Attribute::EntryManagedBy, Value::Refer(all_u[m]));
            }
            es.push(e);
        }
        // the searching account: a person outside the modelled population, its group, and a search
        // access control profile granting that group every modelled attribute on every entry
        es.push(kanidmd_lib::entry_init!(
            (Attribute::Class, EntryClass::Object.to_value()),
            (Attribute::Class, EntryClass::Account.to_value()),
            (Attribute::Class, EntryClass::Person.to_value()),
            (Attribute::Name, Value::new_iname("c41reader")),
            (Attribute::Uuid, Value::Uuid(reader_u)),
            (Attribute::DisplayName, Value::new_utf8s("c41reader"))
        ));
        es.push(kanidmd_lib::entry_init!(
            (Attribute::Class, EntryClass::Object.to_value()),
            (Attribute::Class, EntryClass::Group.to_value()),
            (Attribute::Name, Value::new_iname("c41readers")),
            (Attribute::Uuid, Value::Uuid(readers_u)),
            (Attribute::Member, Value::Refer(reader_u))
        ));
        let mut acp: Entry<EntryInit, EntryNew> = kanidmd_lib::entry_init!(
            (Attribute::Class, EntryClass::Object.to_value()),
            (Attribute::Class, EntryClass::AccessControlProfile.to_value()),
            (Attribute::Class, EntryClass::AccessControlSearch.to_value()),
            (Attribute::Class, EntryClass::AccessControlReceiverGroup.to_value()),
            (Attribute::Class, EntryClass::AccessControlTargetScope.to_value()),
            (Attribute::Name, Value::new_iname("c41acp")),
            (Attribute::Uuid, Value::Uuid(Uuid::from_u128(BASEU + 16 * 202))),
            (Attribute::Description, Value::new_utf8s("c41 read everything")),
            (Attribute::AcpReceiverGroup, Value::Refer(readers_u)),
            (Attribute::AcpTargetScope, Value::new_json_filter(ProtoFilter::Pres("class".to_string())))
        );
        for a in MATTRS {
            acp.add_ava(Attribute::AcpSearchAttr, Value::new_iutf8(a));
        }
        es.push(acp);
        wr.internal_create(es).expect("create population");
        // one recycled person
        wr.internal_delete_uuid(pu[np - 1]).expect("recycle");
        wr.commit().expect("commit");
    }

    let mut rd = rt.block_on(qs.read()).expect("read");
    let reader = rd.internal_search_uuid(reader_u).expect("reader entry");

    // ---- schema of the modelled attributes, as the server has it
    let sch_coq = {
        let schema = rd.get_schema();
        let attrs = schema.get_attributes();
        let v: Vec<String> = MATTRS
            .iter()
            .map(|a| {
                let sa = attrs.get(&Attribute::from(*a)).unwrap_or_else(|| panic!("attribute {a} not in schema"));
                format!("({}, ({}, {}))", cs(a), syn_coq(&sa.syntax), cbool(sa.multivalue))
            })
            .collect();
        clist_s(&v)
    };

    // ---- the population as stored
    let pop_f = kanidmd_lib::filter_all!(f_or(all_u.iter().map(|u| f_eq(Attribute::Uuid, PartialValue::Uuid(*u))).collect()));
    let mut stored = rd.internal_search(pop_f).expect("dump");
    stored.sort_by_key(|e| e.get_uuid());
    assert_eq!(stored.len(), all_u.len(), "population incomplete");
    let num_attr = |a: &str| matches!(a, "uuid" | "member" | "memberof" | "directmemberof" | "entry_managed_by" | "gidnumber");
    let mut pop_items: Vec<Vec<(String, String)>> = vec![];
    let mut pop_txt = vec![];
    for e in &stored {
        let mut kv = vec![];
        let mut kt = vec![];
        for a in MATTRS {
            if let Some(vs) = e.get_ava_set(Attribute::from(*a)) {
                let mut raw: Vec<String> = vs.to_proto_string_clone_iter().collect();
                raw.sort();
                raw.dedup();
                let vals: Vec<String> = raw
                    .iter()
                    .map(|x| {
                        if *a == "gidnumber" {
                            format!("(VN {})", cn(x.parse::<u64>().expect("gid")))
                        } else if num_attr(a) {
                            format!("(VN {})", cn128(Uuid::parse_str(x).unwrap_or_else(|_| panic!("uuid value {x}")).as_u128()))
                        } else {
                            format!("(VS {})", cs(x))
                        }
                    })
                    .collect();
                kv.push((a.to_string(), format!("({}, {})", cs(a), clist_s(&vals))));
                kt.push(format!("{a}={raw:?}"));
            }
        }
        pop_items.push(kv);
        pop_txt.push(kt.join(" "));
    }
    // each case carries only the attributes its filter can look at (always class, uuid, name; spn when
    // a value could be an spn) - the Coq side spends its time parsing the case text
    let pop_for = |attrs: &std::collections::BTreeSet<String>| -> String {
        let items: Vec<String> = pop_items
            .iter()
            .map(|kv| clist_s(&kv.iter().filter(|(a, _)| attrs.contains(a)).map(|(_, c)| c.clone()).collect::<Vec<_>>()))
            .collect();
        clist_s(&items)
    };
    if args.extra.iter().any(|x| x == "--dump") {
        for t in &pop_txt {
            println!("{t}");
        }
    }
    let live = all_u.len() - 1;

    // ---- value pools
    let ustr = |u: Uuid| u.as_hyphenated().to_string();
    let mut uvals: Vec<String> = all_u.iter().map(|u| ustr(*u)).collect();
    // uuids between / below / above the population, an upper-case form, names, an unknown name
    uvals.push(ustr(Uuid::from_u128(BASEU + 16 * 3 + 5)));
    uvals.push(ustr(Uuid::from_u128(BASEU + 16 * 9 + 1)));
    uvals.push(ustr(Uuid::from_u128(BASEU - 7)));
    uvals.push(ustr(Uuid::from_u128(BASEU + 16 * 40)));
    uvals.push(ustr(gu[2]).to_uppercase());
    for n in ["abab", "ab", "zed", "ABBA", "cabx", "gone", "nobody_here", "xab@example.com"] {
        uvals.push(n.to_string());
    }
    let sv = |l: &[&str]| l.iter().map(|x| x.to_string()).collect::<Vec<String>>();
    let name_vals = sv(&["abab", "ba", "ab", "aba", "ABBA", "bab", "zed", "nomatch", "abcab", "gone", "b"]);
    let name_pieces = sv(&["a", "b", "ab", "ba", "c", "x", "bab", "AB", "abab", "ca", "z"]);
    let mail_vals = sv(&["abc@x.example", "def@y.example", "ab@x.example", "yab@z.example", "nobody@x.example", "cab@y.example"]);
    let mail_pieces = sv(&["ab", "abc", "y.example", "x.example", "@x", "@y", "def", "z", "b", "example", "bb", "ca"]);
    let class_vals = sv(&["person", "group", "account", "object", "posixgroup", "memberof", "Person", "recycled", "classtype"]);
    let class_pieces = sv(&["pers", "unt", "on", "group", "o", "t", "posix", "acc", "ject", "member", "of", "p"]);
    let desc_vals = sv(&["alpha beta", "beta", "Alpha", "alpha", "gamma beta alpha", "zzz"]);
    let desc_pieces = sv(&["alpha", "beta", "a b", "ta", "al", "gamma", " ", "Be", "ha", "a"]);
    let disp_vals = sv(&["Bea Cab", "ab ba", "bab", "Bab", "zed zed", "Abba Ab", "gone"]);
    let disp_pieces = sv(&["ab", "b", "ba", "a", "zed", " ", "Ab", "ea", "d z"]);
    let spn_vals = sv(&["abab@example.com", "ab@example.com", "zed@example.com", "notanspn", "@example.com", "ab@", "x@@y", "a@b@c", "gone@example.com"]);
    let gid_vals = sv(&["3000", "70000", "5", "+3000", "notanumber", "4294967296", "03000", ""]);
    let w = Pools {
        ldap: vec![
            (vec!["name", "cn", "CN", "uid", "Name"], name_vals.clone(), name_pieces.clone()),
            (vec!["name", "cn"], name_vals.clone(), name_pieces.clone()),
            (vec!["mail", "email", "emailAddress", "mail;primary", "emailalternative"], mail_vals.clone(), mail_pieces.clone()),
            (vec!["mail", "email"], mail_vals.clone(), mail_pieces.clone()),
            (vec!["objectClass", "class", "objectclass"], class_vals.clone(), class_pieces.clone()),
            (vec!["objectClass", "class"], class_vals.clone(), class_pieces.clone()),
            (vec!["description"], desc_vals.clone(), desc_pieces.clone()),
            (vec!["displayname", "gecos", "displayName"], disp_vals.clone(), disp_pieces.clone()),
            (vec!["legalname"], sv(&["legal bca", "legal zed", "legal"]), sv(&["legal", "l b", "zed", "ca", "e"])),
            (vec!["spn"], spn_vals.clone(), sv(&["ab", "@example.com", "a"])),
            (vec!["uuid", "entryuuid", "entryUUID"], uvals.clone(), sv(&["0000", "1", "ab"])),
            (vec!["member"], uvals.clone(), sv(&["0000", "ab"])),
            (vec!["memberof", "memberOf", "directmemberof"], uvals.clone(), sv(&["0000", "ab"])),
            (vec!["entry_managed_by"], uvals.clone(), sv(&["0000"])),
            (vec!["gidnumber", "uidnumber", "uidNumber"], gid_vals.clone(), sv(&["30", "0", "7"])),
            (vec!["nosuchattr", "homedirectory_x"], sv(&["x", "ab"]), sv(&["x"])),
        ],
        scim: vec![
            ("name", name_vals.clone()),
            ("name", name_pieces.clone()),
            ("displayname", disp_vals.clone()),
            ("displayname", disp_pieces.clone()),
            ("description", desc_vals.clone()),
            ("description", desc_pieces.clone()),
            ("class", class_vals.clone()),
            ("class", class_pieces.clone()),
            ("uuid", uvals.clone()),
            ("uuid", uvals.clone()),
            ("member", uvals.clone()),
            ("member", uvals.clone()),
            ("memberof", uvals.clone()),
            ("memberof", uvals.clone()),
            ("directmemberof", uvals.clone()),
            ("entry_managed_by", uvals.clone()),
            ("entry_managed_by", uvals.clone()),
            ("mail", mail_vals.clone()),
            ("spn", spn_vals.clone()),
            ("gidnumber", gid_vals.clone()),
            ("nosuchattr", sv(&["x"])),
        ],
    };

    let probe = args.extra.iter().any(|x| x == "--probe");

    // ---- LDAP
    let run_ldap = |rd: &mut QueryServerReadTransaction, sink: &mut Sink, f: &LF, lim: u64, tag: &str| {
        let r = ldap_search(rd, ident_limits(reader.clone(), lim as usize), f);
        let (out, txt, nt) = match &r {
            Ok(us) => {
                let mut v: Vec<u128> = us.iter().filter(|u| all_u.contains(u)).map(|u| u.as_u128()).collect();
                v.sort();
                let nt = !v.is_empty() && v.len() < live;
                let t = v.iter().map(|x| ((x - BASEU) / 16).to_string()).collect::<Vec<_>>().join(",");
                (format!("(Ok {})", clist(&v, |x| cn128(*x))), format!("[{t}]"), nt)
            }
            Err(e) => (format!("(Err {})", err_coq(e)), format!("{e:?}"), false),
        };
        sink.bump(&format!("ldap_{}", if r.is_ok() { "ok" } else { err_coq(r.as_ref().err().expect("err")) }));
        sink.case(
            format!("(CLdap {} {} {} {} {})", sch_coq, pop_for(&ldap_attrs(f)), cn(lim), ldap_coq(f), out),
            format!("ldap{tag} lim={lim} {} -> {txt}", ldap_txt(f)),
            nt,
        );
        if probe {
            println!("ldap{tag} lim={lim} {} -> {txt}", ldap_txt(f));
        }
    };
    let ss = |x: &str| x.to_string();
    // fixed corpus: the shapes the property text names
    let corpus_l: Vec<LF> = vec![
        LF::Sub(ss("name"), None, vec![ss("b"), ss("a")], None),                 // order: "ab" must not match *b*a*
        LF::Sub(ss("cn"), Some(ss("ab")), vec![], Some(ss("ba"))),               // overlap: "aba" must not match ab*ba
        LF::Sub(ss("mail"), Some(ss("abc")), vec![], Some(ss("y.example"))),     // parts matched by different values
        LF::Sub(ss("objectClass"), Some(ss("pers")), vec![], Some(ss("unt"))),   // person + account
        LF::Not(Box::new(LF::Sub(ss("name"), None, vec![ss("b"), ss("a")], None))),
        LF::Sub(ss("name"), Some(ss("ab")), vec![], None),
        LF::Sub(ss("name"), None, vec![ss("ab")], None),
        LF::Sub(ss("name"), None, vec![], Some(ss("ab"))),
        LF::Not(Box::new(LF::Eq(ss("spn"), ss("notanspn")))),                    // Undefined under NOT
        LF::Eq(ss("spn"), ss("notanspn")),
        LF::Not(Box::new(LF::Sub(ss("entryuuid"), Some(ss("0000")), vec![], None))),
        LF::Not(Box::new(LF::Eq(ss("name"), ss("abab")))),
        LF::And(vec![LF::Pres(ss("mail")), LF::Not(Box::new(LF::Eq(ss("objectClass"), ss("group"))))]),
        LF::Eq(ss("member"), ss("ab")),
        LF::Eq(ss("uidNumber"), ss("3000")),
        LF::Eq(ss("uidNumber"), ss("notanumber")),
        LF::Ge(ss("gidnumber"), ss("3000")),
        LF::Le(ss("gidnumber"), ss("3000")),
        LF::Approx(ss("name"), ss("ab")),
        LF::Ext(ss("name"), ss("ab")),
        LF::And(vec![]),
        LF::Or(vec![]),
        LF::Sub(ss("name"), None, vec![], None),
        LF::Pres(ss("nosuchattr")),
        LF::Eq(ss("nosuchattr"), ss("x")),
        LF::Eq(ss("objectclass"), ss("recycled")),
    ];
    for f in &corpus_l {
        run_ldap(&mut rd, &mut sink, f, 32, "_corpus");
    }
    // depth and element budget
    for d in [4u32, 9, 10, 11, 12, 14] {
        let mut f = LF::Eq(ss("name"), ss("ab"));
        for _ in 0..d {
            f = LF::Not(Box::new(f));
        }
        run_ldap(&mut rd, &mut sink, &f, 64, "_depth");
    }
    for lim in [6u64, 7, 8, 9, 10, 11, 12] {
        let f = LF::Or(vec![LF::Eq(ss("name"), ss("ab")), LF::Pres(ss("mail")), LF::And(vec![LF::Eq(ss("cn"), ss("zed"))])]);
        run_ldap(&mut rd, &mut sink, &f, lim, "_budget");
    }
    let n_ldap = if args.thorough { 5000 } else { 800 };
    let maxd = if args.thorough { 4 } else { 3 };
    for _ in 0..n_ldap {
        let f = gen_ldap(&mut rng, &w, maxd, 3);
        let lim = if rng.chance(1, 6) { rng.range(3, 16) } else { 32 + rng.below(9) };
        run_ldap(&mut rd, &mut sink, &f, lim, "");
    }

    // ---- SCIM
    let run_scim = |rd: &mut QueryServerReadTransaction, sink: &mut Sink, f: &SF, lim: u64, tag: &str| {
        let r = rd.scim_search_ext(ident_limits(reader.clone(), lim as usize), to_scim(f), ScimEntryGetQuery::default());
        let (out, txt, nt) = match &r {
            Ok(lr) => {
                let mut v: Vec<u128> = lr.resources.iter().map(|e| e.header.id).filter(|u| all_u.contains(u)).map(|u| u.as_u128()).collect();
                v.sort();
                let nt = !v.is_empty() && v.len() < live;
                let t = v.iter().map(|x| ((x - BASEU) / 16).to_string()).collect::<Vec<_>>().join(",");
                (format!("(Ok {})", clist(&v, |x| cn128(*x))), format!("[{t}]"), nt)
            }
            Err(e) => (format!("(Err {})", err_coq(e)), format!("{e:?}"), false),
        };
        sink.bump(&format!("scim_{}", if r.is_ok() { "ok" } else { err_coq(r.as_ref().err().expect("err")) }));
        sink.case(
            format!("(CScim {} {} {} {} {})", sch_coq, pop_for(&scim_attrs(f)), cn(lim), scim_coq(f), out),
            format!("scim{tag} lim={lim} {} -> {txt}", scim_txt(f)),
            nt,
        );
        if probe {
            println!("scim{tag} lim={lim} {} -> {txt}", scim_txt(f));
        }
    };
    let js = |x: &str| SJ::Str(x.to_string());
    let mid = ustr(Uuid::from_u128(BASEU + 16 * 9 + 1));
    let corpus_s: Vec<SF> = vec![
        SF::Cmp("gt", ss("member"), false, js(&mid)),       // multi-valued: any value greater
        SF::Cmp("ge", ss("member"), false, js(&mid)),
        SF::Cmp("lt", ss("member"), false, js(&mid)),
        SF::Cmp("le", ss("member"), false, js(&mid)),
        SF::Cmp("gt", ss("memberof"), false, js(&ustr(gu[1]))),
        SF::Cmp("gt", ss("uuid"), false, js(&mid)),         // single-valued
        SF::Cmp("ge", ss("uuid"), false, js(&ustr(pu[0]))),
        SF::Cmp("lt", ss("uuid"), false, js(&ustr(pu[0]))),
        SF::Cmp("le", ss("uuid"), false, js(&ustr(pu[0]))),
        SF::Cmp("gt", ss("entry_managed_by"), false, js(&ustr(gu[1]))),
        SF::Cmp("lt", ss("name"), false, js("b")),          // strings: lexicographic
        SF::Cmp("ge", ss("name"), false, js("b")),
        SF::Cmp("gt", ss("name"), false, js("ab")),
        SF::Cmp("le", ss("name"), false, js("ab")),
        SF::Cmp("gt", ss("gidnumber"), false, SJ::Num(5000)),
        SF::Cmp("ge", ss("gidnumber"), false, js("5000")),
        SF::Cmp("eq", ss("mail"), false, js("ab@x.example")),
        SF::Cmp("ne", ss("name"), false, js("ab")),
        SF::Cmp("co", ss("name"), false, js("AB")),
        SF::Cmp("sw", ss("displayname"), false, js("ab")),
        SF::Cmp("ew", ss("class"), false, js("on")),
        SF::Cmp("co", ss("member"), false, js("0000")),
        SF::Cmp("eq", ss("member"), false, js("ab")),
        SF::Not(Box::new(SF::Cmp("eq", ss("name"), false, js("ab")))),
        SF::Pres(ss("mail"), false),
        SF::Pres(ss("mail"), true),
        SF::Complex(ss("mail")),
        SF::Pres(ss("nosuchattr"), false),
        SF::Cmp("eq", ss("name"), false, SJ::Bool(true)),
    ];
    for f in &corpus_s {
        run_scim(&mut rd, &mut sink, f, 32, "_corpus");
    }
    for d in [4u32, 10, 11, 12, 14] {
        let mut f = SF::Cmp("eq", ss("name"), false, js("ab"));
        for _ in 0..d {
            f = SF::Not(Box::new(f));
        }
        run_scim(&mut rd, &mut sink, &f, 64, "_depth");
    }
    for lim in [1u64, 2, 3, 4, 5, 6] {
        let f = SF::Or(
            Box::new(SF::Cmp("eq", ss("name"), false, js("ab"))),
            Box::new(SF::And(Box::new(SF::Pres(ss("description"), false)), Box::new(SF::Cmp("co", ss("name"), false, js("a"))))),
        );
        run_scim(&mut rd, &mut sink, &f, lim, "_budget");
    }
    let n_scim = if args.thorough { 5000 } else { 800 };
    for _ in 0..n_scim {
        let f = gen_scim(&mut rng, &w, maxd);
        let lim = if rng.chance(1, 6) { rng.range(1, 10) } else { 32 + rng.below(9) };
        run_scim(&mut rd, &mut sink, &f, lim, "");
    }
    sink.finish();
}
