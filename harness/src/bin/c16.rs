//! C16 — no dangling references.
//!
//! Part 1 (CHist): a REAL in-memory QueryServer is driven through random histories of
//! create (batches, with references) / modify (reference edits) / delete / revive /
//! purge_recycled / purge_tombstones over a closed universe of persons, groups,
//! ClientCertificate dependents (Refers) and OAuth2 clients (scope maps), every kind carrying
//! entry managers (EntryManagedBy).  One write transaction per op.  After every transaction
//! every tracked entry is read back (life-cycle state and EVERY attribute that the live schema
//! lists in `get_reference_types()`), plus a scan of the whole database for references of
//! live entries to uuids that are not live.
//! Part 2 (CRepl): the same local ops on two replicas with incremental replication in both
//! directions (concurrent delete / reference add, duplicate uuid creation = conflicts).
//!
//! The Coq model (KV.C16.Model) replays the ops (`agree`); `pcheck` scans the implementation's
//! own dumps.
use kanidm_proto::internal::FsType;
use kanidmd_lib::be::{Backend, BackendConfig};
use kanidmd_lib::entry::{Entry, EntryInit, EntryNew};
use kanidmd_lib::event::ReviveRecycledEvent;
use kanidmd_lib::prelude::*;
use kanidmd_lib::schema::{Schema, SchemaTransaction};
use kanidmd_lib::testkit::{setup_pair_test, TestConfiguration};
use kanidmd_lib::{filter, filter_all};
use kvh::*;
use std::collections::{BTreeMap, BTreeSet};
use std::panic::AssertUnwindSafe;

const CERT: &str = r#"-----BEGIN CERTIFICATE-----
MIICeDCCAh6gAwIBAgIBAjAKBggqhkjOPQQDAjCBhDELMAkGA1UEBhMCQVUxDDAK
BgNVBAgMA1FMRDEPMA0GA1UECgwGS2FuaWRtMRwwGgYDVQQDDBNLYW5pZG0gR2Vu
ZXJhdGVkIENBMTgwNgYDVQQLDC9EZXZlbG9wbWVudCBhbmQgRXZhbHVhdGlvbiAt
IE5PVCBGT1IgUFJPRFVDVElPTjAeFw0yNTA3MjkwMzMxMDNaFw0yNTA4MDMwMzMx
MDNaMHoxCzAJBgNVBAYTAkFVMQwwCgYDVQQIDANRTEQxDzANBgNVBAoMBkthbmlk
bTESMBAGA1UEAwwJbG9jYWxob3N0MTgwNgYDVQQLDC9EZXZlbG9wbWVudCBhbmQg
RXZhbHVhdGlvbiAtIE5PVCBGT1IgUFJPRFVDVElPTjBZMBMGByqGSM49AgEGCCqG
SM49AwEHA0IABPFkpVzFH+feItm9JFFm/noge+BlZLpdGWOuSUvfoivAzCgPr7Kr
nGd8kUzIyJermePzu2SVQLaEt/7GY8Ha+2ujgYkwgYYwCQYDVR0TBAIwADAOBgNV
HQ8BAf8EBAMCBaAwEwYDVR0lBAwwCgYIKwYBBQUHAwEwHQYDVR0OBBYEFOjucEtX
mj/wQ7npVaMOyDtLU6dUMB8GA1UdIwQYMBaAFNo5o+5ea0sNMlW/75VgGJCv2AcJ
MBQGA1UdEQQNMAuCCWxvY2FsaG9zdDAKBggqhkjOPQQDAgNIADBFAiEA1TACf4eS
g07LRiKhlMgA+6xxztxiZCuV6LakRp7FZdECIFp0rFSiFJdkLEO9IyqYc+zPW770
ta41VMU3u9UQfHxF
-----END CERTIFICATE-----
"#;

const NS: u64 = 1_000_000_000;

// reference attribute codes shared with KV.C16.Model
const A_MEMBER: u64 = 0;
const A_EMB: u64 = 1;
const A_REFERS: u64 = 2;
const A_SCOPE: u64 = 3;
const A_SUP: u64 = 4;
const A_RDMO: u64 = 5;
const A_DMO: u64 = 6;
const A_MO: u64 = 7;
const A_OTHER: u64 = 9;
/// OAuth2RsClaimMap is a map claim name -> group uuid -> values: one modelled attribute per claim name
const A_CLAIM0: u64 = 10;
const A_CLAIM2: u64 = 12;
const CLAIM_NAMES: [&str; 3] = ["ca", "cb", "cc"];
fn is_claim(a: u64) -> bool {
    (A_CLAIM0..=A_CLAIM2).contains(&a)
}
fn claim_name(a: u64) -> String {
    CLAIM_NAMES[(a - A_CLAIM0) as usize].to_string()
}

fn attr_code(a: &Attribute) -> u64 {
    match a {
        Attribute::Member => A_MEMBER,
        Attribute::EntryManagedBy => A_EMB,
        Attribute::Refers => A_REFERS,
        Attribute::OAuth2RsScopeMap => A_SCOPE,
        Attribute::OAuth2RsSupScopeMap => A_SUP,
        Attribute::RecycledDirectMemberOf => A_RDMO,
        Attribute::DirectMemberOf => A_DMO,
        Attribute::MemberOf => A_MO,
        _ => A_OTHER,
    }
}
fn code_attr(c: u64) -> Attribute {
    match c {
        A_MEMBER => Attribute::Member,
        A_EMB => Attribute::EntryManagedBy,
        A_REFERS => Attribute::Refers,
        A_SCOPE => Attribute::OAuth2RsScopeMap,
        A_SUP => Attribute::OAuth2RsSupScopeMap,
        a if is_claim(a) => Attribute::OAuth2RsClaimMap,
        _ => Attribute::RecycledDirectMemberOf,
    }
}

#[derive(Clone, Copy, Debug, PartialEq)]
enum Kind {
    User,
    Group,
    Dep,
    Client,
}
fn kind_code(k: Kind) -> u64 {
    match k {
        Kind::User => 0,
        Kind::Group => 1,
        Kind::Dep => 2,
        Kind::Client => 3,
    }
}

#[derive(Clone, Debug)]
enum Mod {
    Add(u64, usize),
    Del(u64, usize),
    Set(u64, usize),
    Purge(u64),
}

type Refs = BTreeMap<u64, BTreeSet<u64>>;

#[derive(Clone, Debug)]
enum Op {
    Create(Vec<(usize, Refs)>),
    Modify(usize, Vec<Mod>),
    Delete(usize),
    Revive(usize),
    PurgeRec,
    PurgeTomb,
}

#[derive(Clone, Debug, PartialEq)]
enum St {
    Live,
    Rec,
    Tomb,
    Gone,
}

#[derive(Clone, Debug, PartialEq)]
struct Obs {
    id: usize,
    kind: u64,
    st: St,
    refs: Refs,
    casc: Option<u64>,
    /// references (any reference-typed attribute) to uuids outside the tracked universe that are not live
    ext: u64,
}

fn ns(d: Duration) -> u64 {
    d.as_nanos() as u64
}

fn open_server(ct: Duration) -> QueryServer {
    let schema_outer = Schema::new().expect("schema");
    let idxmeta = {
        let schema_txn = schema_outer.write();
        schema_txn.reload_idxmeta()
    };
    let cfg = BackendConfig::new(None, 1, FsType::Generic, Some(2048));
    let be = Backend::new(cfg, idxmeta, false).expect("be");
    QueryServer::new(be, schema_outer, "example.com".to_string(), ct).expect("qs")
}

struct World {
    uuids: Vec<Uuid>,
    kinds: Vec<Kind>,
    tag: String,
    gen: std::cell::Cell<u64>,
}

impl World {
    fn idx(&self, u: &Uuid) -> Option<u64> {
        self.uuids.iter().position(|x| x == u).map(|i| i as u64)
    }
}

fn f_uuid(u: Uuid) -> FC {
    f_eq(Attribute::Uuid, PartialValue::Uuid(u))
}

/// Read back every tracked entry and scan the whole database. Returns (dump, db_dangling).
async fn observe(qs: &QueryServer, w: &World) -> (Vec<Obs>, u64) {
    let mut r = qs.read().await.expect("read");
    // the reference-typed attributes, from the live schema
    let ref_attrs: Vec<Attribute> = {
        let mut v: Vec<Attribute> = r.get_schema().get_reference_types().keys().cloned().collect();
        v.sort();
        v
    };
    // whole-database scan: every live entry, every reference-typed value, against the live uuids
    let live_all = r.internal_search(filter!(f_pres(Attribute::Class))).expect("search live");
    let live_set: BTreeSet<Uuid> = live_all.iter().map(|e| e.get_uuid()).collect();
    let mut dbd = 0u64;
    for e in &live_all {
        for a in &ref_attrs {
            if let Some(vs) = e.get_ava_set(a) {
                if let Some(it) = vs.as_ref_uuid_iter() {
                    for u in it {
                        if !live_set.contains(&u) {
                            dbd += 1;
                            if std::env::var("C16_DEBUG").is_ok() {
                                eprintln!("DANGLING entry={} {:?} attr={} -> {}", e.get_uuid(), e.get_ava_set(Attribute::Name).map(|v| v.to_proto_string_clone_iter().collect::<Vec<_>>()), a, u);
                            }
                        }
                    }
                }
            }
        }
    }
    let mut out = vec![];
    for (i, u) in w.uuids.iter().enumerate() {
        let all = r.internal_search(filter_all!(f_uuid(*u))).expect("search all");
        assert!(all.len() <= 1, "duplicate uuid");
        let mut o = Obs { id: i, kind: kind_code(w.kinds[i]), st: St::Gone, refs: Refs::new(), casc: None, ext: 0 };
        if let Some(e) = all.first() {
            let tomb = e.attribute_equality(Attribute::Class, &EntryClass::Tombstone.into());
            let rec = e.attribute_equality(Attribute::Class, &EntryClass::Recycled.into());
            o.st = if tomb { St::Tomb } else if rec { St::Rec } else { St::Live };
            for a in &ref_attrs {
                if let Some(vs) = e.get_ava_set(a) {
                    if *a == Attribute::OAuth2RsClaimMap {
                        // "<claim name>: <group uuid> \"<values>\"" per (claim name, group)
                        for line in vs.to_proto_string_clone_iter() {
                            let (name, rest) = line.split_once(": ").expect("claim map proto form");
                            let t = Uuid::parse_str(rest.split(' ').next().expect("uuid")).expect("claim map uuid");
                            let code = CLAIM_NAMES.iter().position(|n| *n == name).map(|i| A_CLAIM0 + i as u64).unwrap_or(A_OTHER);
                            match w.idx(&t) {
                                Some(j) => {
                                    o.refs.entry(code).or_default().insert(j);
                                }
                                None => {
                                    if !live_set.contains(&t) {
                                        o.ext += 1;
                                    }
                                }
                            }
                        }
                        continue;
                    }
                    if let Some(it) = vs.as_ref_uuid_iter() {
                        for t in it {
                            match w.idx(&t) {
                                Some(j) => {
                                    o.refs.entry(attr_code(a)).or_default().insert(j);
                                }
                                None => {
                                    if !live_set.contains(&t) {
                                        o.ext += 1;
                                    }
                                }
                            }
                        }
                    }
                }
            }
            o.casc = e.get_ava_single_uuid(Attribute::CascadeDeleted).map(|u| w.idx(&u).unwrap_or(999));
        }
        out.push(o);
    }
    (out, dbd)
}

fn c_status(s: &St) -> String {
    match s {
        St::Live => "Live".into(),
        St::Rec => "Rec".into(),
        St::Tomb => "Tomb".into(),
        St::Gone => "Gone".into(),
    }
}
fn c_refs(r: &Refs) -> String {
    let v: Vec<String> = r
        .iter()
        .filter(|(_, s)| !s.is_empty())
        .map(|(a, s)| format!("({}, {})", cn(*a), clist(&s.iter().copied().collect::<Vec<u64>>(), |x| cn(*x))))
        .collect();
    clist_s(&v)
}
fn c_obs(o: &Obs) -> String {
    capp(
        "mkoent",
        &[cn(o.id as u64), cn(o.kind), c_status(&o.st), c_refs(&o.refs), copt(&o.casc, |x| cn(*x)), cn(o.ext)],
    )
}
fn t_refs(r: &Refs) -> String {
    let names = ["m", "e", "r", "s", "S", "rd", "d", "mo", "?", "x", "ca", "cb", "cc"];
    r.iter()
        .filter(|(_, s)| !s.is_empty())
        .map(|(a, s)| format!("{}{:?}", names[(*a as usize).min(12)], s.iter().collect::<Vec<_>>()))
        .collect::<Vec<_>>()
        .join("")
}
fn t_obs(o: &Obs) -> String {
    let st = match &o.st {
        St::Live => "L",
        St::Rec => "R",
        St::Tomb => "T",
        St::Gone => "-",
    };
    format!(
        "{}{}:{}{}{}{}",
        ["u", "g", "d", "c"][o.kind as usize],
        o.id,
        st,
        t_refs(&o.refs),
        o.casc.map(|c| format!("casc{}", c)).unwrap_or_default(),
        if o.ext > 0 { format!("EXT{}", o.ext) } else { String::new() }
    )
}
fn t_dump(d: &[Obs]) -> String {
    d.iter().map(t_obs).collect::<Vec<_>>().join(" ")
}

fn err_code(e: &OperationError) -> u64 {
    match e {
        OperationError::NoMatchingEntries => 1,
        OperationError::SchemaViolation(_) => 2,
        OperationError::Plugin(PluginError::ReferentialIntegrity(_)) => 3,
        OperationError::Plugin(PluginError::Base(_)) => 5,
        OperationError::ReferenceLoop => 6,
        _ => 7,
    }
}

fn ref_value(a: u64, u: Uuid) -> Value {
    match a {
        A_SCOPE | A_SUP => Value::new_oauthscopemap(u, [String::from("read")].into_iter().collect()).expect("scope"),
        a if is_claim(a) => Value::new_oauthclaimmap(claim_name(a), u, [String::from("v")].into_iter().collect()).expect("claim"),
        _ => Value::Refer(u),
    }
}

fn build_entry(w: &World, i: usize, refs: &Refs) -> Entry<EntryInit, EntryNew> {
    let g = w.gen.get();
    w.gen.set(g + 1);
    let nm = format!("c16{}e{}x{}", w.tag, i, g);
    let mut e: Entry<EntryInit, EntryNew> = match w.kinds[i] {
        Kind::User => kanidmd_lib::entry_init!(
            (Attribute::Class, EntryClass::Object.to_value()),
            (Attribute::Class, EntryClass::Account.to_value()),
            (Attribute::Class, EntryClass::Person.to_value()),
            (Attribute::Name, Value::new_iname(&nm)),
            (Attribute::DisplayName, Value::new_utf8s("c16 person")),
            (Attribute::Uuid, Value::Uuid(w.uuids[i]))
        ),
        Kind::Group => kanidmd_lib::entry_init!(
            (Attribute::Class, EntryClass::Object.to_value()),
            (Attribute::Class, EntryClass::Group.to_value()),
            (Attribute::Name, Value::new_iname(&nm)),
            (Attribute::Uuid, Value::Uuid(w.uuids[i]))
        ),
        Kind::Dep => kanidmd_lib::entry_init!(
            (Attribute::Class, EntryClass::Object.to_value()),
            (Attribute::Class, EntryClass::ClientCertificate.to_value()),
            (Attribute::Uuid, Value::Uuid(w.uuids[i])),
            (Attribute::Certificate, Value::new_certificate_s(CERT).expect("cert"))
        ),
        Kind::Client => kanidmd_lib::entry_init!(
            (Attribute::Class, EntryClass::Object.to_value()),
            (Attribute::Class, EntryClass::Account.to_value()),
            (Attribute::Class, EntryClass::OAuth2ResourceServer.to_value()),
            (Attribute::Class, EntryClass::OAuth2ResourceServerPublic.to_value()),
            (Attribute::Name, Value::new_iname(&nm)),
            (Attribute::DisplayName, Value::new_utf8s("c16 client")),
            (Attribute::OAuth2RsOriginLanding, Value::new_url_s("https://demo.example.com").expect("url")),
            (Attribute::Uuid, Value::Uuid(w.uuids[i]))
        ),
    };
    for (a, ts) in refs {
        for t in ts {
            e.add_ava(code_attr(*a), ref_value(*a, w.uuids[*t as usize]));
        }
    }
    e
}

fn modlist(w: &World, mods: &[Mod]) -> ModifyList<ModifyInvalid> {
    let mut v = vec![];
    for m in mods {
        match m {
            Mod::Add(a, t) => v.push(Modify::Present(code_attr(*a), ref_value(*a, w.uuids[*t]))),
            // claim map: the edits address ONE claim name (remove the group from it / remove the claim name)
            Mod::Del(a, t) if is_claim(*a) => {
                v.push(Modify::Removed(code_attr(*a), PartialValue::OauthClaim(claim_name(*a), w.uuids[*t])))
            }
            Mod::Set(a, t) if is_claim(*a) => {
                v.push(Modify::Removed(code_attr(*a), PartialValue::new_iutf8(&claim_name(*a))));
                v.push(Modify::Present(code_attr(*a), ref_value(*a, w.uuids[*t])));
            }
            Mod::Purge(a) if is_claim(*a) => {
                v.push(Modify::Removed(code_attr(*a), PartialValue::new_iutf8(&claim_name(*a))))
            }
            Mod::Del(a, t) => v.push(Modify::Removed(code_attr(*a), PartialValue::Refer(w.uuids[*t]))),
            Mod::Set(a, t) => {
                v.push(Modify::Purged(code_attr(*a)));
                v.push(Modify::Present(code_attr(*a), ref_value(*a, w.uuids[*t])));
            }
            Mod::Purge(a) => v.push(Modify::Purged(code_attr(*a))),
        }
    }
    ModifyList::new_list(v)
}

/// One write transaction at time `t`. Returns the result code (0 = committed).
async fn run_op(qs: &QueryServer, w: &World, admin: &Identity, op: &Op, t: Duration, log: &mut String) -> u64 {
    let mut wr = match qs.write(t).await {
        Ok(wr) => wr,
        Err(e) => return err_code(&e),
    };
    let res: Result<Result<(), OperationError>, _> = std::panic::catch_unwind(AssertUnwindSafe(|| match op {
        Op::Create(l) => wr.internal_create(l.iter().map(|(i, r)| build_entry(w, *i, r)).collect()),
        Op::Modify(i, mods) => wr.internal_modify_uuid(w.uuids[*i], &modlist(w, mods)),
        Op::Delete(i) => wr.internal_delete_uuid(w.uuids[*i]),
        Op::Revive(i) => {
            let re = ReviveRecycledEvent::from_parts(admin.clone(), &filter_all!(f_uuid(w.uuids[*i])), &wr)?;
            wr.revive_recycled(&re)
        }
        Op::PurgeRec => wr.purge_recycled().map(|_| ()),
        Op::PurgeTomb => wr.purge_tombstones().map(|_| ()),
    }));
    match res {
        Ok(Ok(())) => match wr.commit() {
            Ok(()) => 0,
            Err(e) => {
                log.push_str(&format!(" commit-err={:?}", e));
                8
            }
        },
        Ok(Err(e)) => {
            let c = err_code(&e);
            if c == 7 {
                log.push_str(&format!(" err={:?}", e));
            }
            drop(wr);
            c
        }
        Err(_) => {
            log.push_str(" PANIC");
            drop(wr);
            9
        }
    }
}

fn c_mod(m: &Mod) -> String {
    match m {
        Mod::Add(a, t) => capp("MAdd", &[cn(*a), cn(*t as u64)]),
        Mod::Del(a, t) => capp("MDel", &[cn(*a), cn(*t as u64)]),
        Mod::Set(a, t) => capp("MSet", &[cn(*a), cn(*t as u64)]),
        Mod::Purge(a) => capp("MPurge", &[cn(*a)]),
    }
}
fn c_op(op: &Op) -> String {
    match op {
        Op::Create(l) => capp(
            "OCreate",
            &[clist(l, |(i, r)| format!("({}, {})", cn(*i as u64), c_refs(r)))],
        ),
        Op::Modify(i, mods) => capp("OModify", &[cn(*i as u64), clist(mods, c_mod)]),
        Op::Delete(i) => capp("ODelete", &[cn(*i as u64)]),
        Op::Revive(i) => capp("ORevive", &[cn(*i as u64)]),
        Op::PurgeRec => "OPurgeRec".into(),
        Op::PurgeTomb => "OPurgeTomb".into(),
    }
}
fn t_op(op: &Op) -> String {
    match op {
        Op::Create(l) => format!("Create{:?}", l.iter().map(|(i, r)| format!("{}{}", i, t_refs(r))).collect::<Vec<_>>()),
        o => format!("{:?}", o),
    }
}

/// attributes that the schema allows on a kind (EntryManagedBy is allowed on every object)
fn kind_attrs(k: Kind) -> Vec<u64> {
    match k {
        Kind::User => vec![A_EMB],
        Kind::Group => vec![A_MEMBER, A_MEMBER, A_MEMBER, A_EMB],
        Kind::Dep => vec![A_REFERS, A_REFERS, A_EMB],
        Kind::Client => vec![A_SCOPE, A_SUP, A_CLAIM0, A_CLAIM0 + 1, A_CLAIM2, A_EMB],
    }
}

/// a random reference set for entry `i`; targets from `pool` (any state).
/// Group nesting is kept acyclic (a group only lists groups of smaller index): membership cycles
/// are the subject of C17, not of this property.
fn gen_refs(rng: &mut Rng, kinds: &[Kind], i: usize, pool: &[usize]) -> Refs {
    let mut r = Refs::new();
    if pool.is_empty() {
        return r;
    }
    match kinds[i] {
        Kind::Group => {
            for t in pool {
                let ok = kinds[*t] != Kind::Group || *t < i;
                if ok && rng.chance(2, 5) {
                    r.entry(A_MEMBER).or_default().insert(*t as u64);
                }
            }
        }
        Kind::Dep => {
            r.entry(A_REFERS).or_default().insert(*rng.pick(pool) as u64);
        }
        Kind::Client => {
            for t in pool {
                if rng.chance(1, 3) {
                    r.entry(if rng.chance(3, 4) { A_SCOPE } else { A_SUP }).or_default().insert(*t as u64);
                }
                // claim maps: often the SAME group under two or three claim names
                if rng.chance(1, 3) {
                    let k = rng.range(1, 3);
                    let first = rng.below(3);
                    for j in 0..k {
                        r.entry(A_CLAIM0 + (first + j) % 3).or_default().insert(*t as u64);
                    }
                }
            }
        }
        Kind::User => {}
    }
    if rng.chance(1, 3) {
        r.entry(A_EMB).or_default().insert(*rng.pick(pool) as u64);
    }
    r
}

fn gen_mod(rng: &mut Rng, kinds: &[Kind], x: usize, n: usize) -> Mod {
    let attrs = kind_attrs(kinds[x]);
    let a = if rng.chance(1, 12) { *rng.pick(&[A_MEMBER, A_REFERS, A_SCOPE, A_CLAIM0]) } else { *rng.pick(&attrs) };
    let mut t = rng.below(n as u64) as usize;
    if a == A_MEMBER {
        // keep group nesting acyclic
        for _ in 0..8 {
            if kinds[t] != Kind::Group || t < x {
                break;
            }
            t = rng.below(n as u64) as usize;
        }
        if kinds[t] == Kind::Group && t >= x {
            return Mod::Del(a, t);
        }
    }
    let k = rng.below(100);
    match a {
        A_EMB | A_REFERS => {
            if k < 65 { Mod::Set(a, t) } else if k < 80 { Mod::Add(a, t) } else if k < 90 { Mod::Purge(a) } else { Mod::Del(a, t) }
        }
        _ => {
            if k < 60 { Mod::Add(a, t) } else if k < 85 { Mod::Del(a, t) } else if k < 93 { Mod::Purge(a) } else { Mod::Set(a, t) }
        }
    }
}

fn gen_op(rng: &mut Rng, kinds: &[Kind], cur: &[Obs], allow_purge: bool) -> Op {
    let n = kinds.len();
    let live: Vec<usize> = (0..n).filter(|i| cur[*i].st == St::Live).collect();
    let recs: Vec<usize> = (0..n).filter(|i| cur[*i].st == St::Rec).collect();
    let gone: Vec<usize> = (0..n).filter(|i| cur[*i].st == St::Gone).collect();
    let all: Vec<usize> = (0..n).collect();
    let k = rng.below(100);
    if k < 32 {
        let x = if !live.is_empty() && rng.chance(9, 10) { *rng.pick(&live) } else { rng.below(n as u64) as usize };
        if kinds[x] == Kind::Client && rng.chance(1, 3) {
            let t = rng.below(n as u64) as usize;
            let k = rng.range(2, 3);
            let first = rng.below(3);
            return Op::Modify(x, (0..k).map(|j| Mod::Add(A_CLAIM0 + (first + j) % 3, t)).collect());
        }
        let m = rng.range(1, 2) as usize;
        Op::Modify(x, (0..m).map(|_| gen_mod(rng, kinds, x, n)).collect())
    } else if k < 54 {
        Op::Delete(if !live.is_empty() && rng.chance(7, 8) { *rng.pick(&live) } else { rng.below(n as u64) as usize })
    } else if k < 70 {
        Op::Revive(if !recs.is_empty() && rng.chance(7, 8) { *rng.pick(&recs) } else { rng.below(n as u64) as usize })
    } else if (k < 86 || !allow_purge) && (!gone.is_empty() || rng.chance(1, 6)) {
        let mut ids: Vec<usize> = vec![];
        let m = rng.range(1, 2) as usize;
        for _ in 0..m {
            let i = if !gone.is_empty() && rng.chance(14, 15) { *rng.pick(&gone) } else { rng.below(n as u64) as usize };
            if !ids.contains(&i) {
                ids.push(i);
            }
        }
        ids.sort();
        // targets: anything in the universe (any state) — the batch mates included
        Op::Create(ids.iter().map(|i| (*i, gen_refs(rng, kinds, *i, &all))).collect())
    } else if !allow_purge || k < 86 {
        let x = if !live.is_empty() { *rng.pick(&live) } else { rng.below(n as u64) as usize };
        Op::Modify(x, vec![gen_mod(rng, kinds, x, n)])
    } else if k < 94 {
        Op::PurgeRec
    } else {
        Op::PurgeTomb
    }
}

fn make_world(rng: &mut Rng, base: u128, tag: String) -> World {
    let nu = rng.range(1, 3) as usize;
    let ng = rng.range(2, 4) as usize;
    let nd = rng.range(1, 3) as usize;
    let nc = rng.range(1, 2) as usize;
    let mut kinds = vec![];
    kinds.extend(std::iter::repeat(Kind::User).take(nu));
    kinds.extend(std::iter::repeat(Kind::Group).take(ng));
    kinds.extend(std::iter::repeat(Kind::Dep).take(nd));
    kinds.extend(std::iter::repeat(Kind::Client).take(nc));
    let n = kinds.len();
    let uuids: Vec<Uuid> = (0..n).map(|i| Uuid::from_u128(base + i as u128)).collect();
    World { uuids, kinds, tag, gen: std::cell::Cell::new(0) }
}

/// initial population: a random subset, references only inside that subset (Refers never to a dependent)
fn initial_population(rng: &mut Rng, w: &World) -> Vec<(usize, Refs)> {
    let n = w.kinds.len();
    let present: Vec<usize> = (0..n).filter(|i| w.kinds[*i] != Kind::Dep && rng.chance(4, 5)).collect();
    let mut ents: Vec<(usize, Refs)> = vec![];
    let mut pool = present.clone();
    for i in 0..n {
        if w.kinds[i] == Kind::Dep && !present.is_empty() && rng.chance(4, 5) {
            pool.push(i);
        }
    }
    pool.sort();
    for i in &pool {
        let mut r = gen_refs(rng, &w.kinds, *i, &pool);
        if w.kinds[*i] == Kind::Dep {
            let mut s = BTreeSet::new();
            s.insert(*rng.pick(&present) as u64);
            r.insert(A_REFERS, s);
        }
        ents.push((*i, r));
    }
    ents
}

#[derive(Default)]
struct Seen {
    refused_dangling: bool,
    casc: bool,
    revive: bool,
    tomb: bool,
    strip: bool,
}

fn classify(sink: &mut Sink, op: &Op, code: u64) {
    let k = match op {
        Op::Create(_) => "create",
        Op::Modify(..) => "modify",
        Op::Delete(_) => "delete",
        Op::Revive(_) => "revive",
        Op::PurgeRec => "purge_recycled",
        Op::PurgeTomb => "purge_tombstones",
    };
    let c = match code {
        0 => "ok",
        1 => "nomatch",
        2 => "schema",
        3 => "refint_refused",
        5 => "duplicate",
        6 => "refers_loop",
        _ => "other",
    };
    sink.bump(&format!("{}_{}", k, c));
}

fn note(seen: &mut Seen, op: &Op, code: u64, pre: &[Obs], post: &[Obs]) {
    if code == 3 {
        seen.refused_dangling = true;
    }
    if code == 0 && matches!(op, Op::Revive(_)) {
        seen.revive = true;
    }
    for i in 0..pre.len() {
        if pre[i].st == St::Live && post[i].st == St::Rec && post[i].casc.is_some() {
            seen.casc = true;
        }
        if pre[i].st == St::Rec && post[i].st == St::Tomb {
            seen.tomb = true;
        }
        if let Op::Delete(x) = op {
            if code == 0 && i != *x && pre[i].refs.values().any(|s| s.contains(&(*x as u64))) {
                seen.strip = true;
            }
        }
    }
}

async fn single_histories(args: &Args, rng: &mut Rng, sink: &mut Sink) {
    let t_start: u64 = 1_700_000_000 * NS;
    let n_hist = if args.thorough { 700 } else { 120 };
    let max_len = if args.thorough { 30 } else { 18 };
    // a fresh server per history: the whole-database scan must not see leftovers of other histories
    let per_server = 1;
    let mut qs_opt: Option<(QueryServer, Identity)> = None;
    for hid in 0..n_hist {
        if hid % per_server == 0 {
            drop(qs_opt.take());
            let qs = open_server(Duration::from_nanos(t_start));
            qs.initialise_helper(Duration::from_nanos(t_start), DOMAIN_TGT_LEVEL).await.expect("init");
            let admin = {
                let mut r = qs.read().await.expect("read");
                Identity::from_impersonate_entry_readwrite(r.internal_search_uuid(UUID_ADMIN).expect("admin"))
            };
            qs_opt = Some((qs, admin));
        }
        let (qs, admin) = qs_opt.as_ref().expect("server");
        let w = make_world(rng, 0xc16c_16c1_0000_0000_0000_0000_0000_0000u128 + ((hid as u128) << 16), format!("h{}", hid));
        let n = w.kinds.len();
        let mut nowt = ns(qs.verif_cid_max());
        let pop = initial_population(rng, &w);
        nowt += 100 * NS;
        let mut log = String::new();
        let c0 = run_op(qs, &w, admin, &Op::Create(pop.clone()), Duration::from_nanos(nowt), &mut log).await;
        assert_eq!(c0, 0, "initial population must be accepted{}", log);
        let (init, dbd0) = observe(qs, &w).await;
        assert_eq!(dbd0, 0, "leftover dangling references in the database before history {}", hid);
        let len = rng.range(6, max_len) as usize;
        let mut cur = init.clone();
        let mut steps = vec![];
        let mut txt = format!("hist n={} init: {}", n, t_dump(&init));
        let mut seen = Seen::default();
        for _ in 0..len {
            let op = gen_op(rng, &w.kinds, &cur, true);
            // time discipline: ordinary ops 1 s apart; a purge runs 8 days later, so EVERY recycled
            // entry is older than RECYCLEBIN_MAX_AGE and every tombstone older than CHANGELOG_MAX_AGE
            // (7 d each) — the retention windows themselves are the subject of C26
            nowt = ns(qs.verif_cid_max()).max(nowt)
                + if matches!(op, Op::PurgeRec | Op::PurgeTomb) { 8 * 86_400 * NS } else { NS };
            let mut log = String::new();
            let code = run_op(qs, &w, admin, &op, Duration::from_nanos(nowt), &mut log).await;
            let (post, dbd) = observe(qs, &w).await;
            classify(sink, &op, code);
            note(&mut seen, &op, code, &cur, &post);
            let _ = std::fmt::Write::write_fmt(
                &mut txt,
                format_args!(" | {}->{}{}: {}{}", t_op(&op), code, log, t_dump(&post), if dbd > 0 { format!(" DBDANGLING={}", dbd) } else { String::new() }),
            );
            steps.push(capp("OStep", &[c_op(&op), cn(code), clist(&post, c_obs), cn(dbd)]));
            cur = post;
        }
        if std::env::var("C16_DEBUG").is_ok() {
            eprintln!("{}", txt.replace(" | ", "\n   | "));
        }
        if seen.casc { sink.bump("hist_with_cascade"); }
        if seen.tomb { sink.bump("hist_with_tombstone"); }
        if seen.strip { sink.bump("hist_with_reference_stripped_by_delete"); }
        if seen.refused_dangling { sink.bump("hist_with_refused_dangling_write"); }
        sink.case(
            capp("CHist", &[clist(&init, c_obs), clist_s(&steps)]),
            txt,
            seen.refused_dangling && seen.strip && seen.revive,
        );
    }
    drop(qs_opt);
}

async fn repl_incremental(from: &QueryServer, to: &QueryServer, t: Duration) -> Result<(), OperationError> {
    let mut w = to.write(t).await.expect("write");
    let mut r = from.read().await.expect("read");
    let range = w.consumer_get_state()?;
    let changes = r.supplier_provide_changes(range)?;
    w.consumer_apply_changes(changes)?;
    drop(r);
    w.commit()
}

async fn pair_histories(args: &Args, rng: &mut Rng, sink: &mut Sink) {
    let n_hist = if args.thorough { 140 } else { 24 };
    let max_len = if args.thorough { 26 } else { 18 };
    for hid in 0..n_hist {
        let (sa, sb) = setup_pair_test(TestConfiguration::default()).await;
        let srv = [&sa, &sb];
        let mut t = duration_from_epoch_now() + Duration::from_secs(60);
        {
            let mut wr = sb.write(t).await.expect("write");
            let mut r = sa.read().await.expect("read");
            let ctx = r.supplier_provide_refresh().expect("refresh ctx");
            wr.consumer_apply_refresh(ctx).expect("refresh");
            drop(r);
            wr.commit().expect("commit");
        }
        let admin = {
            let mut r = sa.read().await.expect("read");
            Identity::from_impersonate_entry_readwrite(r.internal_search_uuid(UUID_ADMIN).expect("admin"))
        };
        let w = make_world(rng, 0xc16c_16c2_0000_0000_0000_0000_0000_0000u128 + ((hid as u128) << 16), format!("p{}", hid));
        let n = w.kinds.len();
        // population on A, replicated to B
        let pop = initial_population(rng, &w);
        t += Duration::from_secs(2);
        let mut log = String::new();
        let c0 = run_op(&sa, &w, &admin, &Op::Create(pop), t, &mut log).await;
        assert_eq!(c0, 0, "initial population must be accepted{}", log);
        t += Duration::from_secs(2);
        repl_incremental(&sa, &sb, t).await.expect("initial replication");
        let (ia, da) = observe(&sa, &w).await;
        let (ib, db) = observe(&sb, &w).await;
        assert!(da == 0 && db == 0);
        let mut cur = [ia.clone(), ib.clone()];
        let mut steps = vec![];
        let mut txt = format!("pair n={} A: {} B: {}", n, t_dump(&ia), t_dump(&ib));
        let len = rng.range(8, max_len) as usize;
        let (mut n_repl, mut saw_conflict, mut saw_repl_strip) = (0, false, false);
        let mut seen = Seen::default();
        for step in 0..len + 2 {
            t += Duration::from_secs(2);
            let force = step >= len;
            if force || rng.chance(1, 4) {
                let to = if force { step - len } else { rng.below(2) as usize };
                let from = 1 - to;
                let r = repl_incremental(srv[from], srv[to], t).await;
                let (post, dbd) = observe(srv[to], &w).await;
                n_repl += 1;
                sink.bump(if r.is_ok() { "repl_ok" } else { "repl_err" });
                // a reference held before that replication removed because its target is no longer live
                for i in 0..n {
                    if cur[to][i].st == St::Live && post[i].st == St::Live {
                        for (a, ts) in &cur[to][i].refs {
                            for x in ts {
                                let still = post[i].refs.get(a).map(|s| s.contains(x)).unwrap_or(false);
                                if !still && post[*x as usize].st != St::Live && *a < A_RDMO {
                                    saw_repl_strip = true;
                                }
                            }
                        }
                    }
                    // a tracked uuid that exists on both sides with different kinds of life = conflict survivor
                }
                let _ = std::fmt::Write::write_fmt(
                    &mut txt,
                    format_args!(" | repl {}->{} {}: {}{}", ["A", "B"][from], ["A", "B"][to], if r.is_ok() { "ok".to_string() } else { format!("{:?}", r) }, t_dump(&post), if dbd > 0 { format!(" DBDANGLING={}", dbd) } else { String::new() }),
                );
                steps.push(capp("RRepl", &[cbool(to == 1), cbool(r.is_ok()), clist(&post, c_obs), cn(dbd)]));
                cur[to] = post;
                continue;
            }
            let i = rng.below(2) as usize;
            let op = gen_op(rng, &w.kinds, &cur[i], false);
            // creating on one replica a uuid that the other replica also holds (not yet replicated) is
            // the duplicate-uuid conflict of incremental replication
            if let Op::Create(l) = &op {
                if l.iter().any(|(x, _)| cur[1 - i][*x].st != St::Gone) {
                    saw_conflict = true;
                }
            }
            let mut log = String::new();
            let code = run_op(srv[i], &w, &admin, &op, t, &mut log).await;
            let (post, dbd) = observe(srv[i], &w).await;
            classify(sink, &op, code);
            note(&mut seen, &op, code, &cur[i], &post);
            let _ = std::fmt::Write::write_fmt(
                &mut txt,
                format_args!(" | {}:{}->{}{}: {}{}", ["A", "B"][i], t_op(&op), code, log, t_dump(&post), if dbd > 0 { format!(" DBDANGLING={}", dbd) } else { String::new() }),
            );
            steps.push(capp("RLocal", &[cbool(i == 1), c_op(&op), cn(code), clist(&post, c_obs), cn(dbd)]));
            cur[i] = post;
        }
        sink.add_stat("repl_steps", n_repl);
        if saw_conflict { sink.bump("pair_with_uuid_conflict"); }
        if saw_repl_strip { sink.bump("pair_with_reference_removed_by_replication"); }
        sink.case(
            capp("CRepl", &[clist(&ia, c_obs), clist(&ib, c_obs), clist_s(&steps)]),
            txt,
            saw_repl_strip || saw_conflict,
        );
    }
}


/// `--probe`: the minimal scenario of the refuted statement on the real server (stderr only).
async fn probe() {
    let t0: u64 = 1_700_000_000 * NS;
    let qs = open_server(Duration::from_nanos(t0));
    qs.initialise_helper(Duration::from_nanos(t0), DOMAIN_TGT_LEVEL).await.expect("init");
    let admin = {
        let mut r = qs.read().await.expect("read");
        Identity::from_impersonate_entry_readwrite(r.internal_search_uuid(UUID_ADMIN).expect("admin"))
    };
    let w = World {
        uuids: (0..6).map(|i| Uuid::from_u128(0xc16c_16c1_ffff_0000_0000_0000_0000_0000u128 + i as u128)).collect(),
        kinds: vec![Kind::User, Kind::User, Kind::User, Kind::Group, Kind::Group, Kind::Group],
        tag: "probe".into(),
        gen: std::cell::Cell::new(0),
    };
    let mut t = t0 + 10 * NS;
    let refs = |a: u64, ts: &[u64]| -> Refs {
        let mut r = Refs::new();
        r.insert(a, ts.iter().copied().collect());
        r
    };
    let script: Vec<(&str, Op)> = vec![
        ("create persons u0 u1 u2, group g3          ", Op::Create(vec![(0, Refs::new()), (1, Refs::new()), (2, Refs::new()), (3, Refs::new())])),
        ("delete u1 (-> recycle bin)                 ", Op::Delete(1)),
        ("delete u2                                  ", Op::Delete(2)),
        ("purge_recycled (+8d): u1,u2 -> tombstones  ", Op::PurgeRec),
        ("delete u0... no: keep u0 live; revive n/a  ", Op::Revive(5)),
        ("g3: add member u1 (tombstone) ALONE        ", Op::Modify(3, vec![Mod::Add(A_MEMBER, 1)])),
        ("g3: add members u0 (live) + u1 (tombstone) ", Op::Modify(3, vec![Mod::Add(A_MEMBER, 0), Mod::Add(A_MEMBER, 1)])),
        ("create g4 member=[u0 live, u2 tombstone]   ", Op::Create(vec![(4, refs(A_MEMBER, &[0, 2]))])),
        ("create g5 member=[u2 tombstone]            ", Op::Create(vec![(5, refs(A_MEMBER, &[2]))])),
    ];
    for (label, op) in script {
        t += if matches!(op, Op::PurgeRec | Op::PurgeTomb) { 8 * 86_400 * NS } else { NS };
        let mut log = String::new();
        let code = run_op(&qs, &w, &admin, &op, Duration::from_nanos(t), &mut log).await;
        let (d, dbd) = observe(&qs, &w).await;
        eprintln!("PROBE {} -> code {}{} | {} | db dangling={}", label, code, log, t_dump(&d), dbd);
    }
    let v = qs.verify().await;
    eprintln!("PROBE server verify() -> {:?}", v);
}

fn main() {
    let args = parse_args();
    let mut rng = Rng::new(args.seed);
    let mut sink = Sink::new(&args, "KV.C16.Model", 12);
    sink.rule = "hist: random histories (len 6..18 quick / 6..30 thorough) of create (1-2 entries per batch, random references to ANY \
universe entry in any state, batch mates included) / modify (1-2 reference edits: add, remove, set, purge on Member, EntryManagedBy, \
Refers, OAuth2RsScopeMap, OAuth2RsSupScopeMap, OAuth2RsClaimMap under three claim names — a third of the client edits map ONE target under 2-3 claim names; 1 in 12 on an attribute the class does not allow) / delete / revive (as `admin` through \
ReviveRecycledEvent::from_parts) / purge_recycled / purge_tombstones over 1-3 persons, 2-4 groups (acyclic nesting), 1-3 ClientCertificate \
dependents (Refers) and 1-2 OAuth2 clients (scope maps -> groups or anything) on a real in-memory QueryServer; one write transaction per op; \
every tracked entry (all schema reference types) read back after every transaction plus a whole-database dangling scan. \
non-trivial hist = contains a write refused by referential integrity AND a delete that stripped a reference from another entry AND a committed revive. \
pair: the same local ops on two replicas with incremental replication both ways (1 in 4 steps, plus a final exchange); \
non-trivial pair = a replication removed a reference whose target stopped being live, or a uuid was created on both replicas"
        .into();
    let rt = tokio::runtime::Builder::new_current_thread().enable_all().build().expect("rt");
    if args.extra.iter().any(|a| a == "--probe") {
        rt.block_on(probe());
        return;
    }
    let only_pair = args.extra.iter().any(|a| a == "--pair-only");
    let only_hist = args.extra.iter().any(|a| a == "--hist-only");
    if !only_pair {
        rt.block_on(single_histories(&args, &mut rng, &mut sink));
    }
    if !only_hist {
        rt.block_on(pair_histories(&args, &mut rng, &mut sink));
    }
    sink.finish();
}
