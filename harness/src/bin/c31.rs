//! C31 — weak or badlisted passwords can never be set.
//!
//! Drives a REAL IdmServer (in-memory backend).  For random configurations (account-policy groups with
//! random minimum lengths / credential type minimums, group membership, system badlist in random case,
//! RADIUS secret, POSIX extension or not, primary credential with or without TOTP) it submits passwords
//! around the length bounds (in bytes and in grapheme clusters), badlist members in random case, weak
//! and related passwords through EVERY password-setting path:
//!   * set_unix_account_password                                  (direct POSIX password change)
//!   * credential_primary_set_password / credential_unix_set_password /
//!     credential_check_password_quality + commit_credential_update  (credential update session)
//! and records the result of every request and which password the stored credentials verify afterwards.
//! The Coq model (KV.C31.Model) replays the same requests (`agree`); `pcheck` evaluates the property
//! on the implementation's answers.
use kanidm_lib_crypto::CryptoPolicy;
use kanidm_proto::internal::PasswordFeedback;
use kanidmd_lib::credential::Credential;
use kanidmd_lib::entry::{Entry, EntryInit, EntryNew};
use kanidmd_lib::idm::credupdatesession::InitCredentialUpdateEvent;
use kanidmd_lib::idm::event::UnixPasswordChangeEvent;
use kanidmd_lib::idm::server::IdmServer;
use kanidmd_lib::prelude::*;
use kanidmd_lib::testkit::{setup_idm_test, TestConfiguration};
use kanidmd_lib::value::CredentialType;
use kanidmd_lib::verif_hooks::c31 as hook;
use kvh::*;

const NS: u64 = 1_000_000_000;
const T0: u64 = 1_700_000_000 * NS;
const P0: &str = "c31-initial-Eiyae0eiNgohsh4w";
/// kanidm_lib_crypto::PW_MAX_LENGTH_CHECK
const UNVERIFIABLE: usize = 512;

type Cluster = Vec<char>;
type Pw = Vec<Cluster>;

fn acct_uuid(a: u64) -> Uuid {
    Uuid::from_u128(0xc31c_31c3_0000_0000_0000_0000_0000_0000u128 + a as u128)
}
fn group_uuid(g: u64) -> Uuid {
    Uuid::from_u128(0xc31c_31c3_0000_0000_0000_0000_0001_0000u128 + g as u128)
}

// ------------------------------------------------------------------ strings
fn pw_string(p: &Pw) -> String {
    p.iter().flat_map(|c| c.iter()).collect()
}
fn c_str(s: &str) -> String {
    let v: Vec<u32> = s.chars().map(|c| c as u32).collect();
    clist(&v, |x| cn(*x as u64))
}
fn c_pw(p: &Pw) -> String {
    clist(p, |c| clist(c, |x| cn(*x as u32 as u64)))
}
fn t_str(s: &str) -> String {
    // printable, unambiguous
    s.chars()
        .map(|c| if c.is_ascii_graphic() { c.to_string() } else { format!("\\u{{{:x}}}", c as u32) })
        .collect()
}

/// upper/lower pairs inside the ranges KV.C31.Model.lower_cp covers
fn flip(c: char) -> char {
    let u = c as u32;
    let f = |x: u32| char::from_u32(x).unwrap_or(c);
    match u {
        0x41..=0x5a => f(u + 32),
        0x61..=0x7a => f(u - 32),
        0xc0..=0xde if u != 0xd7 => f(u + 32),
        0xe0..=0xfe if u != 0xf7 => f(u - 32),
        0x391..=0x3a9 if u != 0x3a2 && u != 0x3a3 => f(u + 32),
        0x3b1..=0x3c9 if u != 0x3c2 && u != 0x3c3 => f(u - 32),
        0x410..=0x42f => f(u + 32),
        0x430..=0x44f => f(u - 32),
        0x400..=0x40f => f(u + 80),
        0x450..=0x45f => f(u - 80),
        _ => c,
    }
}

const ASCII_SYM: &[u8] = b"!#%-_+=.,:;?@ ~^&*()[]{}|/<>";
/// profile: 0 ascii, 1 ascii+latin1, 2 multi-script, 3 heavy multi-byte clusters
fn gen_cluster(rng: &mut Rng, profile: u64) -> Cluster {
    let ascii = |rng: &mut Rng| -> char {
        match rng.below(10) {
            0..=4 => (b'a' + rng.below(26) as u8) as char,
            5 | 6 => (b'A' + rng.below(26) as u8) as char,
            7 | 8 => (b'0' + rng.below(10) as u8) as char,
            _ => *rng.pick(ASCII_SYM) as char,
        }
    };
    let pickc = |rng: &mut Rng, lo: u32, hi: u32| -> char { char::from_u32(rng.range(lo as u64, hi as u64) as u32).unwrap_or('x') };
    let k = match profile {
        0 => 0,
        1 => *rng.pick(&[0u64, 0, 0, 1, 1, 2]),
        2 => rng.below(9),
        _ => *rng.pick(&[0u64, 5, 6, 6, 7, 8, 9, 10, 11, 3]),
    };
    match k {
        0 => vec![ascii(rng)],
        1 => {
            // Latin-1 letters, both cases (not the multiplication / division signs)
            let mut c = pickc(rng, 0xc0, 0xff);
            if c as u32 == 0xd7 || c as u32 == 0xf7 {
                c = 'é';
            }
            vec![c]
        }
        2 => vec!['ß'],
        3 => {
            // Greek without capital sigma (position dependent lowercase) and the unassigned U+03A2
            let mut c = if rng.chance(1, 2) { pickc(rng, 0x391, 0x3a9) } else { pickc(rng, 0x3b1, 0x3c9) };
            if c as u32 == 0x3a2 || c as u32 == 0x3a3 {
                c = 'Ω';
            }
            vec![c]
        }
        4 => vec![if rng.chance(1, 2) { pickc(rng, 0x400, 0x42f) } else { pickc(rng, 0x430, 0x45f) }],
        5 => vec![pickc(rng, 0x4e00, 0x9fa5)],  // CJK, 3 bytes
        6 => vec![pickc(rng, 0x1f600, 0x1f64f)], // emoji, 4 bytes
        7 => vec![ascii(rng).to_ascii_uppercase(), '\u{301}'], // base + combining acute: 1 cluster, 2 scalars, 3 bytes
        8 => vec![(b'a' + rng.below(26) as u8) as char, '\u{301}', '\u{308}'],
        9 => vec!['\u{1f468}', '\u{200d}', '\u{1f469}'], // ZWJ sequence: 1 cluster, 11 bytes
        10 => vec!['\u{1f1e9}', '\u{1f1ea}'],            // regional indicator pair: 1 cluster, 8 bytes
        11 => {
            if rng.chance(1, 2) {
                vec!['\u{1f44d}', '\u{1f3fd}'] // emoji + skin tone modifier
            } else {
                vec![pickc(rng, 0xac00, 0xd7a3)] // precomposed Hangul syllable
            }
        }
        _ => vec!['\u{130}'], // capital dotted I: lowercase is two scalars
    }
}
fn gen_profile(rng: &mut Rng) -> u64 {
    *rng.pick(&[0u64, 0, 0, 0, 1, 2, 2, 3, 3])
}
fn gen_random_pw(rng: &mut Rng, n: usize, profile: u64) -> Pw {
    let mut p: Pw = (0..n).map(|_| gen_cluster(rng, profile)).collect();
    if profile == 2 && rng.chance(1, 6) && !p.is_empty() {
        let i = rng.below(p.len() as u64) as usize;
        p[i] = vec!['\u{130}'];
    }
    p
}
/// a password of exactly `target` UTF-8 bytes when possible (multi-byte clusters, padded with ASCII)
fn gen_bytes_pw(rng: &mut Rng, target: usize, profile: u64) -> Pw {
    let mut p: Pw = vec![];
    let mut b = 0usize;
    let mut guard = 0;
    while b < target && guard < 2000 {
        guard += 1;
        let c = gen_cluster(rng, profile);
        let cb: usize = c.iter().map(|x| x.len_utf8()).sum();
        if b + cb <= target {
            b += cb;
            p.push(c);
        } else {
            p.push(vec![(b'a' + rng.below(26) as u8) as char]);
            b += 1;
        }
    }
    rng.shuffle(&mut p);
    p
}
fn str_clusters_ascii(s: &str) -> Pw {
    s.chars().map(|c| vec![c]).collect()
}

// ------------------------------------------------------------------ configuration
#[derive(Clone, Debug)]
struct Cfg {
    /// account 0 = POSIX person, 1 = plain person
    acct: u64,
    /// per group 0..=3 (0 = idm_all_persons): (pwmin, cred type) to set, and whether the account is a member (groups 1..3)
    groups: Vec<(Option<u32>, Option<u16>, bool)>,
    badlist: Vec<Pw>,
    /// badlist as submitted (random case)
    badlist_submitted: Vec<String>,
    radius: Option<String>,
    mfa: bool,
}
/// what the server holds after the configuration was applied (read back from the entries)
#[derive(Clone, Debug)]
struct View {
    pols: Vec<(Option<u32>, Option<u16>)>,
    related: Vec<String>,
    radius: Option<String>,
    posix: bool,
    mfa: bool,
    badlist_submitted: Vec<String>,
}

const MINS: [u32; 16] = [0, 8, 10, 11, 12, 14, 15, 16, 17, 20, 24, 30, 40, 128, 129, 200];

fn gen_cfg(rng: &mut Rng) -> Cfg {
    let acct = if rng.chance(1, 7) { 1 } else { 0 };
    let mut groups = vec![];
    for g in 0..4 {
        let pwmin = if rng.chance(2, 5) {
            None
        } else if rng.chance(4, 5) {
            Some(*rng.pick(&MINS[..13]))
        } else {
            Some(*rng.pick(&MINS))
        };
        let cred = match rng.below(12) {
            0..=5 => None,
            6..=8 => Some(0u16),
            9 | 10 => Some(10),
            _ => *rng.pick(&[Some(5u16), Some(20)]),
        };
        let member = g == 0 || rng.chance(1, 2);
        groups.push((pwmin, cred, member));
    }
    let nb = rng.below(6) as usize;
    let mut badlist = vec![];
    let mut badlist_submitted = vec![];
    for _ in 0..nb {
        let n = *rng.pick(&[12usize, 15, 16, 18, 20, 24, 30, 40]);
        let prof = gen_profile(rng);
        let p = gen_random_pw(rng, n, prof);
        // the administrator submits it in random case
        let s: String = pw_string(&p).chars().map(|c| if rng.chance(1, 3) { flip(c) } else { c }).collect();
        badlist.push(p);
        badlist_submitted.push(s);
    }
    let radius = if rng.chance(1, 3) {
        let n = rng.range(6, 10) as usize;
        Some((0..n).map(|_| (b'a' + rng.below(26) as u8) as char).collect())
    } else {
        None
    };
    Cfg { acct, groups, badlist, badlist_submitted, radius, mfa: rng.chance(2, 3) }
}

struct Server {
    idms: IdmServer,
    cred_mfa: Credential,
    cred_pw: Credential,
}

fn ct() -> Duration {
    Duration::from_nanos(T0)
}

async fn setup() -> Server {
    let (idms, _delayed, _audit) = setup_idm_test(TestConfiguration::default()).await;
    let mut w = idms.proxy_write(ct()).await.expect("proxy_write");
    for g in 1..4u64 {
        let name = format!("c31pol{}", g);
        let e: Entry<EntryInit, EntryNew> = kanidmd_lib::entry_init!(
            (Attribute::Class, EntryClass::Object.to_value()),
            (Attribute::Class, EntryClass::Group.to_value()),
            (Attribute::Class, EntryClass::AccountPolicy.to_value()),
            (Attribute::Name, Value::new_iname(&name)),
            (Attribute::Uuid, Value::Uuid(group_uuid(g)))
        );
        w.qs_write.internal_create(vec![e]).expect("create policy group");
    }
    let e0: Entry<EntryInit, EntryNew> = kanidmd_lib::entry_init!(
        (Attribute::Class, EntryClass::Object.to_value()),
        (Attribute::Class, EntryClass::Account.to_value()),
        (Attribute::Class, EntryClass::Person.to_value()),
        (Attribute::Class, EntryClass::PosixAccount.to_value()),
        (Attribute::Name, Value::new_iname("c31alice")),
        (Attribute::Uuid, Value::Uuid(acct_uuid(0))),
        (Attribute::Description, Value::new_utf8s("c31alice")),
        (Attribute::DisplayName, Value::new_utf8s("Alice Crypt"))
    );
    let e1: Entry<EntryInit, EntryNew> = kanidmd_lib::entry_init!(
        (Attribute::Class, EntryClass::Object.to_value()),
        (Attribute::Class, EntryClass::Account.to_value()),
        (Attribute::Class, EntryClass::Person.to_value()),
        (Attribute::Name, Value::new_iname("c31bob")),
        (Attribute::Uuid, Value::Uuid(acct_uuid(1))),
        (Attribute::Description, Value::new_utf8s("c31bob")),
        (Attribute::DisplayName, Value::new_utf8s("Bob Plain"))
    );
    w.qs_write.internal_create(vec![e0, e1]).expect("create persons");
    w.commit().expect("commit");
    let pol = CryptoPolicy::danger_test_minimum();
    let cred_mfa = hook::password_credential(&pol, P0, true).expect("cred mfa");
    let cred_pw = hook::password_credential(&pol, P0, false).expect("cred pw");
    assert!(cred_mfa.is_mfa() && !cred_pw.is_mfa());
    Server { idms, cred_mfa, cred_pw }
}

fn policy_mods(pwmin: Option<u32>, cred: Option<u16>) -> Vec<Modify> {
    let mut ml = vec![Modify::Purged(Attribute::AuthPasswordMinimumLength), Modify::Purged(Attribute::CredentialTypeMinimum)];
    if let Some(m) = pwmin {
        ml.push(Modify::Present(Attribute::AuthPasswordMinimumLength, Value::Uint32(m)));
    }
    if let Some(c) = cred {
        let ctv = CredentialType::try_from(c).expect("credential type");
        ml.push(Modify::Present(Attribute::CredentialTypeMinimum, ctv.into()));
    }
    ml
}

async fn apply_cfg(srv: &Server, cf: &Cfg) -> View {
    let a = acct_uuid(cf.acct);
    {
        let mut w = srv.idms.proxy_write(ct()).await.expect("proxy_write");
        for (g, (pwmin, cred, member)) in cf.groups.iter().enumerate() {
            let gu = if g == 0 { UUID_IDM_ALL_PERSONS } else { group_uuid(g as u64) };
            let mut ml = policy_mods(*pwmin, *cred);
            if g != 0 {
                ml.push(Modify::Purged(Attribute::Member));
                if *member {
                    ml.push(Modify::Present(Attribute::Member, Value::Refer(a)));
                }
            }
            w.qs_write.internal_modify_uuid(gu, &ModifyList::new_list(ml)).expect("set group policy");
        }
        let mut ml = vec![Modify::Purged(Attribute::BadlistPassword)];
        for b in &cf.badlist_submitted {
            ml.push(Modify::Present(Attribute::BadlistPassword, Value::new_iutf8(b)));
        }
        w.qs_write.internal_modify_uuid(UUID_SYSTEM_CONFIG, &ModifyList::new_list(ml)).expect("set badlist");
        let mut ml = vec![
            Modify::Purged(Attribute::RadiusSecret),
            Modify::Purged(Attribute::UnixPassword),
            Modify::Purged(Attribute::PrimaryCredential),
            Modify::Purged(Attribute::CredentialUpdateIntentToken),
        ];
        if let Some(r) = &cf.radius {
            ml.push(Modify::Present(Attribute::RadiusSecret, Value::new_secret_str(r)));
        }
        let c = if cf.mfa { srv.cred_mfa.clone() } else { srv.cred_pw.clone() };
        ml.push(Modify::Present(Attribute::PrimaryCredential, Value::new_credential("primary", c)));
        w.qs_write.internal_modify_uuid(a, &ModifyList::new_list(ml)).expect("set account");
        w.commit().expect("commit cfg");
    }
    // read back what the server now holds
    let mut r = srv.idms.proxy_read().await.expect("proxy_read");
    let e = r.qs_read.internal_search_uuid(a).expect("account");
    let mut mo: Vec<Uuid> = e.get_ava_as_refuuid(Attribute::MemberOf).map(|i| i.collect()).unwrap_or_default();
    mo.sort();
    let mut pols = vec![];
    for g in mo {
        let ge = r.qs_read.internal_search_uuid(g).expect("group");
        if ge.attribute_equality(Attribute::Class, &EntryClass::AccountPolicy.to_partialvalue()) {
            pols.push((
                ge.get_ava_single_uint32(Attribute::AuthPasswordMinimumLength),
                ge.get_ava_single_credential_type(Attribute::CredentialTypeMinimum).map(|c| c as u16),
            ));
        }
    }
    let radius = e.get_ava_single_secret(Attribute::RadiusSecret).map(|s| s.to_string());
    // Account::related_inputs: mail*, spn, name, displayname, radius secret
    let mut related = vec![];
    related.push(e.get_ava_single_proto_string(Attribute::Spn).expect("spn"));
    related.push(e.get_ava_single_proto_string(Attribute::Name).expect("name"));
    related.push(e.get_ava_single_proto_string(Attribute::DisplayName).expect("displayname"));
    if let Some(s) = &radius {
        related.push(s.clone());
    }
    let posix = e.attribute_equality(Attribute::Class, &EntryClass::PosixAccount.to_partialvalue());
    let mfa = e.get_ava_single_credential(Attribute::PrimaryCredential).map(|c| c.is_mfa()).unwrap_or(false);
    View { pols, related, radius, posix, mfa, badlist_submitted: cf.badlist_submitted.clone() }
}

fn c_cfg(v: &View) -> String {
    let pols: Vec<String> = v
        .pols
        .iter()
        .map(|(m, c)| format!("({}, {})", copt(m, |x| cn(*x as u64)), copt(c, |x| cn(*x as u64))))
        .collect();
    capp(
        "mkcfg",
        &[
            clist_s(&pols),
            clist(&v.badlist_submitted, |b| c_str(b)),
            clist(&v.related, |b| c_str(b)),
            copt(&v.radius, |r| c_str(r)),
            cbool(v.posix),
            cbool(v.mfa),
        ],
    )
}
fn t_cfg(v: &View) -> String {
    let pols: Vec<String> = v.pols.iter().map(|(m, c)| format!("({:?},{:?})", m, c)).collect();
    let bad: Vec<String> = v.badlist_submitted.iter().map(|b| t_str(b)).collect();
    format!(
        "pols=[{}] posix={} mfa={} radius={:?} badlist=[{}]",
        pols.join(" "),
        v.posix,
        v.mfa,
        v.radius,
        bad.join(" | ")
    )
}

// ------------------------------------------------------------------ results
#[derive(Clone, Debug, PartialEq)]
enum Res {
    Ok,
    TooShort(u32),
    TooLong(u32),
    Reuse,
    Related,
    Weak,
    BadListed,
    Other(u64),
}
fn res_of(e: &OperationError) -> Res {
    match e {
        OperationError::PasswordQuality(v) => match v.as_slice() {
            [PasswordFeedback::TooShort(n)] => Res::TooShort(*n),
            [PasswordFeedback::TooLong(n)] => Res::TooLong(*n),
            [PasswordFeedback::DontReusePasswords] => Res::Reuse,
            [PasswordFeedback::BadListed] => Res::BadListed,
            [PasswordFeedback::NamesAndSurnamesByThemselvesAreEasyToGuess, PasswordFeedback::AvoidDatesAndYearsThatAreAssociatedWithYou] => Res::Related,
            _ => Res::Weak,
        },
        OperationError::AccessDenied => Res::Other(1),
        OperationError::InvalidState => Res::Other(2),
        OperationError::MissingClass(_) => Res::Other(3),
        OperationError::CU0004SessionInconsistent => Res::Other(4),
        _ => Res::Other(99),
    }
}
fn c_res(r: &Res) -> String {
    match r {
        Res::Ok => "ROk".into(),
        Res::TooShort(n) => capp("RTooShort", &[cn(*n as u64)]),
        Res::TooLong(n) => capp("RTooLong", &[cn(*n as u64)]),
        Res::Reuse => "RReuse".into(),
        Res::Related => "RRelated".into(),
        Res::Weak => "RWeak".into(),
        Res::BadListed => "RBadListed".into(),
        Res::Other(c) => capp("ROther", &[cn(*c)]),
    }
}

// ------------------------------------------------------------------ password generator
struct PwCtx<'a> {
    view: &'a View,
    badlist: &'a [Pw],
}
fn gen_pw(rng: &mut Rng, cx: &PwCtx<'_>) -> (Pw, &'static str) {
    // lengths worth aiming at: every group minimum and the constants, +-1
    let mut targets: Vec<usize> = vec![10, 15, 128];
    for (m, _) in &cx.view.pols {
        if let Some(m) = m {
            if *m > 0 && *m < 260 {
                targets.push(*m as usize);
            }
        }
    }
    let around = |rng: &mut Rng, targets: &[usize]| -> usize {
        let t = *rng.pick(targets) as i64 + rng.range(0, 4) as i64 - 2;
        t.max(1) as usize
    };
    match rng.below(20) {
        0..=6 => {
            let n = around(rng, &targets);
            let prof = gen_profile(rng);
            (gen_random_pw(rng, n, prof), "len_graphemes")
        }
        7..=9 => {
            // aimed at the byte window of the POSIX path with multi-byte clusters
            let t = *rng.pick(&[15usize, 15, 15, 128, 128, 30, 40]) as i64 + rng.range(0, 4) as i64 - 2;
            let prof = *rng.pick(&[1u64, 2, 3, 3]);
            (gen_bytes_pw(rng, t.max(1) as usize, prof), "len_bytes")
        }
        10 | 11 => {
            let n = rng.range(16, 40) as usize;
            let prof = gen_profile(rng);
            (gen_random_pw(rng, n, prof), "random")
        }
        12..=14 => {
            if cx.badlist.is_empty() {
                let prof = gen_profile(rng);
                (gen_random_pw(rng, 20, prof), "random")
            } else {
                let b = rng.pick(cx.badlist).clone();
                let mut p: Pw = b.iter().map(|c| c.iter().map(|x| if rng.chance(1, 2) { flip(*x) } else { *x }).collect()).collect();
                match rng.below(8) {
                    0 => {
                        // near miss: one more cluster
                        p.push(gen_cluster(rng, 0));
                        (p, "badlist_near")
                    }
                    1 => {
                        p.pop();
                        (p, "badlist_near")
                    }
                    _ => (p, "badlist_member"),
                }
            }
        }
        15 => {
            let w = *rng.pick(&[
                "passwordpassword",
                "aaaaaaaaaaaaaaaaaaaa",
                "qwertyuiopasdfghjkl",
                "abcdefghijklmnopqrstuvwx",
                "Password123456789",
                "correct horse battery",
                "letmein-letmein-2024",
                "Tr0ub4dour&3-Tr0ub4dour",
                "zxcvbn-monkey-dragon",
                "sunshine princess 99",
            ]);
            (str_clusters_ascii(w), "weak")
        }
        16 => {
            // mildly guessable: a few dictionary words and digits
            const WORDS: [&str; 10] = ["river", "stone", "maple", "cloud", "tiger", "amber", "frost", "piano", "delta", "ocean"];
            let k = rng.range(2, 4);
            let mut s = String::new();
            for _ in 0..k {
                s.push_str(rng.pick(&WORDS));
                if rng.chance(1, 2) {
                    s.push((b'0' + rng.below(10) as u8) as char);
                }
            }
            (str_clusters_ascii(&s), "words")
        }
        17 | 18 => {
            // contains a related input or the RADIUS secret
            let mut pool: Vec<String> = vec![cx.view.related[1].clone()];
            if let Some(r) = &cx.view.radius {
                pool.push(r.clone());
                pool.push(r.clone());
            }
            let inner = rng.pick(&pool).clone();
            let (n1, n2) = (rng.range(4, 12) as usize, rng.range(4, 12) as usize);
            let mut p = gen_random_pw(rng, n1, 0);
            p.extend(str_clusters_ascii(&inner));
            p.extend(gen_random_pw(rng, n2, 0));
            (p, "related")
        }
        _ => {
            let n = *rng.pick(&[0usize, 1, 5, 127, 128, 129, 130, 140]);
            let prof = gen_profile(rng);
            (gen_random_pw(rng, n, prof), "extreme")
        }
    }
}

// ------------------------------------------------------------------ running requests
async fn read_cred(srv: &Server, a: Uuid, attr: Attribute) -> Option<Credential> {
    let mut r = srv.idms.proxy_read().await.expect("proxy_read");
    let e = r.qs_read.internal_search_uuid(a).expect("account");
    e.get_ava_single_credential(attr).cloned()
}
fn verifies(c: &Credential, pw: &str) -> bool {
    c.password_ref().map(|p| p.verify(pw).unwrap_or(false)).unwrap_or(false)
}
fn zx(pw: &str, v: &View) -> u64 {
    let rel: Vec<&str> = v.related.iter().map(|s| s.as_str()).collect();
    hook::zxcvbn_score(pw, &rel) as u64
}

struct Stats {
    stored: u64,
    refused: u64,
}

async fn do_posix(srv: &Server, a: Uuid, v: &View, pw: &Pw, sink: &mut Sink, st: &mut Stats) -> (String, String) {
    let s = pw_string(pw);
    let z = zx(&s, v);
    let before = read_cred(srv, a, Attribute::UnixPassword).await;
    let res = {
        let mut w = srv.idms.proxy_write(ct()).await.expect("proxy_write");
        let e = w.qs_write.internal_search_uuid(a).expect("account");
        let ident = Identity::from_impersonate_entry_readwrite(e);
        let ev = UnixPasswordChangeEvent::from_parts(ident, a, s.clone()).expect("event");
        match w.set_unix_account_password(&ev) {
            Ok(()) => {
                w.commit().expect("commit");
                Res::Ok
            }
            Err(e) => res_of(&e),
        }
    };
    let after = read_cred(srv, a, Attribute::UnixPassword).await;
    // Password::verify refuses any cleartext above PW_MAX_LENGTH_CHECK (512) bytes, so such a stored password can
    // not be recognised by verifying it; it is attributed to the request when that request was accepted
    let chg = if before == after {
        0
    } else if after.as_ref().map(|c| if s.len() > UNVERIFIABLE { res == Res::Ok } else { verifies(c, &s) }).unwrap_or(false) {
        1
    } else {
        2
    };
    if chg == 1 && s.len() > UNVERIFIABLE {
        sink.bump("stored_but_unverifiable_over_512_bytes");
    }
    if chg != 0 { st.stored += 1 } else { st.refused += 1 }
    sink.bump(&format!("posix_{}", kind_of(&res)));
    (
        capp("IPosix", &[c_pw(pw), cn(z), c_res(&res), cn(chg)]),
        format!("posix pw=\"{}\" bytes={} graphemes={} zx={} -> {:?} stored_change={}", t_str(&s), s.len(), pw.len(), z, res, chg),
    )
}
fn kind_of(r: &Res) -> &'static str {
    match r {
        Res::Ok => "ok",
        Res::TooShort(_) => "tooshort",
        Res::TooLong(_) => "toolong",
        Res::Reuse => "reuse",
        Res::Related => "related",
        Res::Weak => "weak",
        Res::BadListed => "badlisted",
        Res::Other(_) => "other",
    }
}

#[derive(Clone)]
enum SOp {
    Primary(Pw),
    Unix(Pw),
    Check(Pw),
}

async fn do_sess(srv: &Server, a: Uuid, v: &View, ops: &[SOp], sink: &mut Sink, st: &mut Stats) -> (String, String) {
    let before_p = read_cred(srv, a, Attribute::PrimaryCredential).await;
    let before_u = read_cred(srv, a, Attribute::UnixPassword).await;
    let cust = {
        let mut w = srv.idms.proxy_write(ct()).await.expect("proxy_write");
        let e = w.qs_write.internal_search_uuid(a).expect("account");
        let (cust, _status) = w
            .init_credential_update(&InitCredentialUpdateEvent::new(Identity::from_impersonate_entry_readwrite(e), a), ct())
            .expect("init_credential_update");
        w.commit().expect("commit");
        cust
    };
    let mut coq_ops = vec![];
    let mut coq_res = vec![];
    let mut results = vec![];
    let mut txt = String::new();
    {
        let cu = srv.idms.cred_update_transaction().await.expect("cutxn");
        for op in ops {
            let (ctor, pw, name) = match op {
                SOp::Primary(p) => ("SSetPrimary", p, "primary"),
                SOp::Unix(p) => ("SSetUnix", p, "unix"),
                SOp::Check(p) => ("SCheck", p, "check"),
            };
            let s = pw_string(pw);
            let z = zx(&s, v);
            let r = match op {
                SOp::Primary(_) => cu.credential_primary_set_password(&cust, ct(), &s),
                SOp::Unix(_) => cu.credential_unix_set_password(&cust, ct(), &s),
                SOp::Check(_) => cu.credential_check_password_quality(&cust, ct(), &s),
            };
            let res = match r {
                Ok(_) => Res::Ok,
                Err(e) => res_of(&e),
            };
            sink.bump(&format!("cu_{}_{}", name, kind_of(&res)));
            coq_ops.push(capp(ctor, &[c_pw(pw), cn(z)]));
            coq_res.push(c_res(&res));
            results.push(res.clone());
            txt.push_str(&format!(" {}(pw=\"{}\" bytes={} graphemes={} zx={})->{:?};", name, t_str(&s), s.len(), pw.len(), z, res));
        }
    }
    let commit = {
        let mut w = srv.idms.proxy_write(ct()).await.expect("proxy_write");
        match w.commit_credential_update(&cust, ct()) {
            Ok(()) => {
                w.commit().expect("commit");
                0
            }
            Err(e) => match res_of(&e) {
                Res::Other(c) => c,
                _ => 98,
            },
        }
    };
    let after_p = read_cred(srv, a, Attribute::PrimaryCredential).await;
    let after_u = read_cred(srv, a, Attribute::UnixPassword).await;
    // which request's password does the stored credential verify now (latest request of the right kind)?
    let find = |after: &Option<Credential>, before: &Option<Credential>, primary: bool| -> u64 {
        if after == before {
            return 0;
        }
        let c = match after {
            Some(c) => c,
            None => return 998,
        };
        for (i, op) in ops.iter().enumerate().rev() {
            let p = match (op, primary) {
                (SOp::Primary(p), true) => p,
                (SOp::Unix(p), false) => p,
                _ => continue,
            };
            let s = pw_string(p);
            // see do_posix: above 512 bytes a stored password cannot be verified
            let hit = if s.len() > UNVERIFIABLE { results[i] == Res::Ok } else { verifies(c, &s) };
            if hit {
                return i as u64 + 1;
            }
        }
        999
    };
    let stp = find(&after_p, &before_p, true);
    let stu = find(&after_u, &before_u, false);
    for k in [stp, stu] {
        if k >= 1 && k <= ops.len() as u64 {
            let p = match &ops[(k - 1) as usize] {
                SOp::Primary(p) | SOp::Unix(p) | SOp::Check(p) => p,
            };
            if pw_string(p).len() > UNVERIFIABLE {
                sink.bump("stored_but_unverifiable_over_512_bytes");
            }
        }
    }
    if stp != 0 || stu != 0 { st.stored += 1 } else { st.refused += 1 }
    sink.bump(if commit == 0 { "cu_commit_ok" } else { "cu_commit_refused" });
    (
        capp("ISess", &[clist_s(&coq_ops), clist_s(&coq_res), cn(commit), cn(stp), cn(stu)]),
        format!("session{} commit={} stored_primary={} stored_unix={}", txt, commit, stp, stu),
    )
}

async fn run_group(srv: &Server, rng: &mut Rng, sink: &mut Sink, n_posix: usize, n_sess: usize) {
    let cf = gen_cfg(rng);
    let v = apply_cfg(srv, &cf).await;
    let a = acct_uuid(cf.acct);
    let cx = PwCtx { view: &v, badlist: &cf.badlist };
    let mut items = vec![];
    let mut txt = format!("group acct={} {} ::", cf.acct, t_cfg(&v));
    let mut st = Stats { stored: 0, refused: 0 };
    // interleave sessions and direct POSIX changes
    let mut plan: Vec<bool> = std::iter::repeat(true).take(n_posix).chain(std::iter::repeat(false).take(n_sess)).collect();
    rng.shuffle(&mut plan);
    for is_posix in plan {
        let (c, t) = if is_posix {
            let (pw, kind) = gen_pw(rng, &cx);
            sink.bump(&format!("pw_{}", kind));
            do_posix(srv, a, &v, &pw, sink, &mut st).await
        } else {
            let n = rng.range(1, 4);
            let mut ops = vec![];
            for _ in 0..n {
                let (pw, kind) = gen_pw(rng, &cx);
                sink.bump(&format!("pw_{}", kind));
                ops.push(match rng.below(7) {
                    0..=2 => SOp::Primary(pw),
                    3..=5 => SOp::Unix(pw),
                    _ => SOp::Check(pw),
                });
            }
            do_sess(srv, a, &v, &ops, sink, &mut st).await
        };
        items.push(c);
        txt.push_str(" [");
        txt.push_str(&t);
        txt.push(']');
    }
    sink.add_stat("requests_stored", st.stored);
    sink.add_stat("requests_not_stored", st.refused);
    // non-trivial: in this configuration at least one password was stored and at least one refused
    let nontrivial = st.stored >= 1 && st.refused >= 1;
    sink.case(capp("CGroup", &[c_cfg(&v), clist_s(&items)]), txt, nontrivial);
}

fn emit_len(rng: &mut Rng, sink: &mut Sink, n: usize) {
    let mut recs = vec![];
    let mut txt = String::from("len");
    for _ in 0..n {
        let prof = *rng.pick(&[1u64, 2, 3, 3]);
        let k = rng.range(0, 24) as usize;
        let pw = gen_random_pw(rng, k, prof);
        let s = pw_string(&pw);
        let low = s.to_lowercase();
        let g = hook::utf8_len(&s);
        recs.push(capp("LenRec", &[c_pw(&pw), cn(s.len() as u64), cn(g as u64), c_str(&low)]));
        txt.push_str(&format!(" [\"{}\" bytes={} graphemes={}]", t_str(&s), s.len(), g));
    }
    sink.case(capp("CLen", &[clist_s(&recs)]), txt, true);
    sink.bump("len_batches");
}

async fn probe(srv: &Server, out: &std::path::Path) {
    // the defect class on the pinned tree: policy minimum 30, an 18 character POSIX password
    let cf = Cfg {
        acct: 0,
        groups: vec![(Some(30), None, true), (None, None, false), (None, None, false), (None, None, false)],
        badlist: vec![],
        badlist_submitted: vec![],
        radius: None,
        mfa: true,
    };
    let v = apply_cfg(srv, &cf).await;
    println!("probe view: {}", t_cfg(&v));
    let args = Args { seed: 1, thorough: false, out: out.join("probe"), extra: vec![] };
    let mut sink = Sink::new(&args, "KV.C31.Model", 10);
    let mut st = Stats { stored: 0, refused: 0 };
    let comb: Pw = "kqzvwxjpg".chars().map(|c| vec![c, '\u{301}']).collect();
    for pw in [str_clusters_ascii("eiK7ohvie4Aeph9Eix"), comb] {
        let (_, t) = do_posix(srv, acct_uuid(0), &v, &pw, &mut sink, &mut st).await;
        println!("probe: {}", t);
    }
    let ops = vec![SOp::Unix(str_clusters_ascii("eiK7ohvie4Aeph9Eix")), SOp::Primary(str_clusters_ascii("eiK7ohvie4Aeph9Eix-eiK7ohvie4Aeph9Eix"))];
    let (_, t) = do_sess(srv, acct_uuid(0), &v, &ops, &mut sink, &mut st).await;
    println!("probe: {}", t);
    let _ = std::fs::remove_dir_all(&args.out);
}

fn main() {
    let args = parse_args();
    let mut rng = Rng::new(args.seed);
    let rt = tokio::runtime::Builder::new_current_thread().enable_all().build().expect("rt");
    if args.extra.iter().any(|a| a == "--probe") {
        rt.block_on(async {
            let srv = setup().await;
            probe(&srv, &args.out).await;
        });
        return;
    }
    let mut sink = Sink::new(&args, "KV.C31.Model", 6);
    sink.rule = "One real IdmServer. Each case is one random configuration (up to 4 account-policy groups incl. idm_all_persons with \
minimum lengths from {unset,0,8,10..17,20,24,30,40,128,129,200} and credential type minimums from {unset,any,external,mfa,passkey}, random membership, \
0..5 badlist entries submitted in random case, optional RADIUS secret, POSIX or plain person, primary credential with/without TOTP) followed by \
direct POSIX password changes and credential-update sessions (1..4 set-primary / set-unix / check requests, then commit). Passwords: grapheme counts \
within +-2 of every group minimum and of 10/15/128; UTF-8 byte counts within +-2 of 15/128 built from multi-byte clusters (Latin-1, Greek, Cyrillic, CJK, emoji, \
combining sequences, ZWJ sequences, flags, Hangul, U+0130); badlist members in random case and near misses; dictionary/weak passwords; passwords containing the \
account name or RADIUS secret; empty and 127..140 cluster passwords. After every direct change and every commit the stored credentials are read back and \
matched against the submitted passwords. CLen cases tie str::len / utf8_len / to_lowercase to the model's string functions. \
non-trivial = within one configuration at least one password was stored and at least one request was refused.".into();
    rt.block_on(async {
        let srv = setup().await;
        let n_groups = if args.thorough { 1000 } else { 80 };
        for i in 0..n_groups {
            if i % 10 == 0 {
                emit_len(&mut rng, &mut sink, 40);
            }
            run_group(&srv, &mut rng, &mut sink, 10, 5).await;
        }
    });
    sink.finish();
}
