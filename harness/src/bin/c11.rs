//! C11 — replicated merges of session / oauth2-session / key-internal / audit-log valuesets.
//!
//! Every case is a small family of replica states `(attribute change id, valueset)` plus a
//! trim cid. The REAL `Entry::merge_state` (through verif_hooks::c11::merge_attr) is run for
//! a list of merge trees ("shapes") over those replicas — every order and every grouping —
//! and every result is recorded. The Coq model evaluates the same shapes (`agree`) and the
//! property predicate (`pcheck`) compares the implementation's own results with each other.
use kanidmd_lib::prelude::*;
use kanidmd_lib::schema::SchemaTransaction;
use kanidmd_lib::testkit::{setup_test, TestConfiguration};
use kanidmd_lib::value::{AuthType, Oauth2Session, Session, SessionExtMetadata, SessionState};
use kanidmd_lib::valueset::{ValueSet, ValueSetAuditLogString, ValueSetOauth2Session, ValueSetSession};
use kanidmd_lib::verif_hooks::c11::{key_internal_build, key_internal_dump, merge_attr, HookKey};
use kvh::*;
use std::collections::BTreeMap;

// ---------------------------------------------------------------- plain mirrors
type C = (u64, u64); // cid = (ts nanos, server id)

#[derive(Clone, Debug, PartialEq, Eq)]
enum St {
    Rev(C),
    Exp(u64),
    Never,
}
/// session / oauth2 session element: key, state, issued_at (s), payload id
type SEl = (u64, St, u64, u64);
/// key element: key, status (0 valid 1 retained 2 revoked), status_cid, payload id
type KEl = (u64, u8, C, u64);
/// audit element: cid, string id
type AEl = (C, u64);

#[derive(Clone, Debug)]
enum Map {
    Sess(Vec<SEl>),
    Oauth(Vec<SEl>),
    Key(Vec<KEl>),
    Audit(Vec<AEl>),
}

#[derive(Clone, Debug, PartialEq, Eq, PartialOrd, Ord)]
enum Shape {
    L(usize),
    N(Box<Shape>, Box<Shape>),
}
fn nd(a: Shape, b: Shape) -> Shape {
    Shape::N(Box::new(a), Box::new(b))
}

fn cid(c: C) -> Cid {
    Cid { ts: Duration::from_nanos(c.0), s_uuid: Uuid::from_u128(c.1 as u128) }
}
fn uncid(c: &Cid) -> C {
    (c.ts.as_nanos() as u64, c.s_uuid.as_u128() as u64)
}
// `time::OffsetDateTime` is not a dependency of this crate: values are made through
// kanidm's own `From<&Cid> for OffsetDateTime` (UNIX_EPOCH + ts) and read by method call.
macro_rules! odt {
    ($s:expr) => {
        (&Cid { ts: Duration::from_secs($s), s_uuid: Uuid::from_u128(0) }).into()
    };
}
macro_rules! unodt {
    ($t:expr) => {
        ($t).unix_timestamp() as u64
    };
}
fn st_to(s: &St) -> SessionState {
    match s {
        St::Rev(c) => SessionState::RevokedAt(cid(*c)),
        St::Exp(t) => SessionState::ExpiresAt(odt!(*t)),
        St::Never => SessionState::NeverExpires,
    }
}
fn st_from(s: &SessionState) -> St {
    match s {
        SessionState::RevokedAt(c) => St::Rev(uncid(c)),
        SessionState::ExpiresAt(t) => St::Exp(unodt!(t)),
        SessionState::NeverExpires => St::Never,
    }
}

/// every non-state, non-issued_at field of a session is a function of the payload id
fn mk_session(state: St, issued: u64, p: u64) -> Session {
    Session {
        label: format!("p{}", p),
        state: st_to(&state),
        issued_at: odt!(issued),
        issued_by: IdentityId::User(Uuid::from_u128(1000 + p as u128)),
        cred_id: Uuid::from_u128(2000 + p as u128),
        scope: match p % 3 {
            0 => SessionScope::ReadOnly,
            1 => SessionScope::ReadWrite,
            _ => SessionScope::PrivilegeCapable,
        },
        type_: if p % 2 == 0 { AuthType::Passkey } else { AuthType::PasswordTotp },
        ext_metadata: SessionExtMetadata::None,
    }
}
fn session_payload(s: &Session) -> u64 {
    let p = s.label.strip_prefix('p').and_then(|x| x.parse::<u64>().ok()).unwrap_or(999_999);
    let want = mk_session(st_from(&s.state), unodt!(&s.issued_at), p);
    if &want == s {
        p
    } else {
        999_999
    }
}
fn mk_oauth(state: St, issued: u64, p: u64) -> Oauth2Session {
    Oauth2Session {
        parent: if p % 4 == 3 { None } else { Some(Uuid::from_u128(3000 + p as u128)) },
        state: st_to(&state),
        issued_at: odt!(issued),
        rs_uuid: Uuid::from_u128(4000 + p as u128),
    }
}
fn oauth_payload(s: &Oauth2Session, hint: &[u64]) -> u64 {
    for p in hint {
        if &mk_oauth(st_from(&s.state), unodt!(&s.issued_at), *p) == s {
            return *p;
        }
    }
    999_999
}
fn mk_key(e: &KEl) -> HookKey {
    let p = e.3;
    HookKey {
        id: format!("{:04x}", e.0),
        usage: (p % 5) as u8,
        valid_from: 100 + p,
        status: e.1,
        status_cid: cid(e.2),
        der: vec![(p % 251) as u8; (p % 4) as usize],
    }
}
fn unkey(h: &HookKey, hint: &[u64]) -> KEl {
    let k = u64::from_str_radix(&h.id, 16).unwrap_or(999_999);
    let c = uncid(&h.status_cid);
    for p in hint {
        if &mk_key(&(k, h.status, c, *p)) == h {
            return (k, h.status, c, *p);
        }
    }
    (k, h.status, c, 999_999)
}

fn build(m: &Map) -> ValueSet {
    match m {
        Map::Sess(v) => ValueSetSession::from_iter(v.iter().map(|(k, s, i, p)| (Uuid::from_u128(*k as u128), mk_session(s.clone(), *i, *p)))).expect("vs"),
        Map::Oauth(v) => ValueSetOauth2Session::from_iter(v.iter().map(|(k, s, i, p)| (Uuid::from_u128(*k as u128), mk_oauth(s.clone(), *i, *p)))).expect("vs"),
        Map::Key(v) => key_internal_build(&v.iter().map(mk_key).collect::<Vec<_>>()).expect("vs"),
        Map::Audit(v) => ValueSetAuditLogString::from_dbvs2(v.iter().map(|(c, p)| (cid(*c), format!("s{}", p))).collect()).expect("vs"),
    }
}
fn dump(like: &Map, vs: &ValueSet, hint: &[u64]) -> Option<Map> {
    Some(match like {
        Map::Sess(_) => Map::Sess(
            vs.as_session_map()?.iter().map(|(u, s)| (u.as_u128() as u64, st_from(&s.state), unodt!(&s.issued_at), session_payload(s))).collect(),
        ),
        Map::Oauth(_) => Map::Oauth(
            vs.as_oauth2session_map()?.iter().map(|(u, s)| (u.as_u128() as u64, st_from(&s.state), unodt!(&s.issued_at), oauth_payload(s, hint))).collect(),
        ),
        Map::Key(_) => Map::Key(key_internal_dump(vs)?.iter().map(|h| unkey(h, hint)).collect()),
        Map::Audit(_) => Map::Audit(
            vs.as_audit_log_string()?
                .iter()
                .map(|(c, s)| (uncid(c), s.strip_prefix('s').and_then(|x| x.parse::<u64>().ok()).unwrap_or(999_999)))
                .collect(),
        ),
    })
}
fn attr_of(m: &Map) -> Attribute {
    match m {
        Map::Sess(_) => Attribute::UserAuthTokenSession,
        Map::Oauth(_) => Attribute::OAuth2Session,
        Map::Key(_) => Attribute::KeyInternalData,
        Map::Audit(_) => Attribute::NameHistory,
    }
}

// ---------------------------------------------------------------- Coq printers
fn ccid(c: C) -> String {
    format!("({}, {})", cn(c.0), cn(c.1))
}
fn cst(s: &St) -> String {
    match s {
        St::Rev(c) => format!("(RevokedAt {})", ccid(*c)),
        St::Exp(t) => format!("(ExpiresAt {})", cn(*t)),
        St::Never => "NeverExpires".into(),
    }
}
fn cmap(m: &Map) -> String {
    match m {
        Map::Sess(v) | Map::Oauth(v) => clist(v, |(k, s, i, p)| format!("({}, ({}, {}, {}))", cn(*k), cst(s), cn(*i), cn(*p))),
        Map::Key(v) => clist(v, |(k, s, c, p)| {
            format!("({}, ({}, {}, {}))", cn(*k), ["KValid", "KRetained", "KRevoked"][*s as usize], ccid(*c), cn(*p))
        }),
        Map::Audit(v) => clist(v, |(c, p)| format!("({}, {})", ccid(*c), cn(*p))),
    }
}
fn cshape(s: &Shape) -> String {
    match s {
        Shape::L(i) => format!("(L {})", cn(*i as u64)),
        Shape::N(a, b) => format!("(Nd {} {})", cshape(a), cshape(b)),
    }
}
fn tst(s: &St) -> String {
    match s {
        St::Rev(c) => format!("Rev{}.{}", c.0, c.1),
        St::Exp(t) => format!("Exp{}", t),
        St::Never => "Never".into(),
    }
}
fn tmap(m: &Map) -> String {
    match m {
        Map::Sess(v) | Map::Oauth(v) => v.iter().map(|(k, s, i, p)| format!("{}:{}/i{}/p{}", k, tst(s), i, p)).collect::<Vec<_>>().join(","),
        Map::Key(v) => v.iter().map(|(k, s, c, p)| format!("{}:{}@{}.{}/p{}", k, ["Valid", "Retained", "Revoked"][*s as usize], c.0, c.1, p)).collect::<Vec<_>>().join(","),
        Map::Audit(v) => v.iter().map(|(c, p)| format!("{}.{}:s{}", c.0, c.1, p)).collect::<Vec<_>>().join(","),
    }
}
fn tshape(s: &Shape) -> String {
    match s {
        Shape::L(i) => format!("{}", i),
        Shape::N(a, b) => format!("({}+{})", tshape(a), tshape(b)),
    }
}

// ---------------------------------------------------------------- running the implementation
struct Runner<'a> {
    schema: &'a dyn SchemaTransaction,
    trim: C,
    like: Map,
    hint: Vec<u64>,
    ins: Vec<(Cid, ValueSet)>,
    memo: BTreeMap<Shape, Option<(Cid, ValueSet)>>,
}
impl<'a> Runner<'a> {
    fn eval(&mut self, s: &Shape) -> Option<(Cid, ValueSet)> {
        if let Some(r) = self.memo.get(s) {
            return r.clone();
        }
        let r = match s {
            Shape::L(i) => self.ins.get(*i).cloned(),
            Shape::N(a, b) => {
                let l = self.eval(a);
                let r = self.eval(b);
                match (l, r) {
                    (Some(l), Some(r)) => {
                        let attr = attr_of(&self.like);
                        let trim = cid(self.trim);
                        let schema = self.schema;
                        let res = guarded(std::panic::AssertUnwindSafe(|| merge_attr(&attr, (&l.0, &l.1), (&r.0, &r.1), schema, &trim)));
                        match res {
                            Ok((Some(c), Some(vs))) => Some((c, vs)),
                            _ => None,
                        }
                    }
                    _ => None,
                }
            }
        };
        self.memo.insert(s.clone(), r.clone());
        r
    }
}

fn shapes_for(n: usize, full: bool) -> Vec<Shape> {
    use Shape::L;
    let mut v = vec![];
    for i in 0..n {
        v.push(nd(L(i), L(i)));
    }
    for i in 0..n {
        for j in 0..n {
            if i != j {
                v.push(nd(L(i), L(j)));
            }
        }
    }
    if n >= 2 {
        // absorption: merging a result again with one of its own inputs
        v.push(nd(nd(L(0), L(1)), L(1)));
        v.push(nd(L(0), nd(L(0), L(1))));
    }
    if n >= 3 {
        let perms: &[[usize; 3]] = if full {
            &[[0, 1, 2], [0, 2, 1], [1, 0, 2], [1, 2, 0], [2, 0, 1], [2, 1, 0]]
        } else {
            &[[0, 1, 2], [2, 0, 1]]
        };
        for p in perms {
            v.push(nd(nd(L(p[0]), L(p[1])), L(p[2])));
            v.push(nd(L(p[0]), nd(L(p[1]), L(p[2]))));
        }
    }
    v
}

struct Ctx<'a> {
    schema: &'a dyn SchemaTransaction,
    sink: Sink,
}

/// nontrivial: the caller's judgement that preconditions hold and some key is contested
fn emit(cx: &mut Ctx, tag: &str, trim: C, ins: &[(C, Map)], full_shapes: bool, nontrivial: bool) {
    let like = ins[0].1.clone();
    let mut hint: Vec<u64> = vec![];
    for (_, m) in ins {
        match m {
            Map::Sess(v) | Map::Oauth(v) => hint.extend(v.iter().map(|e| e.3)),
            Map::Key(v) => hint.extend(v.iter().map(|e| e.3)),
            Map::Audit(_) => {}
        }
    }
    hint.sort();
    hint.dedup();
    let mut r = Runner {
        schema: cx.schema,
        trim,
        like: like.clone(),
        hint,
        ins: ins.iter().map(|(c, m)| (cid(*c), build(m))).collect(),
        memo: BTreeMap::new(),
    };
    let shapes = shapes_for(ins.len(), full_shapes);
    let mut outs_c = vec![];
    let mut outs_t = vec![];
    for s in &shapes {
        let o = r.eval(s).and_then(|(c, vs)| dump(&like, &vs, &r.hint).map(|m| (uncid(&c), m)));
        outs_c.push(format!("({}, {})", cshape(s), copt(&o, |(c, m)| format!("({}, {})", ccid(*c), cmap(m)))));
        outs_t.push(format!("{}=>{}", tshape(s), match &o { Some((c, m)) => format!("@{}.{}{{{}}}", c.0, c.1, tmap(m)), None => "FAIL".into() }));
    }
    let ins_c = clist(ins, |(c, m)| format!("({}, {})", ccid(*c), cmap(m)));
    let ins_t = ins.iter().map(|(c, m)| format!("@{}.{}{{{}}}", c.0, c.1, tmap(m))).collect::<Vec<_>>().join(" | ");
    let head = match &like {
        Map::Sess(_) => "CSess false".to_string(),
        Map::Oauth(_) => "CSess true".to_string(),
        Map::Key(_) => "CKey".to_string(),
        Map::Audit(_) => "CAudit".to_string(),
    };
    let coq = format!("({} {} {} {})", head, ccid(trim), ins_c, clist_s(&outs_c));
    let txt = format!("{} trim={}.{} ins: {} outs: {}", tag, trim.0, trim.1, ins_t, outs_t.join(" ; "));
    cx.sink.bump(tag);
    if nontrivial {
        cx.sink.bump("nontrivial");
    }
    cx.sink.case(coq, txt, nontrivial);
}

// ---------------------------------------------------------------- generators
const TRIM: C = (10, 2);
const DEAD: [C; 3] = [(4, 1), (10, 1), (9, 3)];
const LIVE: [C; 4] = [(10, 2), (12, 1), (12, 3), (15, 2)];

fn attr_cids(rng: &mut Rng, n: usize) -> Vec<C> {
    let mut v: Vec<C> = vec![(20, 1), (20, 2), (21, 2), (22, 3), (23, 1)];
    rng.shuffle(&mut v);
    v.truncate(n);
    if rng.chance(1, 25) && n >= 2 {
        v[1] = v[0]; // equal change ids (outside the property's quantifier; correspondence only)
    }
    v
}

/// session state palette: index 0 = absent
fn sess_state(i: u64) -> Option<St> {
    match i {
        0 => None,
        1 => Some(St::Never),
        2 => Some(St::Exp(5)),
        3 => Some(St::Exp(9)),
        4 => Some(St::Rev(DEAD[0])),
        5 => Some(St::Rev(LIVE[1])),
        _ => Some(St::Rev(LIVE[3])),
    }
}

fn sess_precond(ins: &[(C, Map)], trim: C) -> (bool, bool) {
    // (preconditions hold, some key contested with different states)
    let mut per: BTreeMap<u64, Vec<(St, u64, u64)>> = BTreeMap::new();
    for (_, m) in ins {
        if let Map::Sess(v) | Map::Oauth(v) = m {
            for (k, s, i, p) in v {
                per.entry(*k).or_default().push((s.clone(), *i, *p));
            }
        }
    }
    let mut ok = true;
    let mut contested = false;
    for (_, vs) in &per {
        let dead = |s: &St| matches!(s, St::Rev(c) if *c < trim);
        if vs.iter().any(|x| dead(&x.0)) && !vs.iter().all(|x| dead(&x.0)) {
            ok = false;
        }
        for a in vs {
            for b in vs {
                if a.0 == b.0 && a != b {
                    ok = false;
                }
                if a.0 != b.0 {
                    contested = true;
                }
            }
        }
    }
    (ok, contested)
}

fn gen_sessions(cx: &mut Ctx, rng: &mut Rng, oauth: bool, exhaustive_perms: bool, n_random: u64, n_big: u64) {
    let wrap = |v: Vec<SEl>| if oauth { Map::Oauth(v) } else { Map::Sess(v) };
    let tag_e = if oauth { "oauth_1key" } else { "sess_1key" };
    let tag_r = if oauth { "oauth_rand" } else { "sess_rand" };
    // exhaustive: one key, three replicas, 7 states each
    let perms: Vec<[usize; 3]> = vec![[0, 1, 2], [0, 2, 1], [1, 0, 2], [1, 2, 0], [2, 0, 1], [2, 1, 0]];
    let base = [(20u64, 1u64), (21, 2), (22, 3)];
    for a in 0..7u64 {
        for b in 0..7u64 {
            for c in 0..7u64 {
                let ps: Vec<[usize; 3]> = if exhaustive_perms { perms.clone() } else { vec![*rng.pick(&perms)] };
                for p in ps {
                    let ins: Vec<(C, Map)> = [a, b, c]
                        .iter()
                        .enumerate()
                        .map(|(r, s)| (base[p[r]], wrap(sess_state(*s).map(|st| vec![(7u64, st, 3u64, 1u64)]).unwrap_or_default())))
                        .collect();
                    let (ok, cont) = sess_precond(&ins, TRIM);
                    emit(cx, tag_e, TRIM, &ins, true, ok && cont);
                }
            }
        }
    }
    // random: 2..3 replicas, 1..3 keys, boundary cids, occasional inconsistent payloads
    for _ in 0..n_random {
        let n = rng.range(2, 3) as usize;
        let nk = rng.range(1, 3);
        let cids = attr_cids(rng, n);
        let mut maps: Vec<Vec<SEl>> = vec![vec![]; n];
        for k in 1..=nk {
            let mode = rng.below(20); // 0..4 dead key, 5..17 live key, 18..19 free mix
            let issued = if rng.chance(1, 6) { 3 } else { 2 + k };
            for m in maps.iter_mut() {
                if rng.chance(1, 4) {
                    continue;
                }
                let st = if mode < 5 {
                    St::Rev(*rng.pick(&DEAD))
                } else if mode < 18 {
                    match rng.below(6) {
                        0 => St::Never,
                        1 => St::Exp(5),
                        2 => St::Exp(9),
                        _ => St::Rev(*rng.pick(&LIVE)),
                    }
                } else {
                    match rng.below(5) {
                        0 => St::Never,
                        1 => St::Exp(rng.range(4, 6)),
                        2 => St::Rev(*rng.pick(&DEAD)),
                        _ => St::Rev(*rng.pick(&LIVE)),
                    }
                };
                let pay = if rng.chance(1, 12) { k + 10 * rng.range(1, 2) } else { k };
                m.push((k, st, issued, pay));
            }
        }
        let ins: Vec<(C, Map)> = cids.into_iter().zip(maps.into_iter().map(&wrap)).collect();
        let (ok, cont) = sess_precond(&ins, TRIM);
        emit(cx, tag_r, TRIM, &ins, true, ok && cont);
    }
    // big: unions that cross SESSION_MAXIMUM (sessions only evict; oauth2 has no limit)
    for bi in 0..n_big {
        let n = rng.range(2, 3) as usize;
        let total = rng.range(46, 58);
        let ties = bi % 4 == 3; // equal issued_at values: correspondence only
        let mut issued: Vec<u64> = (0..total).map(|i| 100 + i).collect();
        rng.shuffle(&mut issued);
        if ties {
            for i in 0..(total as usize / 5) {
                issued[i * 5] = issued[i * 5 + 1];
            }
        }
        let cids = attr_cids(rng, n);
        let mut maps: Vec<Vec<SEl>> = vec![vec![]; n];
        for k in 0..total {
            let revoked_live = rng.chance(1, 5);
            let dead = !revoked_live && rng.chance(1, 10);
            let mut holders = 0;
            for (ri, m) in maps.iter_mut().enumerate() {
                if rng.chance(3, 4) && (m.len() as u64) < 48 {
                    let st = if dead {
                        St::Rev(DEAD[ri % 3])
                    } else if revoked_live && rng.chance(1, 2) {
                        St::Rev(*rng.pick(&LIVE))
                    } else {
                        St::Exp(5 + (rng.below(2)))
                    };
                    m.push((1000 + k, st, issued[k as usize], k));
                    holders += 1;
                }
            }
            let _ = holders;
        }
        let ins: Vec<(C, Map)> = cids.into_iter().zip(maps.into_iter().map(&wrap)).collect();
        let (ok, cont) = sess_precond(&ins, TRIM);
        emit(cx, if oauth { "oauth_big" } else if ties { "sess_big_ties" } else { "sess_big" }, TRIM, &ins, false, ok && cont && !ties);
    }
}

fn key_precond(ins: &[(C, Map)], trim: C) -> (bool, bool, bool) {
    // (preconditions, contested, status-cid tie: same key, same status, different status cid —
    //  the class on which the merge was order dependent before /repo ea75008)
    let mut per: BTreeMap<u64, Vec<(u8, C, u64)>> = BTreeMap::new();
    for (_, m) in ins {
        if let Map::Key(v) = m {
            for (k, s, c, p) in v {
                per.entry(*k).or_default().push((*s, *c, *p));
            }
        }
    }
    let (mut ok, mut contested, mut known) = (true, false, false);
    for (_, vs) in &per {
        let dead = |x: &(u8, C, u64)| x.0 == 2 && x.1 < trim;
        if vs.iter().any(dead) && !vs.iter().all(dead) {
            ok = false;
        }
        for a in vs {
            for b in vs {
                if a.0 == b.0 && a.2 != b.2 {
                    ok = false;
                }
                if a.0 == b.0 && a.1 != b.1 {
                    known = true;
                }
                if a.0 != b.0 || a.1 != b.1 {
                    contested = true;
                }
            }
        }
    }
    (ok, contested, known)
}

fn gen_keys(cx: &mut Ctx, rng: &mut Rng, all_perms: bool, n_random: u64) {
    // exhaustive: one key, three replicas; states: absent, Valid@20.1, Retained@21.2, Revoked@dead, Revoked@12.1, Revoked@15.2
    let pal: Vec<Option<(u8, C)>> = vec![None, Some((0, (8, 1))), Some((1, (11, 2))), Some((2, DEAD[0])), Some((2, LIVE[1])), Some((2, LIVE[3]))];
    let perms: Vec<[usize; 3]> = vec![[0, 1, 2], [0, 2, 1], [1, 0, 2], [1, 2, 0], [2, 0, 1], [2, 1, 0]];
    let base = [(20u64, 1u64), (21, 2), (22, 3)];
    for a in 0..pal.len() {
        for b in 0..pal.len() {
            for c in 0..pal.len() {
                let ps: Vec<[usize; 3]> = if all_perms { perms.clone() } else { vec![*rng.pick(&perms), *rng.pick(&perms)] };
                for p in &ps {
                    let ins: Vec<(C, Map)> = [a, b, c]
                        .iter()
                        .enumerate()
                        .map(|(r, s)| (base[p[r]], Map::Key(pal[*s].map(|(st, sc)| vec![(7u64, st, sc, 30 + st as u64)]).unwrap_or_default())))
                        .collect();
                    let (ok, cont, known) = key_precond(&ins, TRIM);
                    emit(cx, if known { "key_1key_tie" } else { "key_1key" }, TRIM, &ins, true, ok && cont);
                }
            }
        }
    }
    for _ in 0..n_random {
        let n = rng.range(2, 3) as usize;
        let nk = rng.range(1, 3);
        let cids = attr_cids(rng, n);
        let mut maps: Vec<Vec<KEl>> = vec![vec![]; n];
        for k in 1..=nk {
            let mode = rng.below(20);
            // per key and status one status cid, unless this key is a "tie" key
            let tie = rng.chance(1, 6);
            let sc_valid = (rng.range(5, 9), rng.range(1, 3));
            let sc_ret = (rng.range(9, 13), rng.range(1, 3));
            let sc_rev = *rng.pick(&LIVE);
            for m in maps.iter_mut() {
                if rng.chance(1, 4) {
                    continue;
                }
                let (st, sc) = if mode < 4 {
                    (2u8, if tie { *rng.pick(&DEAD) } else { DEAD[0] })
                } else {
                    match rng.below(4) {
                        0 => (0u8, if tie { (rng.range(5, 9), 1) } else { sc_valid }),
                        1 => (1u8, if tie { (rng.range(9, 13), 2) } else { sc_ret }),
                        _ => (2u8, if tie { *rng.pick(&LIVE) } else if mode >= 18 { *rng.pick(&DEAD) } else { sc_rev }),
                    }
                };
                let pay = if rng.chance(1, 15) { 50 + k } else { 3 * k + st as u64 };
                m.push((k, st, sc, pay));
            }
        }
        let ins: Vec<(C, Map)> = cids.into_iter().zip(maps.into_iter().map(Map::Key)).collect();
        let (ok, cont, known) = key_precond(&ins, TRIM);
        emit(cx, if known { "key_rand_tie" } else { "key_rand" }, TRIM, &ins, true, ok && cont);
    }
}

fn gen_audit(cx: &mut Ctx, rng: &mut Rng, n_random: u64) {
    for it in 0..n_random {
        let n = rng.range(2, 3) as usize;
        let small = it % 2 == 0;
        let pal: Vec<C> = if small {
            vec![(1, 1), (1, 2), (2, 1), (3, 3), (4, 1)]
        } else {
            (0..16u64).map(|i| (1 + i / 2, 1 + (i * 7) % 3)).collect::<std::collections::BTreeSet<_>>().into_iter().collect()
        };
        let cids = attr_cids(rng, n);
        let mut ok = true;
        let mut maps: Vec<BTreeMap<C, u64>> = vec![BTreeMap::new(); n];
        for (i, c) in pal.iter().enumerate() {
            for m in maps.iter_mut() {
                if rng.chance(if small { 1 } else { 3 }, if small { 2 } else { 5 }) && m.len() < 9 {
                    let s = if rng.chance(1, 25) { ok = false; 100 + rng.below(2) } else { i as u64 };
                    m.insert(*c, s);
                }
            }
        }
        // inconsistency only matters if two replicas really differ on one cid
        if !ok {
            let mut seen: BTreeMap<C, u64> = BTreeMap::new();
            ok = true;
            for m in &maps {
                for (c, s) in m {
                    if *seen.entry(*c).or_insert(*s) != *s {
                        ok = false;
                    }
                }
            }
        }
        let union: std::collections::BTreeSet<C> = maps.iter().flat_map(|m| m.keys().cloned()).collect();
        let distinct_maps = maps.iter().any(|m| m.len() != union.len());
        let ins: Vec<(C, Map)> = cids.into_iter().zip(maps.into_iter().map(|m| Map::Audit(m.into_iter().collect()))).collect();
        emit(cx, if union.len() > 9 { "audit_over_capacity" } else { "audit" }, TRIM, &ins, true, ok && distinct_maps);
    }
}

fn main() {
    let args = parse_args();
    let mut rng = Rng::new(args.seed);
    let mut sink = Sink::new(&args, "KV.C11.Model", 150);
    sink.rule = "per kind (session, oauth2 session, key-internal, audit log): EXHAUSTIVE one contested key x 3 replicas x every state of a 6/5-state lattice (+absent) with boundary cids around the trim cid (quick: one random assignment of change ids per combination for sessions, thorough: all 6), RANDOM 2-3 replicas x 1-3 keys incl. inconsistent payloads, dead/live mixes and equal change ids, BIG session sets whose union crosses SESSION_MAXIMUM=48 (some with equal issued_at) and audit logs crossing capacity 9. Every case runs the real merge_state for all self-merges, all ordered pairs, two absorption trees and all 12 (big: 4) order/grouping trees of three replicas. non-trivial = the property's preconditions hold (consistent per-id fields, no replica outside the changelog window) and at least one key is held by two replicas in different states (for keys: different status or different status_cid — the *_tie cases exercise independent revocations of one key)".into();

    let rt = tokio::runtime::Builder::new_current_thread().enable_all().build().expect("rt");
    let qs = rt.block_on(async { setup_test(TestConfiguration::default()).await });
    let rtxn = rt.block_on(qs.read()).expect("read txn");
    let schema = rtxn.get_schema();
    {
        let mut cx = Ctx { schema, sink };
        let t = args.thorough;
        gen_sessions(&mut cx, &mut rng, false, t, if t { 3000 } else { 700 }, if t { 60 } else { 12 });
        gen_sessions(&mut cx, &mut rng, true, false, if t { 1500 } else { 300 }, if t { 10 } else { 3 });
        gen_keys(&mut cx, &mut rng, t, if t { 3000 } else { 500 });
        gen_audit(&mut cx, &mut rng, if t { 2000 } else { 400 });
        cx.sink.finish();
    }
    drop(rtxn);
}
