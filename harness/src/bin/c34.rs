//! C34 — revoked keys never verify; the newest valid key signs; rotation keeps old keys.
//!
//! Random histories of assert / rotate / revoke / sign+encrypt / verify+decrypt / commit (store in
//! the entry, db round trip, reload) / abort / replicate (repl_merge_valueset + reload) / retain on
//! 1..3 replicas of one REAL key object of the internal key provider (hook `verif_hooks::c34::Hko`
//! = KeyProviders::get_or_create_in_default / load_key_object + the KeyObjectT methods).
use kanidmd_lib::prelude::*;
use kanidmd_lib::valueset::ValueSet;
use kanidmd_lib::verif_hooks::c11::{key_internal_build, key_internal_dump, HookKey};
use kanidmd_lib::verif_hooks::c12::vs_roundtrip;
use kanidmd_lib::verif_hooks::c34::Hko;
use kvh::*;
use std::collections::{BTreeMap, BTreeSet};

type C = (u64, u64);

fn mkcid(c: C) -> Cid {
    Cid { ts: Duration::from_secs(c.0), s_uuid: Uuid::from_u128(c.1 as u128) }
}
fn ms(t: u64) -> Duration {
    Duration::from_millis(t)
}
fn kid12(k: &str) -> String {
    k.chars().take(12).collect()
}
fn ename(e: &OperationError) -> String {
    format!("{:?}", e)
}

#[derive(Clone, Debug)]
enum Op {
    Assert { r: usize, u: u8, t: u64, c: C, kid: Option<String> },
    Rotate { r: usize, t: u64, c: C, news: Vec<(u8, String)> },
    Revoke { r: usize, kids: Vec<String>, c: C },
    Sign { r: usize, u: u8, t: u64 },
    Verify { r: usize, u: u8, kid: String, good: bool },
    Commit { r: usize },
    Abort { r: usize },
    Repl { src: usize, dst: usize, flip: bool, t: C },
    Retain { r: usize, kid: String },
}
#[derive(Clone, Debug, PartialEq)]
enum Out {
    Unit,
    Rev(bool),
    Sign(Result<String, &'static str>),
    Ver(&'static str),
}
struct Step {
    op: Op,
    out: Out,
    all: Vec<HookKey>,
    ent: Vec<HookKey>,
}
struct Rep {
    h: Hko,
    ent: Option<ValueSet>,
}
#[derive(Clone)]
struct Tok {
    u: u8,
    kid: String,
    text: String,
    payload: Vec<u8>,
}

fn dump_all(rep: &Rep) -> Vec<HookKey> {
    let vs = rep.h.key_vs().expect("as_valuesets");
    key_internal_dump(&vs).expect("key internal map")
}
fn dump_ent(rep: &Rep) -> Vec<HookKey> {
    rep.ent.as_ref().map(|vs| key_internal_dump(vs).expect("key internal map")).unwrap_or_default()
}

fn tamper(tok: &str) -> String {
    // change the first character of the last segment (signature / tag): still valid base64url
    let i = tok.rfind('.').expect("compact form") + 1;
    let mut b = tok.as_bytes().to_vec();
    b[i] = if b[i] == b'A' { b'B' } else { b'A' };
    String::from_utf8(b).expect("ascii")
}

fn do_sign(rep: &Rep, u: u8, t: u64, payload: &[u8]) -> (Out, Option<Tok>) {
    match rep.h.sign(u, payload, ms(t)) {
        Ok((text, Some(kid))) => {
            let kid = kid12(&kid);
            (Out::Sign(Ok(kid.clone())), Some(Tok { u, kid, text, payload: payload.to_vec() }))
        }
        Ok((_, None)) => (Out::Sign(Err("SOther")), None),
        Err(e) => {
            let n = ename(&e);
            let r = if ["KP0020", "KP0061", "KP0069", "KP0042"].iter().any(|p| n.starts_with(p)) {
                "SNoActive"
            } else if ["KP0017", "KP0080", "KP0062", "KP0032"].iter().any(|p| n.starts_with(p)) {
                "SNoUsage"
            } else {
                "SOther"
            };
            (Out::Sign(Err(r)), None)
        }
    }
}

fn do_verify(rep: &Rep, tok: &Tok, good: bool) -> Out {
    let text = if good { tok.text.clone() } else { tamper(&tok.text) };
    let r = match rep.h.verify(tok.u == 3, &text) {
        Ok(p) => {
            if p == tok.payload {
                "VOk"
            } else {
                "VOther"
            }
        }
        Err(None) => "VOther",
        Err(Some(e)) => {
            let n = ename(&e);
            let is = |ps: &[&str]| ps.iter().any(|p| n.starts_with(p));
            if is(&["KP0024", "KP0058", "KP0040"]) {
                "VInvalid"
            } else if is(&["KP0023", "KP0059", "KP0041"]) {
                "VRevoked"
            } else if is(&["KP0022", "KP0057", "KP0039"]) {
                "VNotAssoc"
            } else if is(&["KP0018", "KP0033"]) {
                "VNoUsage"
            } else {
                "VOther"
            }
        }
    };
    Out::Ver(r)
}

fn reload(rep: &mut Rep) {
    let vs = rep.ent.clone();
    rep.h.load(vs.as_ref()).expect("load_key_object");
}

struct World {
    reps: Vec<Rep>,
    steps: Vec<Step>,
    toks: Vec<Tok>,
    ctr: u64,
    revoked: BTreeSet<String>,
    verified_revoked: bool,
    sibling: bool,
    /// creation order of the (random) key ids: all random choices among keys go by this order,
    /// so that the same seed gives the same history shape whatever ids the keys get
    order: BTreeMap<String, usize>,
}

impl World {
    fn note(&mut self, mut news: Vec<(u8, String)>) {
        news.sort();
        for (_, k) in news {
            let n = self.order.len();
            self.order.entry(k).or_insert(n);
        }
    }
    /// live-object keys of replica r in creation order
    fn kids_ordered(&self, r: usize) -> Vec<HookKey> {
        let mut v = self.kids_of(r);
        v.sort_by_key(|k| self.order.get(&k.id).copied().unwrap_or(usize::MAX));
        v
    }
    fn push(&mut self, op: Op, out: Out, r: usize) {
        let all = dump_all(&self.reps[r]);
        let ent = dump_ent(&self.reps[r]);
        self.steps.push(Step { op, out, all, ent });
    }
    fn next_cid(&mut self, rng: &mut Rng, r: usize) -> C {
        self.ctr += 1;
        let ts = if rng.chance(1, 6) { rng.below(self.ctr + 2) } else { self.ctr };
        (ts, r as u64 + 1)
    }
    fn kids_of(&self, r: usize) -> Vec<HookKey> {
        dump_all(&self.reps[r])
    }
    fn assert(&mut self, rng: &mut Rng, r: usize, u: u8, t: u64) {
        let c = self.next_cid(rng, r);
        let before: BTreeSet<String> = self.kids_of(r).into_iter().map(|k| k.id).collect();
        self.reps[r].h.assert(u, ms(t), &mkcid(c)).expect("assert");
        let kid = self.kids_of(r).into_iter().map(|k| k.id).find(|k| !before.contains(k));
        if let Some(k) = &kid {
            self.note(vec![(u, k.clone())]);
        }
        self.push(Op::Assert { r, u, t, c, kid }, Out::Unit, r);
    }
    fn rotate(&mut self, rng: &mut Rng, r: usize, t: u64) {
        let c = self.next_cid(rng, r);
        let before: BTreeSet<String> = self.kids_of(r).into_iter().map(|k| k.id).collect();
        self.reps[r].h.rotate(ms(t), &mkcid(c)).expect("rotate");
        let mut news: Vec<(u8, String)> =
            self.kids_of(r).into_iter().filter(|k| !before.contains(&k.id)).map(|k| (k.usage, k.id)).collect();
        news.sort();
        self.note(news.clone());
        self.push(Op::Rotate { r, t, c, news }, Out::Unit, r);
    }
    fn revoke(&mut self, rng: &mut Rng, r: usize, kids: Vec<String>) -> bool {
        let c = self.next_cid(rng, r);
        let set: BTreeSet<String> = kids.iter().cloned().collect();
        let cur = self.kids_of(r);
        let res = self.reps[r].h.revoke(&set, &mkcid(c));
        let ok = match res {
            Ok(()) => true,
            Err(e) => {
                assert!(ename(&e).starts_with("KP0026"), "unexpected revoke error {:?}", e);
                false
            }
        };
        if ok {
            for k in &set {
                self.revoked.insert(k.clone());
                if let Some(kk) = cur.iter().find(|x| &x.id == k) {
                    if cur.iter().any(|x| !set.contains(&x.id) && x.usage == kk.usage && x.valid_from == kk.valid_from && x.status == 0) {
                        self.sibling = true;
                    }
                }
            }
        }
        // BTreeSet<String> iteration order = the order revoke_keys walks
        self.push(Op::Revoke { r, kids: set.into_iter().collect(), c }, Out::Rev(ok), r);
        ok
    }
    fn sign(&mut self, rng: &mut Rng, r: usize, u: u8, t: u64) {
        let payload = rng.bytes(6);
        let (out, tok) = do_sign(&self.reps[r], u, t, &payload);
        if let Some(t) = tok {
            self.toks.push(t);
        }
        self.push(Op::Sign { r, u, t }, out, r);
    }
    fn verify(&mut self, r: usize, ti: usize, good: bool) {
        let tok = self.toks[ti].clone();
        let out = do_verify(&self.reps[r], &tok, good);
        if self.revoked.contains(&tok.kid) {
            self.verified_revoked = true;
        }
        self.push(Op::Verify { r, u: tok.u, kid: tok.kid.clone(), good }, out, r);
    }
    fn commit(&mut self, r: usize) {
        let vs = self.reps[r].h.key_vs().expect("as_valuesets");
        // Entry::merge_ava_set: merge into the existing value set, or insert
        let merged = match self.reps[r].ent.take() {
            Some(mut e) => {
                e.merge(&vs).expect("merge");
                e
            }
            None => vs,
        };
        // what the backend stores and reads back
        let back = vs_roundtrip(&merged).back.expect("db round trip");
        self.reps[r].ent = Some(back);
        reload(&mut self.reps[r]);
        self.push(Op::Commit { r }, Out::Unit, r);
    }
    fn abort(&mut self, r: usize) {
        reload(&mut self.reps[r]);
        self.push(Op::Abort { r }, Out::Unit, r);
    }
    fn repl(&mut self, src: usize, dst: usize, flip: bool, t: C) {
        let empty = || key_internal_build(&[]).expect("empty key set");
        let a = self.reps[dst].ent.clone().unwrap_or_else(empty);
        let b = self.reps[src].ent.clone().unwrap_or_else(empty);
        let trim = mkcid(t);
        let m = if flip { b.repl_merge_valueset(&a, &trim) } else { a.repl_merge_valueset(&b, &trim) }.expect("repl_merge_valueset");
        self.reps[dst].ent = Some(m);
        reload(&mut self.reps[dst]);
        self.push(Op::Repl { src, dst, flip, t }, Out::Unit, dst);
    }
    fn retain(&mut self, r: usize, kid: &str) {
        let mut keys = dump_ent(&self.reps[r]);
        for k in keys.iter_mut() {
            if k.id == kid && k.status == 0 {
                k.status = 1;
            }
        }
        self.reps[r].ent = Some(key_internal_build(&keys).expect("build"));
        reload(&mut self.reps[r]);
        self.push(Op::Retain { r, kid: kid.to_string() }, Out::Unit, r);
    }
}

fn gen_time(rng: &mut Rng) -> u64 {
    // seconds 0..=6 with sub-second parts: equal seconds are frequent
    if rng.chance(1, 5) {
        0
    } else {
        rng.below(7) * 1000 + rng.below(3) * 450
    }
}

fn history(rng: &mut Rng, hid: u64, rs: bool, len: u64) -> World {
    let n = rng.range(1, 3) as usize;
    let mut usages: Vec<u8> = [0u8, 1, 3, 4].iter().copied().filter(|_| rng.chance(2, 3)).collect();
    if usages.is_empty() {
        usages.push(0);
    }
    if rs {
        usages.push(2);
    }
    let mut w = World {
        reps: (0..n)
            .map(|i| Rep { h: Hko::new(Uuid::from_u128(0x3400_0000 + hid as u128 * 8 + i as u128)).expect("new key object"), ent: None })
            .collect(),
        steps: vec![],
        toks: vec![],
        ctr: 0,
        revoked: BTreeSet::new(),
        verified_revoked: false,
        sibling: false,
        order: BTreeMap::new(),
    };
    // creation as the plugin does it: assert every usage at ZERO, store, reload; then the other
    // replicas receive the entry
    for u in &usages {
        w.assert(rng, 0, *u, 0);
    }
    w.commit(0);
    for d in 1..n {
        w.repl(0, d, rng.chance(1, 2), (0, 0));
    }
    let signable: Vec<u8> = usages.iter().copied().filter(|u| *u != 4).collect();
    for _ in 0..len {
        let r = rng.below(n as u64) as usize;
        let roll = rng.below(100);
        let mut mutated = false;
        if roll < 18 {
            let t = gen_time(rng);
            w.rotate(rng, r, t);
            mutated = true;
        } else if roll < 38 {
            let cur = w.kids_ordered(r);
            let mut kids = vec![];
            for _ in 0..rng.range(1, 2) {
                if rng.chance(1, 10) {
                    // a key this replica may not know
                    if !w.toks.is_empty() && rng.chance(1, 2) {
                        kids.push(rng.pick(&w.toks).kid.clone());
                    } else {
                        kids.push(format!("{:012x}", rng.below(1 << 40)));
                    }
                } else if !cur.is_empty() {
                    kids.push(rng.pick(&cur).id.clone());
                }
            }
            if kids.is_empty() {
                continue;
            }
            let ok = w.revoke(rng, r, kids);
            if ok && rng.chance(2, 3) {
                // the plugin's assert phase
                for u in &usages {
                    w.assert(rng, r, *u, 0);
                }
            }
            mutated = ok;
        } else if roll < 42 {
            let u = *rng.pick(&usages);
            let t = gen_time(rng);
            w.assert(rng, r, u, t);
            mutated = true;
        } else if roll < 62 {
            if let Some(u) = (!signable.is_empty()).then(|| *rng.pick(&signable)) {
                let u = if rng.chance(1, 25) { *rng.pick(&[0u8, 1, 3]) } else { u };
                let t = gen_time(rng);
                w.sign(rng, r, u, t);
            }
        } else if roll < 84 {
            if !w.toks.is_empty() {
                let ti = rng.below(w.toks.len() as u64) as usize;
                w.verify(r, ti, !rng.chance(1, 6));
            }
        } else if roll < 88 {
            w.commit(r);
        } else if roll < 90 {
            w.abort(r);
        } else if roll < 97 {
            if n > 1 {
                let src = (r + 1 + rng.below(n as u64 - 1) as usize) % n;
                let t = match rng.below(10) {
                    0..=5 => (0, 0),
                    6..=7 => (rng.below(w.ctr + 2), rng.below(4)),
                    _ => (w.ctr + 1, 0),
                };
                w.repl(src, r, rng.chance(1, 2), t);
            }
        } else {
            let mut cand: Vec<String> = dump_ent(&w.reps[r]).into_iter().filter(|k| k.status == 0 && [1u8, 3, 4].contains(&k.usage)).map(|k| k.id).collect();
            cand.sort_by_key(|k| w.order.get(k).copied().unwrap_or(usize::MAX));
            if !cand.is_empty() {
                let k = rng.pick(&cand).clone();
                w.retain(r, &k);
            }
        }
        if mutated && rng.chance(3, 5) {
            w.commit(r);
        }
    }
    // every token produced so far is presented to every replica once more
    for ti in 0..w.toks.len() {
        for r in 0..n {
            w.verify(r, ti, true);
        }
    }
    w
}

fn emit(sink: &mut Sink, w: &World, tag: &str) {
    // kid numbers follow the order of the kid strings (BTreeMap<KeyId,_> order); 0 is "none"
    let mut names: BTreeSet<String> = BTreeSet::new();
    for s in &w.steps {
        for k in s.all.iter().chain(s.ent.iter()) {
            names.insert(k.id.clone());
        }
        match &s.op {
            Op::Assert { kid: Some(k), .. } => {
                names.insert(k.clone());
            }
            Op::Rotate { news, .. } => names.extend(news.iter().map(|x| x.1.clone())),
            Op::Revoke { kids, .. } => names.extend(kids.iter().cloned()),
            Op::Verify { kid, .. } | Op::Retain { kid, .. } => {
                names.insert(kid.clone());
            }
            _ => {}
        }
        if let Out::Sign(Ok(k)) = &s.out {
            names.insert(k.clone());
        }
    }
    let rank: BTreeMap<String, u64> = names.into_iter().enumerate().map(|(i, k)| (k, i as u64 + 1)).collect();
    let kn = |k: &String| cn(rank[k]);
    let cc = |c: &C| format!("({}, {})", cn(c.0), cn(c.1));
    let keys = |v: &Vec<HookKey>| {
        clist(v, |k| {
            let st = ["Valid", "Retained", "Revoked"][k.status as usize];
            format!(
                "({}, mkkey {} {} {} ({}, {}))",
                kn(&k.id),
                cn(k.usage as u64),
                cn(k.valid_from),
                st,
                cn(k.status_cid.ts.as_secs()),
                cn128(k.status_cid.s_uuid.as_u128())
            )
        })
    };
    let mut coq = vec![];
    let mut txt = String::new();
    for s in &w.steps {
        let r = |x: &usize| cn(*x as u64);
        let (op, query) = match &s.op {
            Op::Assert { r: x, u, t, c, kid } => {
                (capp("OAssert", &[r(x), cn(*u as u64), cn(*t), cc(c), kid.as_ref().map(kn).unwrap_or_else(|| cn(0))]), false)
            }
            Op::Rotate { r: x, t, c, news } => {
                (capp("ORotate", &[r(x), cn(*t), cc(c), clist(news, |(u, k)| format!("({}, {})", cn(*u as u64), kn(k)))]), false)
            }
            Op::Revoke { r: x, kids, c } => (capp("ORevoke", &[r(x), clist(kids, kn), cc(c)]), false),
            Op::Sign { r: x, u, t } => (capp("OSign", &[r(x), cn(*u as u64), cn(*t)]), true),
            Op::Verify { r: x, u, kid, good } => (capp("OVerify", &[r(x), cn(*u as u64), kn(kid), cbool(*good)]), true),
            Op::Commit { r: x } => (capp("OCommit", &[r(x)]), false),
            Op::Abort { r: x } => (capp("OAbort", &[r(x)]), false),
            Op::Repl { src, dst, flip, t } => (capp("ORepl", &[r(src), r(dst), cbool(*flip), cc(t)]), false),
            Op::Retain { r: x, kid } => (capp("ORetain", &[r(x), kn(kid)]), false),
        };
        let out = match &s.out {
            Out::Unit => "OutUnit".to_string(),
            Out::Rev(b) => capp("OutRev", &[cbool(*b)]),
            Out::Sign(Ok(k)) => format!("(OutSign (SKid {}))", kn(k)),
            Out::Sign(Err(e)) => format!("(OutSign {})", e),
            Out::Ver(v) => format!("(OutVer {})", v),
        };
        let (a, e) = if query { ("[]".to_string(), "[]".to_string()) } else { (keys(&s.all), keys(&s.ent)) };
        coq.push(format!("mkobs {} {} {} {}", op, out, a, e));
        let short = |k: &String| format!("k{}", rank[k]);
        let o = match &s.op {
            Op::Assert { r, u, t, c, kid } => format!("assert r{} u{} t{} c{:?} new={}", r, u, t, c, kid.as_ref().map(short).unwrap_or("-".into())),
            Op::Rotate { r, t, c, news } => format!("rotate r{} t{} c{:?} new={:?}", r, t, c, news.iter().map(|(u, k)| format!("u{}:{}", u, short(k))).collect::<Vec<_>>()),
            Op::Revoke { r, kids, c } => format!("revoke r{} {:?} c{:?}", r, kids.iter().map(short).collect::<Vec<_>>(), c),
            Op::Sign { r, u, t } => format!("sign r{} u{} t{}", r, u, t),
            Op::Verify { r, u, kid, good } => format!("verify r{} u{} {} {}", r, u, short(kid), if *good { "intact" } else { "tampered" }),
            Op::Commit { r } => format!("commit r{}", r),
            Op::Abort { r } => format!("abort r{}", r),
            Op::Repl { src, dst, flip, t } => format!("repl r{}->r{} flip={} trim{:?}", src, dst, flip, t),
            Op::Retain { r, kid } => format!("retain r{} {}", r, short(kid)),
        };
        let res = match &s.out {
            Out::Unit => String::new(),
            Out::Rev(b) => format!("={}", if *b { "ok" } else { "NoSuchKey" }),
            Out::Sign(Ok(k)) => format!("={}", short(k)),
            Out::Sign(Err(e)) => format!("={}", e),
            Out::Ver(v) => format!("={}", v),
        };
        txt.push_str(&format!("{}{}; ", o, res));
    }
    let nontrivial = w.verified_revoked;
    sink.bump(if nontrivial { "hist_verify_after_revoke" } else { "hist_other" });
    if w.sibling {
        sink.bump("hist_revoke_with_same_second_sibling");
    }
    sink.add_stat("steps", w.steps.len() as u64);
    sink.add_stat("tokens", w.toks.len() as u64);
    sink.case(
        format!("CHist {} {}", cn(w.reps.len() as u64), clist_s(&coq.iter().map(|s| format!("({})", s)).collect::<Vec<_>>())),
        format!("{} reps={} {}", tag, w.reps.len(), txt),
        nontrivial,
    );
}

/// The defect fixed by 2dbb6f7, scripted: two valid keys of one usage share a valid_from second;
/// before the fix revoking one left the other valid but unused until the next reload (the sign
/// after the revoke fell back to the key of second 0). Exits 1 if the defect is present.
fn probe(args: &Args) {
    let mut rng = Rng::new(args.seed);
    let mut w = World {
        reps: vec![Rep { h: Hko::new(Uuid::from_u128(0x34ff)).expect("new"), ent: None }],
        steps: vec![],
        toks: vec![],
        ctr: 0,
        revoked: BTreeSet::new(),
        verified_revoked: false,
        sibling: false,
        order: BTreeMap::new(),
    };
    w.assert(&mut rng, 0, 0, 0);
    w.commit(0);
    w.rotate(&mut rng, 0, 5000);
    w.rotate(&mut rng, 0, 5400);
    w.commit(0);
    w.sign(&mut rng, 0, 0, 6000);
    let cur = w.kids_of(0);
    let signer = match &w.steps.last().expect("step").out {
        Out::Sign(Ok(k)) => k.clone(),
        o => panic!("probe: sign failed {:?}", o),
    };
    let other = cur.iter().find(|k| k.valid_from == 5 && k.id != signer).expect("sibling").id.clone();
    w.revoke(&mut rng, 0, vec![other.clone()]);
    w.sign(&mut rng, 0, 0, 6000);
    let after = w.steps.last().expect("step").out.clone();
    w.commit(0);
    w.sign(&mut rng, 0, 0, 6000);
    let reloaded = w.steps.last().expect("step").out.clone();
    println!("probe: keys at second 5: signer={} sibling={}; revoke sibling -> sign(t=6s) = {:?}; after commit+reload = {:?}", signer, other, after, reloaded);
    println!("probe: expected by the property: still {} (valid, newest, started)", signer);
    if after != Out::Sign(Ok(signer.clone())) || reloaded != Out::Sign(Ok(signer)) {
        println!("probe: DEFECT PRESENT");
        std::process::exit(1);
    }
    println!("probe: ok");
}

fn main() {
    let args = parse_args();
    if args.extra.iter().any(|a| a == "--probe") {
        probe(&args);
        return;
    }
    let mut rng = Rng::new(args.seed);
    let mut sink = Sink::new(&args, "KV.C34.Model", 12);
    sink.rule = "(same seed = same history shape; the key ids themselves are random in kanidm and are renumbered in the order of their strings) random histories (12..40 random ops after creation, then every produced token is verified on every replica) of assert/rotate/revoke/sign/verify/commit/abort/replicate/retain on 1..3 replicas of one real key object with a random subset of the usages es256/hs256/rs256/jwe-a128gcm/hkdf; times in 0..6.9 s so that equal valid_from seconds are frequent; change ids mostly increasing, sometimes reused; trim ids none/random/everything. non-trivial = some token is verified after the key that signed it was revoked somewhere".into();
    let n = if args.thorough { 2400 } else { 200 };
    for hid in 0..n {
        let rs = rng.chance(1, 16);
        let len = if rs { rng.range(6, 14) } else { rng.range(12, 40) };
        let mut hr = rng.fork();
        let w = history(&mut hr, hid, rs, len);
        emit(&mut sink, &w, "hist");
    }
    sink.finish();
}
