//! C22 — SPNs are always name@domain.
//!
//! Drives a REAL in-memory QueryServer through random histories of write transactions
//! (creates of persons / service accounts / groups, renames, direct writes to `spn`,
//! name purges, deletes, revives, `danger_domain_rename`; committed or dropped) and, after
//! every transaction, reads back from a fresh read transaction: the in-memory domain name,
//! the `domain_name` stored on the domain-info entry, and (name, spn values, live/recycled)
//! of the account/group entries. The Coq model (KV.C22.Model) is run on the same history by
//! `agree`; `pcheck` tests `spn = [name ++ "@" ++ domain]` on the implementation's own dumps.
use kanidmd_lib::entry::{Entry, EntryInit, EntryNew};
use kanidmd_lib::prelude::*;
use kanidmd_lib::testkit::{setup_test, TestConfiguration};
use kanidmd_lib::valueset::{ValueSetIname, ValueSetSpn, ValueSetUtf8};
use kanidmd_lib::verif_hooks::c22::revive_uuid;
use kvh::*;
use std::collections::BTreeMap;

#[derive(Clone, Debug, PartialEq)]
enum SpnIn {
    None,
    Spn(String, String),
    Iname(String),
    Utf8(String),
}

#[derive(Clone, Copy, Debug, PartialEq)]
enum Kind {
    Person,
    Service,
    Group,
}

#[derive(Clone, Debug)]
enum Op {
    Create { id: u64, kind: Kind, name: Option<String>, spn: SpnIn },
    Rename { id: u64, new: String },
    SetSpn { id: u64, spn: SpnIn },
    PurgeName { id: u64 },
    Delete { id: u64 },
    Revive { id: u64 },
    Domain { d: String },
}

#[derive(Clone, Debug)]
struct DEnt {
    id: u64,
    live: bool,
    name: Option<String>,
    spn: Vec<String>,
}

const USER_BASE: u64 = 1000;

fn user_uuid(id: u64) -> Uuid {
    Uuid::from_u128(0xc22c_22c2_0000_4000_8000_0000_0000_0000u128 + id as u128)
}

fn spn_value(s: &SpnIn) -> Option<Value> {
    match s {
        SpnIn::None => None,
        SpnIn::Spn(n, d) => Some(Value::Spn(n.clone(), d.clone())),
        SpnIn::Iname(n) => Some(Value::new_iname(n)),
        SpnIn::Utf8(s) => Some(Value::new_utf8s(s)),
    }
}

fn apply_op(w: &mut QueryServerWriteTransaction, op: &Op) -> Result<(), OperationError> {
    match op {
        Op::Create { id, kind, name, spn } => {
            let mut e: Entry<EntryInit, EntryNew> = kanidmd_lib::entry_init!(
                (Attribute::Class, EntryClass::Object.to_value()),
                (Attribute::Uuid, Value::Uuid(user_uuid(*id)))
            );
            match kind {
                Kind::Person => {
                    e.add_ava(Attribute::Class, EntryClass::Account.to_value());
                    e.add_ava(Attribute::Class, EntryClass::Person.to_value());
                    e.add_ava(Attribute::DisplayName, Value::new_utf8s("c22 person"));
                }
                Kind::Service => {
                    e.add_ava(Attribute::Class, EntryClass::Account.to_value());
                    e.add_ava(Attribute::Class, EntryClass::ServiceAccount.to_value());
                    e.add_ava(Attribute::DisplayName, Value::new_utf8s("c22 service"));
                }
                Kind::Group => {
                    e.add_ava(Attribute::Class, EntryClass::Group.to_value());
                }
            }
            if let Some(n) = name {
                e.add_ava(Attribute::Name, Value::new_iname(n));
            }
            if let Some(v) = spn_value(spn) {
                e.add_ava(Attribute::Spn, v);
            }
            w.internal_create(vec![e])
        }
        Op::Rename { id, new } => w.internal_modify_uuid(
            user_uuid(*id),
            &ModifyList::new_purge_and_set(Attribute::Name, Value::new_iname(new)),
        ),
        Op::SetSpn { id, spn } => {
            // `Set` replaces the whole value set and is not syntax-checked by ModifyList::validate,
            // so it is the way a caller can put a non-SPN value into `spn` on a modify.
            let m = match spn {
                SpnIn::None => Modify::Purged(Attribute::Spn),
                SpnIn::Spn(n, d) => Modify::Set(Attribute::Spn, ValueSetSpn::new((n.clone(), d.clone()))),
                SpnIn::Iname(n) => Modify::Set(Attribute::Spn, ValueSetIname::new(n)),
                SpnIn::Utf8(s) => Modify::Set(Attribute::Spn, ValueSetUtf8::new(s.clone())),
            };
            w.internal_modify_uuid(user_uuid(*id), &ModifyList::new_list(vec![m]))
        }
        Op::PurgeName { id } => {
            w.internal_modify_uuid(user_uuid(*id), &ModifyList::new_purge(Attribute::Name))
        }
        Op::Delete { id } => w.internal_delete_uuid(user_uuid(*id)),
        Op::Revive { id } => revive_uuid(w, user_uuid(*id)),
        Op::Domain { d } => w.danger_domain_rename(d),
    }
}

struct Obs {
    dom_mem: String,
    dom_db: String,
    ents: Vec<(Uuid, DEnt)>, // id filled by caller
}

async fn observe(qs: &QueryServer) -> Obs {
    let mut r = qs.read().await.expect("read");
    let dom_mem = r.get_domain_name().to_string();
    let de = r.internal_search_uuid(UUID_DOMAIN_INFO).expect("domain info");
    let dom_db: Vec<String> = de
        .get_ava_set(Attribute::DomainName)
        .map(|vs| vs.to_proto_string_clone_iter().collect())
        .unwrap_or_default();
    assert!(dom_db.len() == 1, "domain_name must be single valued: {:?}", dom_db);
    let f = kanidmd_lib::filter_all!(kanidmd_lib::f_or!([
        f_eq(Attribute::Class, EntryClass::Group.into()),
        f_eq(Attribute::Class, EntryClass::Account.into())
    ]));
    let es = r.internal_search(f).expect("search");
    let mut ents = vec![];
    for e in es {
        let names: Vec<String> = e
            .get_ava_set(Attribute::Name)
            .map(|vs| vs.to_proto_string_clone_iter().collect())
            .unwrap_or_default();
        assert!(names.len() <= 1, "name must be single valued: {:?}", names);
        let mut spn: Vec<String> = e
            .get_ava_set(Attribute::Spn)
            .map(|vs| vs.to_proto_string_clone_iter().collect())
            .unwrap_or_default();
        spn.sort();
        let live = e.mask_recycled_ts().is_some();
        ents.push((
            e.get_uuid(),
            DEnt { id: 0, live, name: names.into_iter().next(), spn },
        ));
    }
    Obs { dom_mem, dom_db: dom_db.into_iter().next().unwrap_or_default(), ents }
}

/// A byte string as `(T "..."%string)`, decoded by `KV.C22.Model.T` (printable ASCII only).
fn cs(s: &str) -> String {
    assert!(s.bytes().all(|b| (0x20..0x7f).contains(&b) && b != b'"'), "unprintable: {:?}", s);
    format!("(T \"{}\"%string)", s)
}

fn c_kind(k: Kind) -> String {
    match k {
        Kind::Person => "KPerson".into(),
        Kind::Service => "KService".into(),
        Kind::Group => "KGroup".into(),
    }
}
fn c_spn_in(s: &SpnIn) -> String {
    match s {
        SpnIn::None => "SNone".into(),
        SpnIn::Spn(n, d) => capp("SSpn", &[cs(n), cs(d)]),
        SpnIn::Iname(n) => capp("SIname", &[cs(n)]),
        SpnIn::Utf8(s) => capp("SUtf8", &[cs(s)]),
    }
}
fn c_op(o: &Op) -> String {
    match o {
        Op::Create { id, kind, name, spn } => capp(
            "OCreate",
            &[cn(*id), c_kind(*kind), copt(name, |n| cs(n)), c_spn_in(spn)],
        ),
        Op::Rename { id, new } => capp("ORename", &[cn(*id), cs(new)]),
        Op::SetSpn { id, spn } => capp("OSetSpn", &[cn(*id), c_spn_in(spn)]),
        Op::PurgeName { id } => capp("OPurgeName", &[cn(*id)]),
        Op::Delete { id } => capp("ODelete", &[cn(*id)]),
        Op::Revive { id } => capp("ORevive", &[cn(*id)]),
        Op::Domain { d } => capp("ODomain", &[cs(d)]),
    }
}
fn c_dent(d: &DEnt) -> String {
    capp(
        "DEnt",
        &[cn(d.id), cbool(d.live), copt(&d.name, |n| cs(n)), clist(&d.spn, |s| cs(s))],
    )
}

struct Hist {
    dom0: String,
    init: Vec<DEnt>,
    steps: Vec<(Vec<Op>, bool, Vec<bool>, String, String, bool, Vec<DEnt>)>,
    panics: u64,
}

fn number(obs: Obs, ids: &BTreeMap<Uuid, u64>, full: bool) -> Vec<DEnt> {
    let mut v: Vec<DEnt> = obs
        .ents
        .into_iter()
        .map(|(u, mut d)| {
            d.id = *ids.get(&u).unwrap_or_else(|| panic!("unknown entry {} {:?}", u, d));
            d
        })
        .filter(|d| full || d.id >= USER_BASE)
        .collect();
    v.sort_by_key(|d| d.id);
    v
}

async fn run_history(txns: &[(Vec<Op>, bool)], full_every: bool) -> Hist {
    let qs = setup_test(TestConfiguration::default()).await;
    let obs0 = observe(&qs).await;
    // builtin entries get ids 0.. in uuid order; user entries USER_BASE + n
    let mut ids: BTreeMap<Uuid, u64> = BTreeMap::new();
    let mut us: Vec<Uuid> = obs0.ents.iter().map(|(u, _)| *u).collect();
    us.sort();
    assert!((us.len() as u64) < USER_BASE);
    for (i, u) in us.iter().enumerate() {
        ids.insert(*u, i as u64);
    }
    for i in 0..200u64 {
        ids.insert(user_uuid(USER_BASE + i), USER_BASE + i);
    }
    assert!(obs0.dom_mem == obs0.dom_db);
    let dom0 = obs0.dom_mem.clone();
    let init = number(obs0, &ids, true);
    let mut steps = vec![];
    let mut panics = 0u64;
    let ntx = txns.len();
    for (ti, (ops, commit)) in txns.iter().enumerate() {
        let mut w = qs.write(duration_from_epoch_now()).await.expect("write");
        let mut res = vec![];
        let mut all_ok = true;
        let mut has_domain = false;
        for op in ops {
            if matches!(op, Op::Domain { .. }) {
                has_domain = true;
            }
            // an implementation panic (e.g. a debug_assert) is recorded as a failed op, not a crash
            let ok = match std::panic::catch_unwind(std::panic::AssertUnwindSafe(|| apply_op(&mut w, op))) {
                Ok(r) => r.is_ok(),
                Err(_) => {
                    panics += 1;
                    false
                }
            };
            res.push(ok);
            if !ok {
                all_ok = false;
                break;
            }
        }
        if all_ok && *commit {
            w.commit().expect("commit");
        } else {
            drop(w);
        }
        let full = full_every || (has_domain && all_ok && *commit) || ti + 1 == ntx;
        let obs = observe(&qs).await;
        let dm = obs.dom_mem.clone();
        let dd = obs.dom_db.clone();
        let dump = number(obs, &ids, full);
        steps.push((ops.clone(), *commit, res, dm, dd, full, dump));
    }
    Hist { dom0, init, steps, panics }
}

const NAMES: &[&str] = &[
    "alice", "bob", "carol", "dave", "svc-a", "grp.x", "g_1", "Alice", "BOB", "zed9",
    // rejected by the iname rules
    "9lives", "has space", "a@b", "root", "",
    // collide with built-in entries
    "admin", "idm_admins", "anonymous",
];
const DOMAINS: &[&str] = &[
    "example.com", "new.example.com", "d2.test", "Corp.Example", "x", "example.com",
    // rejected
    "bad domain", "a@b.c",
];
const FOREIGN: &[&str] = &["evil.org", "example.com", "new.example.com", "d2.test"];

fn pick_name(rng: &mut Rng) -> String {
    if rng.chance(1, 9) { rng.pick(&NAMES[10..]).to_string() } else { rng.pick(&NAMES[..10]).to_string() }
}
fn pick_domain(rng: &mut Rng) -> String {
    if rng.chance(1, 10) { rng.pick(&DOMAINS[6..]).to_string() } else { rng.pick(&DOMAINS[..6]).to_string() }
}

fn gen_spn_in(rng: &mut Rng, named: bool) -> SpnIn {
    let k = rng.below(if named { 8 } else { 6 });
    match k {
        0 | 1 => SpnIn::None,
        2 | 3 | 4 => SpnIn::Spn(
            rng.pick(&NAMES[..7]).to_string(),
            rng.pick(FOREIGN).to_string(),
        ),
        5 => SpnIn::Iname(rng.pick(&NAMES[..10]).to_string()),
        _ => SpnIn::Utf8(format!("{}@invalid.example", rng.pick(&NAMES[..7]))),
    }
}

fn main() {
    let args = parse_args();
    let mut rng = Rng::new(args.seed);
    let mut sink = Sink::new(&args, "KV.C22.Model", 4);
    sink.rule = "random histories of 5..12 (thorough ..24) write transactions of 1..3 ops each on a fresh real QueryServer: \
create person/service account/group (names from a pool with case variants, invalid inames and built-in names; caller-supplied spn values), \
rename, purge+set spn, delete, revive, danger_domain_rename (valid, same, invalid), 1 in 6 transactions dropped instead of committed; \
1 in 4 histories also use name-less groups / name purges. After each transaction the domain name (memory and database) and the \
account/group entries are read back (all entries incl. built-ins at start, after domain renames and at the end). \
non-trivial = a committed domain rename that changed the domain while >=2 harness entries existed AND a successful rename or revive"
        .into();
    let rt = tokio::runtime::Builder::new_current_thread().enable_all().build().expect("rt");
    let n_hist = if args.thorough { 400 } else { 48 };
    let max_tx = if args.thorough { 24 } else { 12 };

    for hid in 0..n_hist {
        let allow_nameless = hid % 4 == 3;
        let ntx = rng.range(5, max_tx) as usize;
        let mut next_id = USER_BASE;
        let mut txns = vec![];
        for _ in 0..ntx {
            let nops = *rng.pick(&[1usize, 1, 1, 1, 2, 2, 2, 3]);
            let mut ops = vec![];
            for _ in 0..nops {
                let have = next_id - USER_BASE;
                let k = rng.below(100);
                // an existing harness entry (live, recycled or rolled back) or, rarely, a never-created one
                let pick_id = |rng: &mut Rng| {
                    if rng.chance(1, 12) { USER_BASE + have } else { USER_BASE + rng.below(have.max(1)) }
                };
                let op = if k < 30 || have == 0 {
                    let kind = *rng.pick(&[Kind::Person, Kind::Service, Kind::Group, Kind::Group]);
                    let nameless = allow_nameless && rng.chance(1, 3);
                    let kind = if nameless && rng.chance(3, 4) { Kind::Group } else { kind };
                    let name = if nameless { None } else { Some(pick_name(&mut rng)) };
                    let spn = gen_spn_in(&mut rng, !nameless);
                    let id = next_id;
                    next_id += 1;
                    Op::Create { id, kind, name, spn }
                } else if k < 52 {
                    Op::Rename { id: pick_id(&mut rng), new: pick_name(&mut rng) }
                } else if k < 70 {
                    Op::Domain { d: pick_domain(&mut rng) }
                } else if k < 80 {
                    let id = pick_id(&mut rng);
                    let mut s = gen_spn_in(&mut rng, false);
                    if !allow_nameless && s == SpnIn::None && rng.chance(1, 2) {
                        s = SpnIn::Utf8("junk@invalid.example".into());
                    }
                    Op::SetSpn { id, spn: s }
                } else if k < 89 {
                    Op::Delete { id: pick_id(&mut rng) }
                } else if k < 97 || !allow_nameless {
                    Op::Revive { id: pick_id(&mut rng) }
                } else {
                    Op::PurgeName { id: pick_id(&mut rng) }
                };
                ops.push(op);
            }
            txns.push((ops, !rng.chance(1, 6)));
        }
        let h = rt.block_on(run_history(&txns, false));

        // statistics + non-triviality, from the implementation's observations only
        let mut dom_changed_with_entries = false;
        let mut ren_or_rev = false;
        let mut prev_dom = h.dom0.clone();
        let mut prev_users = 0usize;
        let mut txt = format!("hist dom0={} builtins={}:", h.dom0, h.init.len());
        let mut c_steps = vec![];
        sink.add_stat("implementation_panics", h.panics);
        for (ops, commit, res, dm, dd, full, dump) in &h.steps {
            let committed = *commit && res.iter().all(|b| *b);
            if committed && *dm != prev_dom && prev_users >= 2 {
                dom_changed_with_entries = true;
                sink.bump("domain_rename_committed");
            }
            for (o, r) in ops.iter().zip(res.iter()) {
                let key = match o {
                    Op::Create { name: None, .. } => "create_nameless",
                    Op::Create { .. } => "create",
                    Op::Rename { .. } => "rename",
                    Op::SetSpn { .. } => "setspn",
                    Op::PurgeName { .. } => "purgename",
                    Op::Delete { .. } => "delete",
                    Op::Revive { .. } => "revive",
                    Op::Domain { .. } => "domain",
                };
                sink.bump(&format!("op_{}_{}", key, if *r { "ok" } else { "err" }));
                if *r && committed && matches!(o, Op::Rename { .. } | Op::Revive { .. }) {
                    ren_or_rev = true;
                }
            }
            sink.bump(if committed { "txn_committed" } else { "txn_dropped" });
            prev_dom = dm.clone();
            prev_users = dump.iter().filter(|d| d.id >= USER_BASE).count();
            let users: Vec<String> = dump
                .iter()
                .filter(|d| d.id >= USER_BASE)
                .map(|d| format!("{}{}:{:?}={:?}", d.id, if d.live { "" } else { "(rec)" }, d.name, d.spn))
                .collect();
            let _ = std::fmt::Write::write_fmt(
                &mut txt,
                format_args!(" || {:?} commit={} res={:?} -> dom={}/{} [{}]", ops, commit, res, dm, dd, users.join(", ")),
            );
            c_steps.push(capp(
                "OStep",
                &[
                    clist(ops, c_op),
                    cbool(*commit),
                    clist(res, |b| cbool(*b)),
                    cs(dm),
                    cs(dd),
                    cbool(*full),
                    clist(dump, c_dent),
                ],
            ));
        }
        sink.case(
            capp("CHist", &[cs(&h.dom0), clist(&h.init, c_dent), clist_s(&c_steps)]),
            txt,
            dom_changed_with_entries && ren_or_rev,
        );
    }
    sink.finish();
}
