//! C17 — group membership closure (MemberOf / DirectMemberOf) is exact.
//!
//! Drives a REAL in-memory QueryServer through random histories over a population of up to 12
//! groups (some of them dynamic groups with a `description eq <tag>` filter) and a few leaf
//! entries: create (with members), member set changes of one group (internal_modify) or of several
//! groups in ONE operation (internal_batch_modify - the same MemberOf::post_modify_inner path a
//! replicated change takes), description (dyngroup tag) changes, deletes of one or two entries,
//! revives (as `admin` through ReviveRecycledEvent::from_parts). Cycles (also self loops) allowed.
//! After every operation every tracked entry is read back (state, Member, DynMember, MemberOf,
//! DirectMemberOf, RecycledDirectMemberOf). The Coq model (KV.C17.Model) replays every step from the
//! previously OBSERVED state (`agree`), `pcheck` compares MemberOf/DirectMemberOf of every observed
//! state with a closure oracle.
//!
//! The server runs on a worker thread under a watchdog: an operation that does not return within
//! the time limit is recorded as outcome 2 (hang) and the server is abandoned.
use kanidm_proto::internal::Filter as ProtoFilter;
use kanidm_proto::internal::FsType;
use kanidmd_lib::be::{Backend, BackendConfig};
use kanidmd_lib::entry::{Entry, EntryInit, EntryNew};
use kanidmd_lib::event::ReviveRecycledEvent;
use kanidmd_lib::prelude::*;
use kanidmd_lib::schema::Schema;
use kanidmd_lib::{filter, filter_all};
use kvh::*;
use std::collections::BTreeSet;
use std::panic::AssertUnwindSafe;
use std::sync::mpsc;

const NS: u64 = 1_000_000_000;
/// which referential-integrity variant the tree under test has (see `probe_refint`)
static STRICT: std::sync::atomic::AtomicBool = std::sync::atomic::AtomicBool::new(false);
const FOREIGN: u64 = 9999;

#[derive(Clone, Debug)]
struct NewEnt {
    id: usize,
    grp: bool,
    dynk: u64, // 0 = not a dynamic group; k>0 = dynamic group matching tag k
    tag: u64,  // own description tag (0 = none)
    mem: Vec<usize>,
}

#[derive(Clone, Debug)]
enum Op {
    Create(Vec<NewEnt>),
    /// member set changes; one element => internal_modify_uuid unless `batch`
    SetMem(Vec<(usize, Vec<usize>)>, bool),
    Tag(usize, u64),
    Delete(Vec<usize>),
    Revive(usize),
}

#[derive(Clone, Debug, PartialEq)]
struct Obs {
    id: usize,
    grp: bool,
    dynk: u64,
    st: u64, // 0 live, 1 recycled, 2 other (tombstone)
    mem: Vec<u64>,
    dynm: Vec<u64>,
    mo: Vec<u64>,
    dmo: Vec<u64>,
    rdmo: Vec<u64>,
}

struct World {
    hid: usize,
    uuids: Vec<Uuid>,
    grp: Vec<bool>,
    dynk: Vec<u64>,
}

impl World {
    fn idset<I: Iterator<Item = Uuid>>(&self, it: I) -> Vec<u64> {
        let mut v: Vec<u64> = it
            .map(|u| self.uuids.iter().position(|x| *x == u).map(|i| i as u64).unwrap_or(FOREIGN))
            .collect();
        v.sort();
        v.dedup();
        v
    }
    fn tagstr(&self, k: u64) -> String {
        format!("c17h{}k{}", self.hid, k)
    }
}

fn f_uuid(u: Uuid) -> FC {
    f_eq(Attribute::Uuid, PartialValue::Uuid(u))
}

fn open_server(ct: Duration) -> QueryServer {
    let schema_outer = Schema::new().expect("schema");
    let idxmeta = {
        let schema_txn = schema_outer.write();
        schema_txn.reload_idxmeta()
    };
    let cfg = BackendConfig::new(None, 1, FsType::Generic, Some(2048));
    let be = Backend::new(cfg, idxmeta, false).expect("be");
    QueryServer::new(be, schema_outer, "example.com".to_string(), ct).expect("qs")
}

async fn observe(qs: &QueryServer, w: &World) -> Vec<Obs> {
    let mut r = qs.read().await.expect("read");
    let mut out = vec![];
    for (i, u) in w.uuids.iter().enumerate() {
        let all = r.internal_search(filter_all!(f_uuid(*u))).expect("search all");
        assert!(all.len() <= 1, "duplicate uuid");
        if let Some(e) = all.first() {
            let tomb = e.attribute_equality(Attribute::Class, &EntryClass::Tombstone.into());
            let rec = e.attribute_equality(Attribute::Class, &EntryClass::Recycled.into());
            let get = |a: Attribute| e.get_ava_as_refuuid(a).map(|it| w.idset(it)).unwrap_or_default();
            out.push(Obs {
                id: i,
                grp: w.grp[i],
                dynk: w.dynk[i],
                st: if tomb { 2 } else if rec { 1 } else { 0 },
                mem: get(Attribute::Member),
                dynm: get(Attribute::DynMember),
                mo: get(Attribute::MemberOf),
                dmo: get(Attribute::DirectMemberOf),
                rdmo: get(Attribute::RecycledDirectMemberOf),
            });
        }
    }
    out
}

fn mk_entry(w: &World, ne: &NewEnt) -> Entry<EntryInit, EntryNew> {
    let u = w.uuids[ne.id];
    let mut e: Entry<EntryInit, EntryNew> = if ne.grp {
        kanidmd_lib::entry_init!(
            (Attribute::Class, EntryClass::Object.to_value()),
            (Attribute::Class, EntryClass::Group.to_value()),
            (Attribute::Name, Value::new_iname(&format!("c17h{}g{}", w.hid, ne.id))),
            (Attribute::Uuid, Value::Uuid(u))
        )
    } else {
        kanidmd_lib::entry_init!(
            (Attribute::Class, EntryClass::Object.to_value()),
            (Attribute::Class, EntryClass::ExtensibleObject.to_value()),
            (Attribute::Uuid, Value::Uuid(u))
        )
    };
    if ne.dynk > 0 {
        e.add_ava(Attribute::Class, EntryClass::DynGroup.to_value());
        e.add_ava(
            Attribute::DynGroupFilter,
            Value::JsonFilt(ProtoFilter::Eq(Attribute::Description.to_string(), w.tagstr(ne.dynk))),
        );
    }
    if ne.tag > 0 {
        e.add_ava(Attribute::Description, Value::new_utf8s(&w.tagstr(ne.tag)));
    }
    for m in &ne.mem {
        e.add_ava(Attribute::Member, Value::Refer(w.uuids[*m]));
    }
    e
}

fn memlist(w: &World, l: &[usize]) -> ModifyList<ModifyInvalid> {
    let mut v = vec![Modify::Purged(Attribute::Member)];
    for m in l {
        v.push(Modify::Present(Attribute::Member, Value::Refer(w.uuids[*m])));
    }
    ModifyList::new_list(v)
}

/// One write transaction. 0 = committed, 1 = refused (transaction dropped).
async fn run_op(qs: &QueryServer, w: &World, admin: &Identity, op: &Op, t: u64, log: &mut String) -> u64 {
    let mut wr = qs.write(Duration::from_nanos(t)).await.expect("write txn");
    let res: Result<Result<(), OperationError>, _> = std::panic::catch_unwind(AssertUnwindSafe(|| match op {
        Op::Create(l) => wr.internal_create(l.iter().map(|ne| mk_entry(w, ne)).collect()),
        Op::SetMem(chs, batch) => {
            if chs.len() == 1 && !*batch {
                wr.internal_modify_uuid(w.uuids[chs[0].0], &memlist(w, &chs[0].1))
            } else {
                wr.internal_batch_modify(chs.iter().map(|(g, l)| (w.uuids[*g], memlist(w, l))))
            }
        }
        Op::Tag(e, k) => {
            let mut v = vec![Modify::Purged(Attribute::Description)];
            if *k > 0 {
                v.push(Modify::Present(Attribute::Description, Value::new_utf8s(&w.tagstr(*k))));
            }
            wr.internal_modify_uuid(w.uuids[*e], &ModifyList::new_list(v))
        }
        Op::Delete(ids) => wr.internal_delete(&filter!(f_or(ids.iter().map(|i| f_uuid(w.uuids[*i])).collect()))),
        Op::Revive(i) => {
            let re = ReviveRecycledEvent::from_parts(admin.clone(), &filter_all!(f_uuid(w.uuids[*i])), &wr)?;
            wr.revive_recycled(&re)
        }
    }));
    match res {
        Ok(Ok(())) => match wr.commit() {
            Ok(()) => 0,
            Err(e) => {
                log.push_str(&format!(" commit-err={:?}", e));
                1
            }
        },
        Ok(Err(e)) => {
            log.push_str(&format!(" err={:?}", e).chars().take(90).collect::<String>());
            drop(wr);
            1
        }
        Err(_) => {
            log.push_str(" PANIC");
            drop(wr);
            1
        }
    }
}

// ---------------------------------------------------------------- worker thread + watchdog

enum Cmd {
    World(World),
    Run(Op),
    Verify,
}
enum Resp {
    Ready,
    Ran(u64, String, Vec<Obs>),
    Verified(usize),
}

struct Worker {
    tx: mpsc::Sender<Cmd>,
    rx: mpsc::Receiver<Resp>,
}

fn spawn_worker() -> Worker {
    let (tx, crx) = mpsc::channel::<Cmd>();
    let (rtx, rx) = mpsc::channel::<Resp>();
    std::thread::Builder::new()
        .stack_size(64 << 20)
        .spawn(move || {
            let rt = tokio::runtime::Builder::new_current_thread().enable_all().build().expect("rt");
            let t0 = 1_700_000_000 * NS;
            let qs = open_server(Duration::from_nanos(t0));
            rt.block_on(qs.initialise_helper(Duration::from_nanos(t0), DOMAIN_TGT_LEVEL)).expect("init");
            let admin = rt.block_on(async {
                let mut r = qs.read().await.expect("read");
                Identity::from_impersonate_entry_readwrite(r.internal_search_uuid(UUID_ADMIN).expect("admin"))
            });
            let mut t = t0 + 100 * NS;
            let mut world: Option<World> = None;
            let _ = rtx.send(Resp::Ready);
            while let Ok(c) = crx.recv() {
                match c {
                    Cmd::World(w) => {
                        world = Some(w);
                        let _ = rtx.send(Resp::Ready);
                    }
                    Cmd::Run(op) => {
                        let w = world.as_ref().expect("world");
                        t += 10 * NS;
                        let mut log = String::new();
                        let code = rt.block_on(run_op(&qs, w, &admin, &op, t, &mut log));
                        let obs = rt.block_on(observe(&qs, w));
                        let _ = rtx.send(Resp::Ran(code, log, obs));
                    }
                    Cmd::Verify => {
                        let v = rt.block_on(qs.verify());
                        let _ = rtx.send(Resp::Verified(v.len()));
                    }
                }
            }
        })
        .expect("spawn");
    Worker { tx, rx }
}

impl Worker {
    fn wait_ready(&self) {
        match self.rx.recv_timeout(std::time::Duration::from_secs(600)) {
            Ok(Resp::Ready) => {}
            _ => panic!("worker did not start"),
        }
    }
    /// None = the operation did not return within `limit_s` (hang)
    fn run(&self, op: &Op, limit_s: u64) -> Option<(u64, String, Vec<Obs>)> {
        self.tx.send(Cmd::Run(op.clone())).expect("send");
        match self.rx.recv_timeout(std::time::Duration::from_secs(limit_s)) {
            Ok(Resp::Ran(c, l, o)) => Some((c, l, o)),
            Ok(_) => panic!("protocol"),
            Err(mpsc::RecvTimeoutError::Timeout) => None,
            Err(e) => panic!("worker died: {:?}", e),
        }
    }
    fn verify(&self) -> usize {
        self.tx.send(Cmd::Verify).expect("send");
        match self.rx.recv_timeout(std::time::Duration::from_secs(600)) {
            Ok(Resp::Verified(n)) => n,
            _ => panic!("verify"),
        }
    }
}

// ---------------------------------------------------------------- printers

fn nl(l: &[u64]) -> String {
    clist(l, |x| cn(*x))
}
fn ul(l: &[usize]) -> String {
    clist(l, |x| cn(*x as u64))
}
fn c_obs(o: &Obs) -> String {
    capp(
        "mkent",
        &[cn(o.id as u64), cbool(o.grp), cbool(o.dynk > 0), cbool(o.st == 0), nl(&o.mem), nl(&o.dynm), nl(&o.mo), nl(&o.dmo), nl(&o.rdmo)],
    )
}
fn t_obs(o: &Obs) -> String {
    format!(
        "{}{}{} m{:?} y{:?} mo{:?} d{:?} s{:?}",
        if o.dynk > 0 { "D" } else if o.grp { "g" } else { "l" },
        o.id,
        ["", "(rec)", "(tomb)"][o.st as usize],
        o.mem,
        o.dynm,
        o.mo,
        o.dmo,
        o.rdmo
    )
}
fn c_dynch(d: &[(usize, Vec<u64>)]) -> String {
    clist(d, |(g, l)| cpair(&cn(*g as u64), &nl(l)))
}
fn c_op(op: &Op, dynch: &[(usize, Vec<u64>)]) -> String {
    match op {
        Op::Create(l) => capp(
            "OCreate",
            &[
                cbool(STRICT.load(std::sync::atomic::Ordering::Relaxed)),
                clist(l, |ne| capp("mknew", &[cn(ne.id as u64), cbool(ne.grp), cbool(ne.dynk > 0), ul(&ne.mem)])),
                c_dynch(dynch),
            ],
        ),
        Op::SetMem(chs, _) => capp(
            "OMod",
            &[
                cbool(STRICT.load(std::sync::atomic::Ordering::Relaxed)),
                clist(chs, |(g, _)| cn(*g as u64)),
                clist(chs, |(g, l)| {
                    let mut s: Vec<u64> = l.iter().map(|x| *x as u64).collect();
                    s.sort();
                    s.dedup();
                    cpair(&cn(*g as u64), &nl(&s))
                }),
                c_dynch(dynch),
            ],
        ),
        Op::Tag(e, _) => capp(
            "OMod",
            &[cbool(STRICT.load(std::sync::atomic::Ordering::Relaxed)), clist(&[*e], |x| cn(*x as u64)), "[]".into(), c_dynch(dynch)],
        ),
        Op::Delete(ids) => {
            let mut s: Vec<usize> = ids.clone();
            s.sort();
            s.dedup();
            capp("ODelete", &[ul(&s)])
        }
        Op::Revive(i) => capp("ORevive", &[cn(*i as u64), c_dynch(dynch)]),
    }
}

/// DynMember sets that differ between two observations: input of the model (the evolution of DynMember is
/// the dyngroup plugin's business - property C18 -, MemberOf must follow whatever it does).
/// For a delete nothing is passed: referential integrity alone accounts for the change.
fn dyn_changes(pre: &[Obs], post: &[Obs]) -> Vec<(usize, Vec<u64>)> {
    let mut out = vec![];
    for p in post {
        let old = pre.iter().find(|o| o.id == p.id).map(|o| o.dynm.clone()).unwrap_or_default();
        if old != p.dynm {
            out.push((p.id, p.dynm.clone()));
        }
    }
    out
}

/// untrusted Rust-side helper: does the live group graph of an observation contain a cycle?
fn has_cycle(obs: &[Obs]) -> bool {
    let live: Vec<&Obs> = obs.iter().filter(|o| o.st == 0 && o.grp).collect();
    for s in &live {
        let mut seen: BTreeSet<u64> = BTreeSet::new();
        let mut todo: Vec<u64> = s.mem.iter().chain(s.dynm.iter()).copied().collect();
        while let Some(x) = todo.pop() {
            if x == s.id as u64 {
                return true;
            }
            if seen.insert(x) {
                if let Some(g) = live.iter().find(|o| o.id as u64 == x) {
                    todo.extend(g.mem.iter().chain(g.dynm.iter()).copied());
                }
            }
        }
    }
    false
}

/// untrusted Rust-side oracle used only for statistics and the probe printout
fn closure(obs: &[Obs], id: u64) -> Vec<u64> {
    let live: Vec<&Obs> = obs.iter().filter(|o| o.st == 0 && o.grp).collect();
    let parents = |x: u64| -> Vec<u64> { live.iter().filter(|g| g.mem.contains(&x) || g.dynm.contains(&x)).map(|g| g.id as u64).collect() };
    let mut seen: BTreeSet<u64> = BTreeSet::new();
    let mut todo = parents(id);
    while let Some(x) = todo.pop() {
        if seen.insert(x) {
            todo.extend(parents(x));
        }
    }
    seen.into_iter().collect()
}
fn exact(obs: &[Obs]) -> bool {
    obs.iter().filter(|o| o.st == 0).all(|o| o.mo == closure(obs, o.id as u64))
}

fn world(hid: usize, grp: Vec<bool>, dynk: Vec<u64>) -> World {
    let uuids = (0..grp.len())
        .map(|i| Uuid::from_u128(0xc17c_17c1_0000_0000_0000_0000_0000_0000u128 + ((hid as u128) << 16) + i as u128))
        .collect();
    World { hid, uuids, grp, dynk }
}

struct Hist {
    coq_steps: Vec<String>,
    txt: String,
    cur: Vec<Obs>,
    hung: bool,
    saw_cycle: bool,
    saw_inexact: bool,
}

impl Hist {
    fn new(label: &str) -> Self {
        Hist { coq_steps: vec![], txt: format!("hist {}", label), cur: vec![], hung: false, saw_cycle: false, saw_inexact: false }
    }
    /// runs one op; returns false when the server hung (the worker must be replaced)
    fn step(&mut self, wk: &Worker, op: &Op, limit_s: u64) -> (bool, u64) {
        match wk.run(op, limit_s) {
            Some((code, log, post)) => {
                let dynch = if matches!(op, Op::Delete(_)) || code != 0 { vec![] } else { dyn_changes(&self.cur, &post) };
                self.coq_steps.push(capp("mkstep", &[c_op(op, &dynch), cn(code), clist(&post, c_obs)]));
                self.txt.push_str(&format!(
                    " | {:?} ->{}{}: {}",
                    op,
                    code,
                    log,
                    post.iter().map(t_obs).collect::<Vec<_>>().join(" ")
                ));
                if has_cycle(&post) {
                    self.saw_cycle = true;
                }
                if !exact(&post) {
                    self.saw_inexact = true;
                    self.txt.push_str(" [INEXACT]");
                }
                self.cur = post;
                (true, code)
            }
            None => {
                // the model is given the DynMember sets as they were: the ops that can hang do not touch tags
                self.coq_steps.push(capp("mkstep", &[c_op(op, &[]), cn(2), clist(&self.cur, c_obs)]));
                self.txt.push_str(&format!(" | {:?} ->HANG (no answer within {} s)", op, limit_s));
                self.hung = true;
                (false, 2)
            }
        }
    }
    fn coq(&self) -> String {
        capp("CHist", &[clist_s(&self.coq_steps)])
    }
}

/// Determines which referential-integrity variant the tree has: a modify that adds a RECYCLED entry
/// together with a new live reference is accepted by the variant whose existence test masks recycled
/// entries only after the union (false), refused by the variant that requires every reference to be live (true).
fn probe_refint(wk: &Worker) -> bool {
    wk.tx.send(Cmd::World(world(65000, vec![true, true, false], vec![0; 3]))).expect("send");
    wk.wait_ready();
    let ne = |id: usize, grp: bool| NewEnt { id, grp, dynk: 0, tag: 0, mem: vec![] };
    let r1 = wk.run(&Op::Create(vec![ne(0, true), ne(1, true), ne(2, false)]), 120).expect("probe create");
    let r2 = wk.run(&Op::Delete(vec![1]), 120).expect("probe delete");
    let r3 = wk.run(&Op::SetMem(vec![(0, vec![1, 2])], false), 120).expect("probe modify");
    assert!(r1.0 == 0 && r2.0 == 0, "refint probe setup failed");
    let strict = r3.0 != 0;
    let _ = wk.run(&Op::Delete(vec![0, 2]), 120);
    STRICT.store(strict, std::sync::atomic::Ordering::Relaxed);
    strict
}

/// `--probe`: the two refuting scenarios on the real server. Prints to stderr only.
fn probe() {
    // 1. a cycle that loses its only external parent keeps the stale MemberOf
    let wk = spawn_worker();
    wk.wait_ready();
    eprintln!("PROBE refint variant: strict={}", probe_refint(&wk));
    let grp = vec![true; 4];
    wk.tx.send(Cmd::World(world(60000, grp.clone(), vec![0; 4]))).expect("send");
    wk.wait_ready();
    let mut h = Hist::new("probe-stale");
    let ne = |id: usize, mem: Vec<usize>| NewEnt { id, grp: true, dynk: 0, tag: 0, mem };
    // A=0 in B=1 in C=2 in A ; A in G=3
    h.step(&wk, &Op::Create(vec![ne(0, vec![2]), ne(1, vec![0]), ne(2, vec![1]), ne(3, vec![0])]), 60);
    eprintln!("PROBE stale: created   {}", h.cur.iter().map(t_obs).collect::<Vec<_>>().join(" "));
    h.step(&wk, &Op::SetMem(vec![(3, vec![])], false), 60);
    eprintln!("PROBE stale: G.member=[] {}", h.cur.iter().map(t_obs).collect::<Vec<_>>().join(" "));
    eprintln!(
        "PROBE stale: exact={} (closure of 0 = {:?}, stored mo = {:?}); verify() reports {} problems",
        exact(&h.cur),
        closure(&h.cur, 0),
        h.cur[0].mo,
        wk.verify()
    );
    eprintln!("PROBE stale case: {}", h.coq());
    // 2. two groups joined into a cycle and removed from their different parents in ONE batch modify
    let wk = spawn_worker();
    wk.wait_ready();
    wk.tx.send(Cmd::World(world(60001, grp, vec![0; 4]))).expect("send");
    wk.wait_ready();
    let mut h = Hist::new("probe-oscillation");
    // A=0 in G1=2, B=1 in G2=3
    h.step(&wk, &Op::Create(vec![ne(0, vec![]), ne(1, vec![]), ne(2, vec![0]), ne(3, vec![1])]), 60);
    eprintln!("PROBE osc: created {}", h.cur.iter().map(t_obs).collect::<Vec<_>>().join(" "));
    let (ok, code) = h.step(&wk, &Op::SetMem(vec![(0, vec![1]), (1, vec![0]), (2, vec![]), (3, vec![])], true), 30);
    eprintln!("PROBE osc: batch modify answered={} code={} {}", ok, code, h.cur.iter().map(t_obs).collect::<Vec<_>>().join(" "));
    eprintln!("PROBE osc case: {}", h.coq());
    // 3. a batch modify that references a recycled entry
    let wk = spawn_worker();
    wk.wait_ready();
    wk.tx.send(Cmd::World(world(60002, vec![true; 6], vec![0; 6]))).expect("send");
    wk.wait_ready();
    let mut h = Hist::new("probe-dead-ref");
    h.step(&wk, &Op::Create(vec![ne(0, vec![3]), ne(2, vec![4]), ne(3, vec![]), ne(4, vec![]), ne(5, vec![])]), 60);
    h.step(&wk, &Op::Delete(vec![0]), 60);
    eprintln!("PROBE dead: before {}", h.cur.iter().map(t_obs).collect::<Vec<_>>().join(" "));
    let (ok, code) = h.step(&wk, &Op::SetMem(vec![(2, vec![0]), (3, vec![5, 4]), (4, vec![]), (5, vec![2])], true), 20);
    eprintln!("PROBE dead: batch answered={} code={} {}", ok, code, h.txt);
    let wk = spawn_worker();
    wk.wait_ready();
    wk.tx.send(Cmd::World(world(60003, vec![true; 6], vec![0; 6]))).expect("send");
    wk.wait_ready();
    let mut h = Hist::new("probe-dead-ref2");
    h.step(&wk, &Op::Create(vec![ne(0, vec![3]), ne(2, vec![4]), ne(3, vec![]), ne(4, vec![]), ne(5, vec![])]), 60);
    h.step(&wk, &Op::Delete(vec![0]), 60);
    let (ok, code) = h.step(&wk, &Op::SetMem(vec![(2, vec![0]), (3, vec![5, 4]), (4, vec![])], true), 20);
    eprintln!("PROBE dead2: batch answered={} code={} {}", ok, code, h.txt);
}

fn main() {
    let args = parse_args();
    if args.extra.iter().any(|a| a == "--probe") {
        probe();
        std::process::exit(0);
    }
    let mut rng = Rng::new(args.seed);
    let mut sink = Sink::new(&args, "KV.C17.Model", 8);
    sink.rule = "random histories on a real in-memory QueryServer over 2..12 groups (0..2 of them dynamic groups with a \
`description eq tag` filter) and 1..5 leaf entries (extensibleobject): first op creates a random part of the population with random \
member edges (cycles and self loops allowed), then 10..18 (quick) / 15..40 (thorough) ops: member set change of one group \
(internal_modify), of 2..4 groups in one operation (internal_batch_modify), description/tag change, delete of 1..2 entries, revive as \
admin, create of further entries; a few ops target non-live entries or reference non-live members (refused). Every tracked entry \
(Member, DynMember, MemberOf, DirectMemberOf, RecycledDirectMemberOf, live/recycled) is read back after every op. \
non-trivial = the history reached a state with a cycle among live groups OR (nesting depth >= 2 AND a committed delete AND a committed revive)"
        .into();

    let n_hist = if args.thorough { 900 } else { 130 };
    let (len_lo, len_hi) = if args.thorough { (15, 40) } else { (10, 18) };
    let per_server = 60;
    let limit_s = 12;
    let max_hangs = if args.thorough { 6 } else { 2 };
    let mut hangs = 0;

    let mut wk = spawn_worker();
    wk.wait_ready();
    let strict = probe_refint(&wk);
    sink.bump(if strict { "refint_variant_strict" } else { "refint_variant_union_masked" });
    let mut on_server = 0;
    for hid in 0..n_hist {
        if on_server >= per_server {
            wk = spawn_worker();
            wk.wait_ready();
            on_server = 0;
        }
        on_server += 1;
        // ---- population
        let ng = if rng.chance(1, 4) { rng.range(9, 12) } else { rng.range(2, 8) } as usize;
        let nlf = rng.range(1, 5) as usize;
        let n = ng + nlf;
        let nd = (if rng.chance(1, 2) { 0 } else { rng.range(1, 2) as usize }).min(ng - 1);
        let mut grp = vec![false; n];
        let mut dynk = vec![0u64; n];
        for g in grp.iter_mut().take(ng) {
            *g = true;
        }
        {
            let mut idx: Vec<usize> = (0..ng).collect();
            rng.shuffle(&mut idx);
            for (k, i) in idx.iter().take(nd).enumerate() {
                dynk[*i] = k as u64 + 1;
            }
        }
        let w = world(hid, grp.clone(), dynk.clone());
        wk.tx.send(Cmd::World(w)).expect("send");
        wk.wait_ready();
        let dens = *rng.pick(&[4u64, 6, 9, 13, 20]); // edge probability in %
        let mut created = vec![false; n];
        let mut tags = vec![0u64; n];
        // half of the histories keep the group graph acyclic by construction (edges only towards larger
        // indices or leaves), so that long edit sequences are also checked where exactness must hold
        let acyc = rng.chance(1, 2);
        let dyn_idx = |k: u64| -> usize { dynk.iter().position(|x| *x == k).unwrap_or(0) };
        let edge_ok = |g: usize, m: usize| -> bool { !acyc || !grp[m] || m > g };
        let mut h = Hist::new(&format!("n={} (g{} dyn{} l{}{})", n, ng, nd, nlf, if acyc { " dag" } else { "" }));

        let gen_new = |rng: &mut Rng, ids: &[usize], created: &[bool], live: &[usize]| -> Vec<NewEnt> {
            ids.iter()
                .map(|&i| {
                    let mut mem = vec![];
                    if grp[i] {
                        for m in 0..n {
                            let avail = ids.contains(&m) || (created[m] && live.contains(&m));
                            if avail && edge_ok(i, m) && (m != i || rng.chance(1, 6)) && rng.chance(dens, 100) {
                                mem.push(m);
                            }
                        }
                    }
                    let mut tag = if nd > 0 && rng.chance(1, 4) { rng.range(1, nd as u64) } else { 0 };
                    if tag > 0 && !edge_ok(dyn_idx(tag), i) {
                        tag = 0;
                    }
                    NewEnt { id: i, grp: grp[i], dynk: dynk[i], tag, mem }
                })
                .collect()
        };

        // first op: create a random part (at least half) of the population
        let mut first: Vec<usize> = (0..n).filter(|_| rng.chance(3, 4)).collect();
        if first.len() < 2 {
            first = (0..n).collect();
        }
        let news = gen_new(&mut rng, &first, &created, &[]);
        for ne in &news {
            created[ne.id] = true;
            tags[ne.id] = ne.tag;
        }
        let (ok, code) = h.step(&wk, &Op::Create(news), limit_s);
        sink.bump(if !ok { "create_hang" } else if code == 0 { "create_ok" } else { "create_refused" });
        if ok && code != 0 {
            for i in &first {
                created[*i] = false;
                tags[*i] = 0;
            }
        }
        let (mut saw_del, mut saw_rev, mut depth2) = (false, false, false);
        let len = rng.range(len_lo, len_hi);
        let mut k = 0;
        while ok && k < len && !h.hung {
            k += 1;
            let live: Vec<usize> = h.cur.iter().filter(|o| o.st == 0).map(|o| o.id).collect();
            let lgroups: Vec<usize> = h.cur.iter().filter(|o| o.st == 0 && o.grp).map(|o| o.id).collect();
            let recs: Vec<usize> = h.cur.iter().filter(|o| o.st == 1).map(|o| o.id).collect();
            let fresh: Vec<usize> = (0..n).filter(|i| !created[*i]).collect();
            let cur_mem = |g: usize| -> Vec<usize> { h.cur.iter().find(|o| o.id == g).map(|o| o.mem.iter().map(|x| *x as usize).collect()).unwrap_or_default() };
            let mutate = |rng: &mut Rng, g: usize| -> Vec<usize> {
                let mut l = cur_mem(g);
                for _ in 0..rng.range(1, 3) {
                    // 3% of the picks reference an entry that is not live (refused by referential integrity)
                    let cand = if rng.chance(3, 100) || live.is_empty() { rng.below(n as u64) as usize } else { *rng.pick(&live) };
                    if let Some(p) = l.iter().position(|x| *x == cand) {
                        l.remove(p);
                    } else if edge_ok(g, cand) && (cand != g || rng.chance(1, 4)) {
                        l.push(cand);
                    }
                }
                if rng.chance(1, 12) {
                    l.clear();
                }
                l
            };
            let r = rng.below(100);
            let op = if r < 34 && !lgroups.is_empty() {
                let g = if rng.chance(1, 30) { rng.below(ng as u64) as usize } else { *rng.pick(&lgroups) };
                // internal_batch_modify searches with filter_all and would also edit a recycled target; the model
                // covers modifications of live targets only, so the batch form is used for live targets only
                let batch = rng.chance(1, 5) && lgroups.contains(&g);
                Op::SetMem(vec![(g, mutate(&mut rng, g))], batch)
            } else if r < 52 && lgroups.len() >= 2 && hangs < max_hangs {
                let mut gs = lgroups.clone();
                rng.shuffle(&mut gs);
                gs.truncate(rng.range(2, 4) as usize);
                gs.sort();
                Op::SetMem(gs.iter().map(|g| (*g, mutate(&mut rng, *g))).collect(), true)
            } else if r < 62 && nd > 0 && !live.is_empty() {
                let e = *rng.pick(&live);
                let mut t = rng.range(0, nd as u64);
                if t > 0 && !edge_ok(dyn_idx(t), e) {
                    t = 0;
                }
                Op::Tag(e, t)
            } else if r < 76 && !live.is_empty() {
                let mut ids = vec![if rng.chance(1, 25) { rng.below(n as u64) as usize } else { *rng.pick(&live) }];
                if rng.chance(1, 3) {
                    let x = *rng.pick(&live);
                    if !ids.contains(&x) {
                        ids.push(x);
                    }
                }
                Op::Delete(ids)
            } else if r < 90 && !recs.is_empty() {
                Op::Revive(if rng.chance(1, 25) { rng.below(n as u64) as usize } else { *rng.pick(&recs) })
            } else if !fresh.is_empty() {
                let mut ids = fresh.clone();
                rng.shuffle(&mut ids);
                ids.truncate(rng.range(1, 3) as usize);
                ids.sort();
                Op::Create(gen_new(&mut rng, &ids, &created, &live))
            } else if !lgroups.is_empty() {
                let g = *rng.pick(&lgroups);
                Op::SetMem(vec![(g, mutate(&mut rng, g))], false)
            } else {
                continue;
            };
            let (ok2, code) = h.step(&wk, &op, limit_s);
            let kind = match &op {
                Op::Create(_) => "create",
                Op::SetMem(c, b) => if c.len() > 1 { "batchmod" } else if *b { "batchmod1" } else { "setmem" },
                Op::Tag(..) => "tag",
                Op::Delete(_) => "delete",
                Op::Revive(_) => "revive",
            };
            sink.bump(&format!("{}_{}", kind, if !ok2 { "hang" } else if code == 0 { "ok" } else { "refused" }));
            if ok2 && code == 0 {
                match &op {
                    Op::Create(l) => {
                        for ne in l {
                            created[ne.id] = true;
                            tags[ne.id] = ne.tag;
                        }
                    }
                    Op::Tag(e, t) => tags[*e] = *t,
                    Op::Delete(_) => saw_del = true,
                    Op::Revive(_) => saw_rev = true,
                    _ => {}
                }
                // nesting depth >= 2: some live entry has an indirect membership
                if h.cur.iter().any(|o| o.st == 0 && o.mo.len() > o.dmo.len()) {
                    depth2 = true;
                }
            }
        }
        if h.hung {
            hangs += 1;
            sink.bump("hist_hung");
            wk = spawn_worker();
            wk.wait_ready();
            on_server = 0;
        }
        if h.saw_cycle {
            sink.bump("hist_with_cycle");
        }
        if h.saw_inexact {
            sink.bump("hist_with_inexact_state");
        }
        let nontrivial = h.saw_cycle || (depth2 && saw_del && saw_rev);
        sink.case(h.coq(), h.txt.clone(), nontrivial);
    }
    sink.finish();
    // abandoned (hung) worker threads must not keep the process alive
    std::process::exit(0);
}
