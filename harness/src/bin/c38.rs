//! C38 — OAuth2 authorisation happens only on registered terms.
//!
//! Real code driven: `IdmServerProxyReadTransaction::check_oauth2_authorisation` and
//! `IdmServerProxyWriteTransaction::check_oauth2_authorise_permit` on in-memory servers that hold
//! random OAuth2 client entries (so `Oauth2ResourceServers::reload` is exercised too), random
//! groups / persons / the built-in anonymous account. Issued exchange codes and consent tokens
//! are opened with the server's own keys (verif-hooks) so that the scopes, redirect URI, PKCE
//! challenge, account and session they carry are observed, not assumed.
use kanidm_proto::oauth2::{
    AuthorisationRequest, CodeChallengeMethod, PkceRequest, Prompt, ResponseMode, ResponseType,
};
use kanidmd_lib::entry::{Entry, EntryInit, EntryNew, EntrySealedCommitted};
use kanidmd_lib::entry_init;
use kanidmd_lib::idm::oauth2::{AuthorisationRequestContext, AuthoriseResponse, Oauth2Error};
use kanidmd_lib::idm::server::IdmServer;
use kanidmd_lib::prelude::*;
use kanidmd_lib::testkit::{setup_idm_test, TestConfiguration};
use kanidmd_lib::verif_hooks::c38::{ident_user, VerifC38Grant};
use kvh::*;
use std::collections::{BTreeMap, BTreeSet};
use std::sync::Arc;

/// all printed times are seconds relative to this instant (2030); the servers are created before it
const BASE: u64 = 1_900_000_000;
const T0: u64 = BASE + 86_400;

const SCOPES: &[&str] = &[
    "openid", "email", "ssh_publickeys", "email_verified", // ids 0..3 are fixed in the model
    "groups", "profile", "read", "write", "https://api.example.com", "a-b.c:d_9",
];
const BAD_SCOPES: &[&str] = &["bad scope", "a::b", "", "trailing.", ".x", "caf\u{e9}", "a//b", "a:/b"];

/// independent reading of OAUTHSCOPE_RE = ^[0-9a-zA-Z_]+(([:\-.]|(://))[0-9a-zA-Z_]+)*$
fn scope_ok(s: &str) -> bool {
    let b = s.as_bytes();
    let mut i = 0usize;
    fn word(b: &[u8], i: &mut usize) -> bool {
        let st = *i;
        while *i < b.len() && (b[*i].is_ascii_alphanumeric() || b[*i] == b'_') {
            *i += 1;
        }
        *i > st
    }
    if !word(b, &mut i) {
        return false;
    }
    while i < b.len() {
        if b[i..].starts_with(b"://") {
            i += 3;
        } else if b[i] == b':' || b[i] == b'-' || b[i] == b'.' {
            i += 1;
        } else {
            return false;
        }
        if !word(b, &mut i) {
            return false;
        }
    }
    true
}

struct Ids {
    uri: Intern<String>,
    frag: Intern<String>,
    scope: Intern<String>,
    group: Intern<Uuid>,
    acct: Intern<Uuid>,
    sess: Intern<Uuid>,
    chal: Intern<Vec<u8>>,
    state: Intern<String>,
}

impl Ids {
    fn new() -> Self {
        let mut s = Ids {
            uri: Intern::new(),
            frag: Intern::new(),
            scope: Intern::new(),
            group: Intern::new(),
            acct: Intern::new(),
            sess: Intern::new(),
            chal: Intern::new(),
            state: Intern::new(),
        };
        for (i, n) in SCOPES.iter().enumerate() {
            assert_eq!(s.scope.id(&n.to_string()), i as u64);
        }
        assert_eq!(s.acct.id(&UUID_ANONYMOUS), 0);
        s
    }
    fn scopes<'a, I: Iterator<Item = &'a String>>(&mut self, it: I) -> Vec<u64> {
        let mut v: Vec<u64> = it.map(|s| self.scope.id(s)).collect();
        v.sort();
        v.dedup();
        v
    }
    /// (serialisation id, fragment id)
    fn ukey(&mut self, u: &Url) -> (u64, Option<u64>) {
        let mut b = u.clone();
        b.set_fragment(None);
        let id = self.uri.id(&b.as_str().to_string());
        let fr = u.fragment().map(|f| self.frag.id(&f.to_string()));
        (id, fr)
    }
    fn uri(&mut self, u: &Url) -> String {
        let (id, fr) = self.ukey(u);
        let scheme = match u.scheme() {
            "https" => "SHttps",
            "http" => "SHttp",
            _ => "SOther",
        };
        // the parsed host, read through the public accessors of `Url`
        let host = if let Some(d) = u.domain() {
            capp("HDomain", &[cstr(d)])
        } else if let Some(h) = u.host_str() {
            if let Some(inner) = h.strip_prefix('[').and_then(|x| x.strip_suffix(']')) {
                let a: std::net::Ipv6Addr = inner.parse().expect("v6 host");
                capp("HV6", &[clist(&a.segments(), |x| cn(*x as u64))])
            } else {
                let a: std::net::Ipv4Addr = h.parse().expect("v4 host");
                let o = a.octets();
                capp("HV4", &[cn(o[0] as u64), cn(o[1] as u64), cn(o[2] as u64), cn(o[3] as u64)])
            }
        } else {
            "HNone".to_string()
        };
        capp("mkuri", &[cn(id), copt(&fr, |x| cn(*x)), scheme.to_string(), host])
    }
}

fn cids(v: &[u64]) -> String {
    clist(v, |x| cn(*x))
}
fn cmaps(m: &[(u64, Vec<u64>)]) -> String {
    clist(m, |(g, s)| format!("({}, {})", cn(*g), cids(s)))
}

#[derive(Clone)]
struct ClientCfg {
    name: String,
    uuid: Uuid,
    public: bool,
    disable_pkce: Option<bool>,
    consent_enable: Option<bool>,
    localhost: Option<bool>,
    landing: Url,
    origins: Vec<Url>,
    maps: Vec<(Uuid, BTreeSet<String>)>,
    sup: Vec<(Uuid, BTreeSet<String>)>,
}

impl ClientCfg {
    fn coq(&self, ids: &mut Ids) -> String {
        let mk = |m: &Vec<(Uuid, BTreeSet<String>)>, ids: &mut Ids| -> Vec<(u64, Vec<u64>)> {
            let mut v: Vec<(u64, Vec<u64>)> = m.iter().map(|(g, s)| (ids.group.id(g), ids.scopes(s.iter()))).collect();
            v.sort();
            v
        };
        let maps = mk(&self.maps, ids);
        let sup = mk(&self.sup, ids);
        let mut origins: Vec<String> = self.origins.iter().map(|u| ids.uri(u)).collect();
        origins.sort();
        capp(
            "mkcentry",
            &[
                cbool(self.public),
                copt(&self.disable_pkce, |b| cbool(*b)),
                copt(&self.consent_enable, |b| cbool(*b)),
                copt(&self.localhost, |b| cbool(*b)),
                ids.uri(&self.landing),
                clist_s(&origins),
                cmaps(&maps),
                cmaps(&sup),
            ],
        )
    }
    fn txt(&self) -> String {
        format!(
            "{}[{} pkce_off={:?} consent={:?} localhost={:?} landing={} origins={:?} maps={:?} sup={:?}]",
            self.name,
            if self.public { "public" } else { "basic" },
            self.disable_pkce,
            self.consent_enable,
            self.localhost,
            self.landing,
            self.origins.iter().map(|u| u.as_str()).collect::<Vec<_>>(),
            self.maps.iter().map(|(g, s)| (g.as_u128() & 0xffff, s.clone())).collect::<Vec<_>>(),
            self.sup.iter().map(|(g, s)| (g.as_u128() & 0xffff, s.clone())).collect::<Vec<_>>(),
        )
    }
}

struct World {
    idms: IdmServer,
    groups: Vec<Uuid>,
    persons: Vec<Uuid>,
    membership: BTreeMap<Uuid, BTreeSet<Uuid>>, // person -> created groups
    clients: Vec<ClientCfg>,
    entries: BTreeMap<Uuid, Arc<EntrySealedCommitted>>,
}

fn uri_pool(k: usize) -> Vec<String> {
    vec![
        format!("https://app{k}.example.com/"),
        format!("https://app{k}.example.com/oauth2/cb"),
        format!("http://app{k}.example.com/cb"),
        "https://portal.example.com/?custom=foo".to_string(),
        "https://shared.example.com/cb".to_string(),
        format!("https://app{k}.example.com/cb#frag"),
        format!("app://cheese{k}"),
        "app://localhost/cb".to_string(),
        format!("com.example.app{k}:/cb"),
        "http://localhost:8080/cb".to_string(),
        "http://127.0.0.1/cb".to_string(),
        "http://[::1]/cb".to_string(),
        "https://localhost/secure".to_string(),
        "http://intranet/cb".to_string(),
    ]
}

fn rand_scope_set(rng: &mut Rng, min: u64, max: u64) -> BTreeSet<String> {
    let n = rng.range(min, max);
    let mut s = BTreeSet::new();
    for _ in 0..n {
        // openid / email / ssh_publickeys are favoured so that the PII branch is reached
        let x = if rng.chance(1, 2) { SCOPES[rng.below(3) as usize] } else { *rng.pick(SCOPES) };
        s.insert(x.to_string());
    }
    s
}

fn build_world(rt: &tokio::runtime::Runtime, rng: &mut Rng, wid: usize) -> World {
    let (idms, _delayed, _audit) = rt.block_on(setup_idm_test(TestConfiguration::default()));
    // keep the receivers alive for the life of the process
    std::mem::forget(_delayed);
    std::mem::forget(_audit);
    let n_groups = 4usize;
    let n_persons = 4usize;
    let groups: Vec<Uuid> = (0..n_groups).map(|g| Uuid::from_u128(0x3800_0000_0000_0000_0000u128 + ((wid as u128) << 16) + 0x100 + g as u128)).collect();
    let persons: Vec<Uuid> = (0..n_persons).map(|p| Uuid::from_u128(0x3800_0000_0000_0000_0000u128 + ((wid as u128) << 16) + 0x200 + p as u128)).collect();
    let mut membership: BTreeMap<Uuid, BTreeSet<Uuid>> = persons.iter().map(|p| (*p, BTreeSet::new())).collect();
    let mut ents: Vec<Entry<EntryInit, EntryNew>> = vec![];
    for (gi, g) in groups.iter().enumerate() {
        let mut e: Entry<EntryInit, EntryNew> = entry_init!(
            (Attribute::Class, EntryClass::Object.to_value()),
            (Attribute::Class, EntryClass::Group.to_value()),
            (Attribute::Name, Value::new_iname(&format!("w{wid}grp{gi}"))),
            (Attribute::Uuid, Value::Uuid(*g))
        );
        for p in persons.iter() {
            if rng.chance(1, 2) {
                e.add_ava(Attribute::Member, Value::Refer(*p));
                membership.get_mut(p).expect("p").insert(*g);
            }
        }
        ents.push(e);
    }
    for (pi, p) in persons.iter().enumerate() {
        ents.push(entry_init!(
            (Attribute::Class, EntryClass::Object.to_value()),
            (Attribute::Class, EntryClass::Account.to_value()),
            (Attribute::Class, EntryClass::Person.to_value()),
            (Attribute::Name, Value::new_iname(&format!("w{wid}person{pi}"))),
            (Attribute::DisplayName, Value::new_utf8s(&format!("Person {pi}"))),
            (Attribute::Uuid, Value::Uuid(*p))
        ));
    }
    let n_clients = 8usize;
    let mut clients = vec![];
    for k in 0..n_clients {
        let pool = uri_pool(k % 3);
        let public = rng.chance(2, 5);
        let ob = |rng: &mut Rng| match rng.below(3) {
            0 => None,
            1 => Some(true),
            _ => Some(false),
        };
        let disable_pkce = if public { None } else { ob(rng) };
        let consent_enable = if rng.chance(1, 2) { ob(rng) } else { None };
        let localhost = if public { if rng.chance(1, 2) { Some(true) } else { ob(rng) } } else { None };
        let landing = Url::parse(rng.pick(&pool)).expect("pool url");
        let mut origins: Vec<Url> = vec![];
        for _ in 0..rng.below(5) {
            let u = Url::parse(rng.pick(&pool)).expect("pool url");
            if !origins.contains(&u) {
                origins.push(u);
            }
        }
        let mut gpool: Vec<Uuid> = groups.clone();
        gpool.push(UUID_IDM_ALL_ACCOUNTS);
        rng.shuffle(&mut gpool);
        let nm = rng.range(1, 3) as usize;
        let maps: Vec<(Uuid, BTreeSet<String>)> = gpool[..nm].iter().map(|g| (*g, rand_scope_set(rng, 1, 4))).collect();
        rng.shuffle(&mut gpool);
        let ns = rng.below(3) as usize;
        let sup: Vec<(Uuid, BTreeSet<String>)> = gpool[..ns].iter().map(|g| (*g, rand_scope_set(rng, 1, 3))).collect();
        let uuid = Uuid::from_u128(0x3800_0000_0000_0000_0000u128 + ((wid as u128) << 16) + 0x300 + k as u128);
        let name = format!("w{wid}client{k}");
        let mut e: Entry<EntryInit, EntryNew> = entry_init!(
            (Attribute::Class, EntryClass::Object.to_value()),
            (Attribute::Class, EntryClass::Account.to_value()),
            (Attribute::Class, EntryClass::OAuth2ResourceServer.to_value()),
            (Attribute::Uuid, Value::Uuid(uuid)),
            (Attribute::Name, Value::new_iname(&name)),
            (Attribute::DisplayName, Value::new_utf8s(&name)),
            (Attribute::OAuth2RsOriginLanding, Value::new_url_s(landing.as_str()).expect("url"))
        );
        e.add_ava(
            Attribute::Class,
            if public { EntryClass::OAuth2ResourceServerPublic.to_value() } else { EntryClass::OAuth2ResourceServerBasic.to_value() },
        );
        for o in origins.iter() {
            e.add_ava(Attribute::OAuth2RsOrigin, Value::new_url_s(o.as_str()).expect("url"));
        }
        for (g, s) in maps.iter() {
            e.add_ava(Attribute::OAuth2RsScopeMap, Value::new_oauthscopemap(*g, s.clone()).expect("scopemap"));
        }
        for (g, s) in sup.iter() {
            e.add_ava(Attribute::OAuth2RsSupScopeMap, Value::new_oauthscopemap(*g, s.clone()).expect("scopemap"));
        }
        if let Some(b) = disable_pkce {
            e.add_ava(Attribute::OAuth2AllowInsecureClientDisablePkce, Value::new_bool(b));
        }
        if let Some(b) = consent_enable {
            e.add_ava(Attribute::OAuth2ConsentPromptEnable, Value::new_bool(b));
        }
        if let Some(b) = localhost {
            e.add_ava(Attribute::OAuth2AllowLocalhostRedirect, Value::new_bool(b));
        }
        ents.push(e);
        clients.push(ClientCfg { name, uuid, public, disable_pkce, consent_enable, localhost, landing, origins, maps, sup });
    }
    let mut w = rt.block_on(idms.proxy_write(Duration::from_secs(T0))).expect("proxy_write");
    w.qs_write.internal_create(ents).expect("create world");
    w.commit().expect("commit world");
    let mut world = World { idms, groups, persons, membership, clients, entries: BTreeMap::new() };
    world.refresh(rt);
    // sanity: the memberof the server computed is the membership the harness configured
    for p in world.persons.iter() {
        let e = world.entries.get(p).expect("person entry");
        let mo: BTreeSet<Uuid> = e.get_ava_refer(Attribute::MemberOf).cloned().unwrap_or_default();
        for g in world.groups.iter() {
            assert_eq!(mo.contains(g), world.membership[p].contains(g), "memberof differs from configured membership");
        }
    }
    world
}

impl World {
    fn refresh(&mut self, rt: &tokio::runtime::Runtime) {
        let mut r = rt.block_on(self.idms.proxy_read()).expect("proxy_read");
        for p in self.persons.iter().chain(std::iter::once(&UUID_ANONYMOUS)) {
            let e = r.qs_read.internal_search_uuid(*p).expect("entry");
            self.entries.insert(*p, e);
        }
    }
}

#[derive(Clone)]
struct IdentSpec {
    acct: Uuid,
    session: Uuid,
    auth_time: Option<Duration>,
}

#[derive(Clone, Copy, PartialEq, Debug)]
enum PkIn {
    Absent,
    S256,
    Other,
    NoMethod,
}

#[derive(Clone)]
struct ReqSpec {
    client: Option<usize>,
    client_id: String,
    rtype: ResponseType,
    rmode: Option<ResponseMode>,
    pk: PkIn,
    challenge: Vec<u8>,
    via_json: bool,
    redirect: Url,
    scope: BTreeSet<String>,
    prompt: Vec<Prompt>,
    max_age: Option<i64>,
    resumed: bool,
    state: Option<String>,
}

fn b64url(b: &[u8]) -> String {
    const T: &[u8; 64] = b"ABCDEFGHIJKLMNOPQRSTUVWXYZabcdefghijklmnopqrstuvwxyz0123456789-_";
    let mut s = String::new();
    for ch in b.chunks(3) {
        let n = (ch[0] as u32) << 16 | (*ch.get(1).unwrap_or(&0) as u32) << 8 | *ch.get(2).unwrap_or(&0) as u32;
        s.push(T[(n >> 18) as usize & 63] as char);
        s.push(T[(n >> 12) as usize & 63] as char);
        if ch.len() > 1 {
            s.push(T[(n >> 6) as usize & 63] as char);
        }
        if ch.len() > 2 {
            s.push(T[n as usize & 63] as char);
        }
    }
    s
}

fn prompt_str(p: &Prompt) -> String {
    match p {
        Prompt::None => "none".into(),
        Prompt::Login => "login".into(),
        Prompt::Consent => "consent".into(),
        Prompt::SelectAccount => "select_account".into(),
        Prompt::Invalid(s) => s.clone(),
    }
}

impl ReqSpec {
    /// the request as the server receives it: built as the typed structure, or (via_json) decoded
    /// from its wire form by the structure's own deserialiser
    fn build(&self) -> Result<AuthorisationRequest, String> {
        if self.via_json {
            let mut m = serde_json::Map::new();
            let rt = match self.rtype {
                ResponseType::Code => "code",
                ResponseType::Token => "token",
                ResponseType::IdToken => "id_token",
            };
            m.insert("response_type".into(), rt.into());
            if let Some(rm) = self.rmode {
                let s = match rm {
                    ResponseMode::Query => "query",
                    ResponseMode::Fragment => "fragment",
                    ResponseMode::FormPost => "form_post",
                    ResponseMode::Invalid => "telepathy",
                };
                m.insert("response_mode".into(), s.into());
            }
            m.insert("client_id".into(), self.client_id.clone().into());
            if let Some(s) = &self.state {
                m.insert("state".into(), s.clone().into());
            }
            match self.pk {
                PkIn::Absent => {}
                PkIn::S256 => {
                    m.insert("code_challenge".into(), b64url(&self.challenge).into());
                    m.insert("code_challenge_method".into(), "S256".into());
                }
                PkIn::Other => {
                    m.insert("code_challenge".into(), b64url(&self.challenge).into());
                    m.insert("code_challenge_method".into(), "plain".into());
                }
                PkIn::NoMethod => {
                    m.insert("code_challenge".into(), b64url(&self.challenge).into());
                }
            }
            m.insert("redirect_uri".into(), self.redirect.as_str().into());
            m.insert("scope".into(), self.scope.iter().cloned().collect::<Vec<_>>().join(" ").into());
            if let Some(a) = self.max_age {
                m.insert("max_age".into(), a.into());
            }
            if !self.prompt.is_empty() {
                m.insert("prompt".into(), self.prompt.iter().map(prompt_str).collect::<Vec<_>>().join(" ").into());
            }
            serde_json::from_value::<AuthorisationRequest>(serde_json::Value::Object(m)).map_err(|e| e.to_string())
        } else {
            let pkce_request = match self.pk {
                PkIn::S256 => Some(PkceRequest { code_challenge: self.challenge.clone(), code_challenge_method: CodeChallengeMethod::S256 }),
                PkIn::Absent => None,
                _ => unreachable!("only the wire form can carry a non-S256 method"),
            };
            Ok(AuthorisationRequest {
                response_type: self.rtype,
                response_mode: self.rmode,
                client_id: self.client_id.clone(),
                state: self.state.clone(),
                pkce_request,
                redirect_uri: self.redirect.clone(),
                scope: self.scope.clone(),
                nonce: Some("abcdef".to_string()),
                oidc_ext: Default::default(),
                max_age: self.max_age,
                prompt: self.prompt.clone(),
                ui_locales: vec![],
                unknown_keys: Default::default(),
            })
        }
    }
}

fn mutate_uri(rng: &mut Rng, base: &Url) -> Option<Url> {
    let s = base.as_str().to_string();
    let m = match rng.below(14) {
        0 => format!("{}/", s.trim_end_matches('/')) + if s.ends_with('/') { "/" } else { "" },
        1 => s.to_uppercase().replacen("HTTPS", "https", 1).replacen("HTTP", "http", 1),
        2 => s.replacen("://", "://user:pw@", 1),
        3 => s.replacen("https://", "http://", 1),
        4 => s.replacen("http://", "https://", 1),
        5 => format!("{}#frag", s),
        6 => format!("{}{}x=1", s, if s.contains('?') { "&" } else { "?" }),
        7 => s.replacen(".example.com", ".example.com:8443", 1),
        8 => s.replacen(".example.com", ".example.com.evil.org", 1),
        9 => s.replacen("app", "App", 1),
        10 => format!("{}/../other", s.trim_end_matches('/')),
        11 => s.replacen("example.com", "example.com.", 1),
        12 => s.replacen(":8080", ":9090", 1),
        _ => s.replacen("https://", "https://evil.org/?u=https://", 1),
    };
    Url::parse(&m).ok()
}

const LOOPBACKS: &[&str] = &[
    "http://localhost/cb", "http://localhost:8080/cb", "http://localhost:49152/anything", "http://LOCALHOST/cb",
    "http://127.0.0.1/cb", "http://127.0.0.1:7777/", "http://127.9.8.7/", "http://2130706433/", "http://0x7f.1/cb",
    "http://[::1]/cb", "http://[0:0:0:0:0:0:0:1]:8080/cb", "http://[::ffff:127.0.0.1]/cb", "http://[::2]/cb",
    "http://localhost.evil.org/cb", "http://localhost./cb", "http://evil.org/localhost", "http://128.0.0.1/cb",
    "http://user@localhost/cb", "https://localhost/secure", "ftp://localhost/cb", "app://localhost/cb",
    "app://127.0.0.1/cb", "custom://localhost", "http://localhost@evil.org/cb", "http://0.0.0.0/cb", "app:localhost",
];

fn gen_request(rng: &mut Rng, w: &World, templates: &[(ReqSpec, usize)]) -> (ReqSpec, Option<usize>) {
    // sometimes replay a request that reached consent / permit before (same person), so that
    // "consent previously granted" happens
    if !templates.is_empty() && rng.chance(1, 4) {
        let (t, p) = rng.pick(templates).clone();
        let mut t = t;
        if rng.chance(1, 3) {
            t.challenge = rng.bytes(32);
        }
        if rng.chance(1, 6) {
            t.prompt = vec![Prompt::None];
        }
        if rng.chance(1, 8) {
            t.scope = rand_scope_set(rng, 1, 3);
        }
        return (t, Some(p));
    }
    let good = rng.chance(3, 5);
    let (client, client_id) = if rng.chance(1, 25) {
        (None, "nonexistent_client".to_string())
    } else {
        let k = rng.below(w.clients.len() as u64) as usize;
        let n = w.clients[k].name.clone();
        (Some(k), if rng.chance(1, 10) { n.to_uppercase() } else { n })
    };
    let person = if rng.chance(9, 10) { Some(rng.below(w.persons.len() as u64) as usize) } else { None };
    // redirect uri
    let redirect = {
        let own: Vec<Url> = match client {
            Some(k) => std::iter::once(w.clients[k].landing.clone()).chain(w.clients[k].origins.iter().cloned()).collect(),
            None => vec![Url::parse("https://nowhere.example.com/").expect("u")],
        };
        let sel = if good { rng.below(70) } else { rng.below(100) };
        if sel < 45 {
            rng.pick(&own).clone()
        } else if sel < 70 {
            Url::parse(rng.pick(LOOPBACKS)).expect("loopback url")
        } else if sel < 90 {
            let b = rng.pick(&own).clone();
            mutate_uri(rng, &b).unwrap_or(b)
        } else {
            // a URI registered for some OTHER client
            let o = rng.pick(&w.clients);
            o.landing.clone()
        }
    };
    // scopes
    let scope: BTreeSet<String> = {
        let mut s = BTreeSet::new();
        let avail: Vec<String> = match (client, person) {
            (Some(k), Some(p)) => w.clients[k]
                .maps
                .iter()
                .filter(|(g, _)| *g == UUID_IDM_ALL_ACCOUNTS || w.membership[&w.persons[p]].contains(g))
                .flat_map(|(_, m)| m.iter().cloned())
                .collect(),
            (Some(k), None) => w.clients[k].maps.iter().flat_map(|(_, m)| m.iter().cloned()).collect(),
            _ => vec![],
        };
        if !avail.is_empty() && rng.chance(if good { 9 } else { 5 }, 10) {
            for _ in 0..rng.range(1, 3) {
                s.insert(rng.pick(&avail).clone());
            }
        } else if rng.chance(9, 10) {
            s = rand_scope_set(rng, 1, 3);
        }
        if !good && rng.chance(1, 6) {
            s.insert(rng.pick(BAD_SCOPES).to_string());
        }
        s
    };
    let via_json = rng.chance(1, 4);
    let pk = {
        let needs = client.map(|k| w.clients[k].public || w.clients[k].disable_pkce != Some(true)).unwrap_or(true);
        let x = rng.below(20);
        if via_json && x < 2 {
            PkIn::Other
        } else if via_json && x < 4 {
            PkIn::NoMethod
        } else if (good && needs) || x < 12 {
            if !good && x < 7 { PkIn::Absent } else { PkIn::S256 }
        } else {
            PkIn::Absent
        }
    };
    let prompt = match rng.below(if good { 14 } else { 24 }) {
        0 => vec![Prompt::None],
        1 => vec![Prompt::Login],
        2 => vec![Prompt::Consent],
        3 => vec![Prompt::SelectAccount, Prompt::Consent],
        14 => vec![Prompt::None, Prompt::Login],
        15 => vec![Prompt::Invalid("frobnicate".into())],
        16 => vec![Prompt::Login, Prompt::Consent, Prompt::SelectAccount, Prompt::Login, Prompt::Consent],
        17 => vec![Prompt::Login, Prompt::Consent, Prompt::SelectAccount, Prompt::Login],
        _ => vec![],
    };
    let max_age = if rng.chance(1, 5) {
        Some(*rng.pick(&[-5i64, 0, 1, 59, 60, 61, 3600, 86399, 86400, 86401, 1_000_000_000, i64::MAX, i64::MIN]))
    } else {
        None
    };
    let (rtype, rmode) = if good || rng.chance(4, 5) {
        (ResponseType::Code, match rng.below(12) { 0 => Some(ResponseMode::Query), 1 => Some(ResponseMode::Fragment), 2 => Some(ResponseMode::FormPost), 3 if !good => Some(ResponseMode::Invalid), _ => None })
    } else {
        (*rng.pick(&[ResponseType::Token, ResponseType::IdToken]), *rng.pick(&[None, Some(ResponseMode::Query), Some(ResponseMode::Fragment)]))
    };
    let state = if rng.chance(2, 3) { Some(format!("st{}", rng.below(5))) } else { None };
    (
        ReqSpec { client, client_id, rtype, rmode, pk, challenge: rng.bytes(32), via_json, redirect, scope, prompt, max_age, resumed: rng.chance(1, 6), state },
        person,
    )
}

fn err_name(e: &Oauth2Error) -> &'static str {
    match e {
        Oauth2Error::UnsupportedResponseType => "EUnsupportedResponseType",
        Oauth2Error::InvalidRequest => "EInvalidRequest",
        Oauth2Error::InvalidClientId => "EInvalidClientId",
        Oauth2Error::InvalidOrigin => "EInvalidOrigin",
        Oauth2Error::LoginRequired => "ELoginRequired",
        Oauth2Error::InteractionRequired => "EInteractionRequired",
        Oauth2Error::AccessDenied => "EAccessDenied",
        Oauth2Error::InvalidScope => "EInvalidScope",
        _ => "EOther",
    }
}

fn grant_coq(ids: &mut Ids, g: &VerifC38Grant, state: &Option<String>, fragment: bool) -> String {
    let (rid, rfr) = ids.ukey(&g.redirect_uri);
    let scopes = ids.scopes(g.scopes.iter());
    capp(
        "mkgrant",
        &[
            cn(ids.acct.id(&g.account_uuid)),
            cn(ids.sess.id(&g.session_id)),
            cn(g.expiry.wrapping_sub(BASE)),
            copt(&g.code_challenge.as_ref().map(|c| ids.chal.id(c)), |x| cn(*x)),
            format!("({}, {})", cn(rid), copt(&rfr, |x| cn(*x))),
            cids(&scopes),
            copt(&state.as_ref().map(|s| ids.state.id(s)), |x| cn(*x)),
            cbool(fragment),
        ],
    )
}

fn ident_coq(ids: &mut Ids, w: &World, spec: &IdentSpec, client_uuid: Option<Uuid>) -> (String, Identity) {
    let entry = w.entries.get(&spec.acct).expect("entry").clone();
    let ident = ident_user(entry.clone(), spec.session, spec.auth_time);
    let mut groups: Vec<u64> = ident.get_memberof().map(|s| s.iter().map(|g| ids.group.id(g)).collect()).unwrap_or_default();
    groups.sort();
    let consent = client_uuid.and_then(|c| ident.get_oauth2_consent_scopes(c).cloned()).map(|s| ids.scopes(s.iter()));
    let coq = capp(
        "mkident",
        &[
            cn(ids.acct.id(&spec.acct)),
            cn(ids.sess.id(&spec.session)),
            cids(&groups),
            copt(&consent, |s: &Vec<u64>| cids(s)),
            copt(&spec.auth_time.map(|d| d.as_secs() - BASE), |x| cn(*x)),
        ],
    );
    (coq, ident)
}

fn main() {
    let args = parse_args();
    let probe = args.extra.iter().any(|a| a == "--probe");
    let mut rng = Rng::new(args.seed);
    let mut sink = Sink::new(&args, "KV.C38.Model", 400);
    sink.rule = "random worlds (in-memory server, 4 groups, 4 persons + anonymous, 8 random OAuth2 client entries: type, landing/extra URIs incl. app/loopback/fragment URIs, localhost flag, PKCE-disable flag, consent flag, scope maps, supplementary maps); per world random authorisation requests (own / foreign / mutated / loopback redirect URIs, held / unheld / ill-formed scopes, PKCE absent / S256 / plain / method missing (wire form), prompts, max_age, response type+mode, unknown and upper-cased client ids, no identity / anonymous / person with random session + verification time), replays of earlier successful requests after committed consents; every ConsentRequested answer is followed by check_oauth2_authorise_permit (same or different identity/session, before/after token expiry). non-trivial = the answer is a consent request or a code, or a refusal for origin / access / PKCE".into();
    let rt = tokio::runtime::Builder::new_current_thread().enable_all().build().expect("rt");
    let mut ids = Ids::new();
    let (n_worlds, per_world) = if args.thorough { (40, 700) } else { (8, 450) };
    for wid in 0..n_worlds {
        let mut w = build_world(&rt, &mut rng, wid);
        let mut templates: Vec<(ReqSpec, usize)> = vec![];
        for _ in 0..per_world {
            let (rs, person) = gen_request(&mut rng, &w, &templates);
            let ct_s = T0 + rng.below(2000);
            let ct = Duration::new(ct_s, rng.below(1_000_000_000) as u32);
            // identity
            let ispec: Option<IdentSpec> = if rng.chance(1, 12) {
                None
            } else {
                let acct = match person {
                    Some(p) if !rng.chance(1, 12) => w.persons[p],
                    _ => UUID_ANONYMOUS,
                };
                let auth_time = if rng.chance(1, 10) {
                    None
                } else {
                    let back = *rng.pick(&[0u64, 1, 59, 60, 61, 3599, 3600, 3601, 86399, 86400, 86401]);
                    Some(Duration::new(ct_s - back, rng.below(1_000_000_000) as u32))
                };
                Some(IdentSpec { acct, session: Uuid::from_u128(0x5e55_0000u128 + rng.below(6) as u128), auth_time })
            };
            let client_uuid = rs.client.map(|k| w.clients[k].uuid);
            let ident = ispec.as_ref().map(|s| ident_coq(&mut ids, &w, s, client_uuid));
            let areq = rs.build();
            let ctx = if rs.resumed { AuthorisationRequestContext::resumed_session() } else { AuthorisationRequestContext::default() };
            // ---- run the real code
            let mut follow_coq = "None".to_string();
            let mut follow_txt = String::new();
            let mut kind: String;
            let (out_coq, out_txt) = match &areq {
                Err(e) => {
                    kind = "parse_error".into();
                    ("(OErr EOther)".to_string(), format!("request not decodable: {e}"))
                }
                Ok(areq) => {
                    if probe && rs.via_json {
                        eprintln!("wire pk={:?} -> pkce_request={:?}", rs.pk, areq.pkce_request.as_ref().map(|p| p.code_challenge_method));
                    }
                    assert_eq!(areq.pkce_request.is_some(), rs.pk == PkIn::S256, "decoded PKCE request differs from the wire-form rule");
                    let r = rt.block_on(w.idms.proxy_read()).expect("proxy_read");
                    let res = r.check_oauth2_authorisation(ident.as_ref().map(|(_, i)| i), areq, &ctx, ct);
                    match res {
                        Err(e) => {
                            kind = format!("err_{}", &err_name(&e)[1..]);
                            (format!("(OErr {})", err_name(&e)), format!("{:?}", e))
                        }
                        Ok(AuthoriseResponse::AuthenticationRequired { .. }) => {
                            kind = "authentication_required".into();
                            ("OAuthRequired".to_string(), "AuthenticationRequired".to_string())
                        }
                        Ok(AuthoriseResponse::ReauthenticationRequired { .. }) => {
                            kind = "reauthentication_required".into();
                            ("OReauthRequired".to_string(), "ReauthenticationRequired".to_string())
                        }
                        Ok(AuthoriseResponse::Permitted(s)) => {
                            kind = "permitted".into();
                            let cname = rs.client.map(|k| w.clients[k].name.clone()).unwrap_or_default();
                            match r.verif_c38_decode_code(&cname, &s.code) {
                                Some(g) if g.redirect_uri == s.redirect_uri => (
                                    format!("(OPermitted {})", grant_coq(&mut ids, &g, &s.state, s.verif_c38_response_mode_fragment())),
                                    format!("Permitted code{{acct={} scopes={:?} redirect={} challenge={} exp=+{}}}", g.account_uuid.as_u128() & 0xffff, g.scopes, g.redirect_uri, g.code_challenge.is_some(), g.expiry.wrapping_sub(ct_s)),
                                ),
                                other => ("(OErr EOther)".to_string(), format!("Permitted but the code does not open with the addressed client's key or names another URI: {:?}", other)),
                            }
                        }
                        Ok(AuthoriseResponse::ConsentRequested { scopes, pii_scopes, consent_token, .. }) => {
                            kind = "consent_requested".into();
                            match r.verif_c38_decode_consent(&consent_token) {
                                Some(g) if g.scopes == scopes && g.client_id.as_deref() == Some(areq.client_id.as_str()) => {
                                    let pii = ids.scopes(pii_scopes.iter());
                                    let frag = g.response_mode_fragment == Some(true);
                                    let oc = format!("(OConsent {} {})", grant_coq(&mut ids, &g, &g.state, frag), cids(&pii));
                                    let ot = format!("ConsentRequested scopes={:?} pii={:?} token{{acct={} redirect={} challenge={} exp=+{}}}", scopes, pii_scopes, g.account_uuid.as_u128() & 0xffff, g.redirect_uri, g.code_challenge.is_some(), g.expiry.wrapping_sub(ct_s));
                                    drop(r);
                                    // ---- follow-up: present the consent token
                                    if rng.chance(9, 10) {
                                        let base = ispec.clone().expect("consent implies identity");
                                        let pspec = match rng.below(10) {
                                            0 => IdentSpec { session: Uuid::from_u128(0x5e55_0000u128 + 99), ..base.clone() },
                                            1 => IdentSpec { acct: *rng.pick(&w.persons), ..base.clone() },
                                            _ => base.clone(),
                                        };
                                        let delta = *rng.pick(&[0u64, 1, 30, 30, 120, 299, 299, 300, 301, 1000]);
                                        let pct = Duration::new(ct_s + delta, rng.below(1_000_000_000) as u32);
                                        let (pcoq, pident) = ident_coq(&mut ids, &w, &pspec, client_uuid);
                                        let mut wr = rt.block_on(w.idms.proxy_write(pct)).expect("proxy_write");
                                        let pres = wr.check_oauth2_authorise_permit(&pident, &consent_token, pct);
                                        let (res_coq, res_txt, commit) = match pres {
                                            Ok(s) => {
                                                let cname = rs.client.map(|k| w.clients[k].name.clone()).unwrap_or_default();
                                                match wr.verif_c38_decode_code(&cname, &s.code) {
                                                    Some(g2) if g2.redirect_uri == s.redirect_uri => {
                                                        let commit = rng.chance(1, 2);
                                                        (
                                                            format!("(Some {})", grant_coq(&mut ids, &g2, &s.state, s.verif_c38_response_mode_fragment())),
                                                            format!("code{{acct={} scopes={:?} redirect={} exp=+{}}}", g2.account_uuid.as_u128() & 0xffff, g2.scopes, g2.redirect_uri, g2.expiry.wrapping_sub(pct.as_secs())),
                                                            commit,
                                                        )
                                                    }
                                                    // an unopenable code: report a grant no model run can produce
                                                    other => (format!("(Some {})", "(mkgrant 999999 0 0 None (0, None) [] None false)"), format!("code does not open: {:?}", other), false),
                                                }
                                            }
                                            Err(e) => ("None".to_string(), format!("refused {:?}", e), false),
                                        };
                                        let mut stored = "None".to_string();
                                        if commit {
                                            wr.commit().expect("commit permit");
                                            w.refresh(&rt);
                                            let e = w.entries.get(&pspec.acct).expect("entry");
                                            let s = e.get_ava_as_oauthscopemaps(Attribute::OAuth2ConsentScopeMap).and_then(|m| client_uuid.and_then(|c| m.get(&c))).cloned();
                                            stored = copt(&s.map(|s| ids.scopes(s.iter())), |s: &Vec<u64>| cids(s));
                                            sink.bump("permit_committed");
                                            if let Some(p) = w.persons.iter().position(|p| *p == pspec.acct) {
                                                if templates.len() < 40 {
                                                    templates.push((rs.clone(), p));
                                                }
                                            }
                                        } else {
                                            drop(wr);
                                        }
                                        sink.bump(if res_coq == "None" { "permit_refused" } else { "permit_code" });
                                        follow_coq = format!("(Some (mkfollow {} {} {} {} {}))", pcoq, cn(pct.as_secs() - BASE), cbool(commit), res_coq, stored);
                                        follow_txt = format!(" | permit as acct={} sess={} at +{}s commit={} -> {}", pspec.acct.as_u128() & 0xffff, pspec.session.as_u128() & 0xff, delta, commit, res_txt);
                                    }
                                    (oc, ot)
                                }
                                other => ("(OErr EOther)".to_string(), format!("ConsentRequested but the token does not open or differs from the answer: {:?}", other)),
                            }
                        }
                    }
                }
            };
            // ---- the case
            // the scope set the server actually received (the wire form splits at spaces)
            let recv_scope: BTreeSet<String> = match &areq {
                Ok(a) => a.scope.clone(),
                Err(_) => rs.scope.clone(),
            };
            let q_scope = ids.scopes(recv_scope.iter());
            let bad: Vec<u64> = {
                let mut v: Vec<u64> = recv_scope.iter().filter(|s| !scope_ok(s)).map(|s| ids.scope.id(s)).collect();
                v.sort();
                v
            };
            let pk_coq = match rs.pk {
                PkIn::Absent => "KAbsent".to_string(),
                PkIn::S256 => capp("KS256", &[cn(ids.chal.id(&rs.challenge))]),
                PkIn::Other => capp("KOther", &[cn(ids.chal.id(&rs.challenge))]),
                PkIn::NoMethod => capp("KNoMethod", &[cn(ids.chal.id(&rs.challenge))]),
            };
            let req_coq = capp(
                "mkreq",
                &[
                    match rs.rtype { ResponseType::Code => "RCode", ResponseType::Token => "RToken", ResponseType::IdToken => "RIdToken" }.to_string(),
                    copt(&rs.rmode, |m| match m { ResponseMode::Query => "MQuery", ResponseMode::Fragment => "MFragment", ResponseMode::FormPost => "MFormPost", ResponseMode::Invalid => "MInvalid" }.to_string()),
                    pk_coq,
                    ids.uri(&rs.redirect),
                    cids(&q_scope),
                    cids(&bad),
                    clist(&rs.prompt, |p| match p { Prompt::None => "PNone", Prompt::Login => "PLogin", Prompt::Consent => "PConsent", Prompt::SelectAccount => "PSelect", Prompt::Invalid(_) => "PInvalid" }.to_string()),
                    copt(&rs.max_age, |m| cz(*m)),
                    cbool(rs.resumed),
                    copt(&rs.state.as_ref().map(|s| ids.state.id(s)), |x| cn(*x)),
                ],
            );
            let ce_coq = match rs.client { Some(k) => format!("(Some {})", w.clients[k].coq(&mut ids)), None => "None".to_string() };
            let id_coq = match &ident { Some((c, _)) => format!("(Some {})", c), None => "None".to_string() };
            let coq = capp("CAuth", &[ce_coq, id_coq, req_coq, cn(ct_s - BASE), out_coq, follow_coq]);
            let nontrivial = matches!(kind.as_str(), "permitted" | "consent_requested" | "err_InvalidOrigin" | "err_AccessDenied")
                || (kind == "err_InvalidRequest" && rs.pk != PkIn::S256 && rs.prompt.is_empty() && !recv_scope.is_empty() && rs.rmode != Some(ResponseMode::Invalid));
            if kind == "permitted" {
                if let Some(p) = person {
                    if templates.len() < 40 && rng.chance(1, 4) {
                        templates.push((rs.clone(), p));
                    }
                }
            }
            sink.bump(&kind);
            if areq.is_err() {
                // the request never reaches check_oauth2_authorisation
                if probe {
                    eprintln!("undecodable wire request pk={:?} prompt={:?}: {}", rs.pk, rs.prompt, out_txt);
                }
                continue;
            }
            let txt = format!(
                "{kind} client_id={} cfg={} ident={} redirect={} scope={:?} pkce={:?}{} prompt=[{}] max_age={:?} resumed={} rtype={:?} rmode={:?} ct=+{}s -> {}{}",
                rs.client_id,
                rs.client.map(|k| w.clients[k].txt()).unwrap_or_else(|| "-".into()),
                match &ispec { None => "none".to_string(), Some(s) => format!("acct={} sess={} verified={:?} groups={:?}", s.acct.as_u128() & 0xffff, s.session.as_u128() & 0xff, s.auth_time.map(|d| d.as_secs() as i64 - ct_s as i64), w.membership.get(&s.acct).map(|m| m.iter().map(|g| g.as_u128() & 0xffff).collect::<Vec<_>>())) },
                rs.redirect,
                recv_scope,
                rs.pk,
                if rs.via_json { "(wire)" } else { "" },
                rs.prompt.iter().map(prompt_str).collect::<Vec<_>>().join(" "),
                rs.max_age,
                rs.resumed,
                rs.rtype,
                rs.rmode,
                ct_s - T0,
                out_txt,
                follow_txt,
            );
            sink.case(coq, txt, nontrivial);
        }
    }
    sink.finish();
}
