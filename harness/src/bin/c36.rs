//! C36 — removing a credential revokes its sessions; orphaned OAuth2 sessions stop being usable.
//!
//! One case = one random history of write transactions on ONE account (a person or a service
//! account) of a REAL in-memory IdmServer.  Every step is one `internal_modify_uuid` at a
//! harness-chosen time whose modify list adds / replaces / removes credentials of every class
//! `SessionConsistency::modify_inner` reads (primary credential, passkeys, attested passkeys,
//! OAuth2 trust credential uuid), adds login sessions bound to any of those credentials,
//! revokes sessions, adds / extends / revokes OAuth2 sessions (with a live, revoked, missing,
//! API-token or no parent), adds / removes API tokens, or just touches the description; some
//! steps are REAL password logins through the auth state machine whose queued AuthSessionRecord
//! is written by `process_delayedaction` (the recorded cred_id is compared with the model's
//! primary credential).
//! After every step the harness reads the real entry back (credential ids, every login session
//! and OAuth2 session with its state; a `RevokedAt(cid)` is printed as the index of the step whose
//! transaction had that change id) and presents OAuth2 token coordinates
//! (session id, parent id, iat) to the REAL `IdmServerTransaction::check_oauth2_account_uuid_valid`
//! at the current time and at grace-window boundary times.
//! The Coq model (KV.C36.Model) replays the steps and predicts every read-back and every answer
//! (`agree`); the property predicate is evaluated on the read-backs and answers (`pcheck`).
use kanidm_proto::v1::{AuthCredential, AuthIssueSession, AuthMech, AuthStep};
use kanidmd_lib::entry::{Entry, EntryInit, EntryNew};
use kanidmd_lib::idm::authentication::AuthState;
use kanidmd_lib::idm::delayed::{AuthSessionRecord, DelayedAction};
use kanidmd_lib::idm::event::AuthEvent;
use kanidmd_lib::idm::server::IdmServerTransaction;
use kanidmd_lib::prelude::*;
use kanidmd_lib::testkit::{setup_idm_test, TestConfiguration};
use kanidmd_lib::value::{ApiToken, ApiTokenScope, AuthType, Oauth2Session, Session, SessionScope, SessionState};
use kanidmd_lib::verif_hooks::c36 as hook;
use kvh::*;
use std::collections::BTreeSet;

const G: u64 = 1_000_000_000;
/// all printed times are relative to this instant (2030-03-17)
const BASE: u64 = 1_900_000_000 * G;
const T0: u64 = BASE + 86_400 * G;
const GRACE: u64 = 300 * G;
const NOIDX: u64 = 9999;

fn d(ns: u64) -> Duration {
    Duration::from_nanos(ns)
}
// `time::OffsetDateTime` is not a dependency of this crate: values are made through kanidm's
// own `From<&Cid> for OffsetDateTime` (UNIX_EPOCH + ts) and read by method call.
macro_rules! odt {
    ($ns:expr) => {
        (&Cid { ts: Duration::from_nanos($ns), s_uuid: Uuid::from_u128(0) }).into()
    };
}
macro_rules! unodt {
    ($t:expr) => {
        ($t).unix_timestamp_nanos() as u64
    };
}
fn rel(t: u64) -> String {
    assert!(t >= BASE, "time below BASE");
    cn(t - BASE)
}

#[derive(Clone, Debug)]
enum St {
    Expires(u64),
    Never,
}

#[derive(Clone, Debug)]
enum Md {
    SetPrimary(usize),
    PurgePrimary,
    AddPasskey(usize),
    DelPasskey(usize),
    AddAttested(usize),
    DelAttested(usize),
    SetO2Cred(usize),
    DropO2Account,
    AddUat { sid: usize, cred: Uuid, st: St, issued: u64 },
    RevokeUat(usize),
    PurgeUats,
    AddO2 { oid: usize, parent: Option<usize>, st: St, issued: u64, rs: usize },
    RevokeO2(usize),
    RevokeRs(usize),
    PurgeO2s,
    AddApi(usize),
    DelApi(usize),
    Touch,
}

struct Pools {
    primary: Vec<kanidmd_lib::credential::Credential>,
    primary_pw: Vec<String>,
    passkey: Vec<Uuid>,
    attested: Vec<Uuid>,
    o2cred: Vec<Uuid>,
    foreign_cred: Uuid,
    /// ids usable as login session id, API token id or OAuth2 parent reference
    sid: Vec<Uuid>,
    oid: Vec<Uuid>,
    rs: Vec<Uuid>,
}

fn create_rs(rt: &tokio::runtime::Runtime, idms: &IdmServer, rs: &[Uuid]) {
    let mut w = rt.block_on(idms.proxy_write(d(T0))).expect("proxy_write");
    for (i, u) in rs.iter().enumerate() {
        let name = format!("c36rs{}", i);
        let e: Entry<EntryInit, EntryNew> = kanidmd_lib::entry_init!(
            (Attribute::Class, EntryClass::Object.to_value()),
            (Attribute::Class, EntryClass::Account.to_value()),
            (Attribute::Class, EntryClass::OAuth2ResourceServer.to_value()),
            (Attribute::Class, EntryClass::OAuth2ResourceServerBasic.to_value()),
            (Attribute::Uuid, Value::Uuid(*u)),
            (Attribute::Name, Value::new_iname(&name)),
            (Attribute::DisplayName, Value::new_utf8s(&name)),
            (Attribute::OAuth2RsOriginLanding, Value::new_url_s("https://demo.example.com").expect("url")),
            (
                Attribute::OAuth2RsScopeMap,
                Value::new_oauthscopemap(UUID_IDM_ALL_ACCOUNTS, BTreeSet::from(["openid".to_string()])).expect("scopemap")
            )
        );
        w.qs_write.internal_create(vec![e]).expect("create rs");
    }
    w.commit().expect("commit");
}

fn st_value(st: &St) -> SessionState {
    match st {
        St::Expires(e) => SessionState::ExpiresAt(odt!(*e)),
        St::Never => SessionState::NeverExpires,
    }
}
fn st_coq(st: &St) -> String {
    match st {
        St::Expires(e) => capp("SExpires", &[rel(*e)]),
        St::Never => "SNever".to_string(),
    }
}

struct World<'a> {
    rt: &'a tokio::runtime::Runtime,
    idms: &'a IdmServer,
    pools: Pools,
    acct: Uuid,
    ids: Intern<Uuid>,
    /// change ids of the step transactions, in order
    cids: Vec<Cid>,
}

impl<'a> World<'a> {
    fn id(&mut self, u: &Uuid) -> u64 {
        self.ids.id(u)
    }
    fn oid(&mut self, o: &Option<Uuid>) -> String {
        let x = o.map(|u| self.ids.id(&u));
        copt(&x, |v| cn(*v))
    }
    fn cidx(&self, c: &Cid) -> u64 {
        self.cids.iter().position(|x| x == c).map(|i| i as u64).unwrap_or(NOIDX)
    }
    fn state_coq(&self, s: &SessionState) -> (String, bool) {
        match s {
            SessionState::RevokedAt(c) => (capp("SRevoked", &[cn(self.cidx(c))]), false),
            SessionState::ExpiresAt(e) => (capp("SExpires", &[rel(unodt!(e))]), true),
            SessionState::NeverExpires => ("SNever".to_string(), true),
        }
    }

    fn mods_of(&mut self, m: &Md, out: &mut Vec<Modify>) -> String {
        match m {
            Md::SetPrimary(i) => {
                let c = self.pools.primary[*i].clone();
                let cu = hook::cred_uuid(&c);
                out.push(Modify::Purged(Attribute::PrimaryCredential));
                out.push(Modify::Present(Attribute::PrimaryCredential, Value::new_credential("primary", c)));
                capp("MSetPrimary", &[cn(self.id(&cu))])
            }
            Md::PurgePrimary => {
                out.push(Modify::Purged(Attribute::PrimaryCredential));
                "MPurgePrimary".into()
            }
            Md::AddPasskey(i) => {
                let u = self.pools.passkey[*i];
                out.push(Modify::Present(Attribute::PassKeys, hook::passkey_value(u, *i as u8)));
                capp("MAddPasskey", &[cn(self.id(&u))])
            }
            Md::DelPasskey(i) => {
                let u = self.pools.passkey[*i];
                out.push(Modify::Removed(Attribute::PassKeys, PartialValue::Passkey(u)));
                capp("MDelPasskey", &[cn(self.id(&u))])
            }
            Md::AddAttested(i) => {
                let u = self.pools.attested[*i];
                out.push(Modify::Present(Attribute::AttestedPasskeys, hook::attested_passkey_value(u, 100 + *i as u8).expect("attested fixture")));
                capp("MAddAttested", &[cn(self.id(&u))])
            }
            Md::DelAttested(i) => {
                let u = self.pools.attested[*i];
                out.push(Modify::Removed(Attribute::AttestedPasskeys, PartialValue::AttestedPasskey(u)));
                capp("MDelAttested", &[cn(self.id(&u))])
            }
            Md::SetO2Cred(i) => {
                let u = self.pools.o2cred[*i];
                out.push(Modify::Present(Attribute::Class, EntryClass::OAuth2Account.to_value()));
                out.push(Modify::Purged(Attribute::OAuth2AccountProvider));
                out.push(Modify::Present(Attribute::OAuth2AccountProvider, Value::Refer(self.pools.rs[0])));
                out.push(Modify::Purged(Attribute::OAuth2AccountUniqueUserId));
                out.push(Modify::Present(Attribute::OAuth2AccountUniqueUserId, Value::new_utf8s("c36-remote-user")));
                out.push(Modify::Purged(Attribute::OAuth2AccountUniqueUserSub));
                out.push(Modify::Present(Attribute::OAuth2AccountUniqueUserSub, Value::new_utf8s("c36-remote-sub")));
                out.push(Modify::Purged(Attribute::OAuth2AccountCredentialUuid));
                out.push(Modify::Present(Attribute::OAuth2AccountCredentialUuid, Value::Uuid(u)));
                capp("MSetO2Cred", &[cn(self.id(&u))])
            }
            Md::DropO2Account => {
                out.push(Modify::Removed(Attribute::Class, EntryClass::OAuth2Account.to_partialvalue()));
                out.push(Modify::Purged(Attribute::OAuth2AccountProvider));
                out.push(Modify::Purged(Attribute::OAuth2AccountUniqueUserId));
                out.push(Modify::Purged(Attribute::OAuth2AccountUniqueUserSub));
                out.push(Modify::Purged(Attribute::OAuth2AccountCredentialUuid));
                "MDropO2Cred".into()
            }
            Md::AddUat { sid, cred, st, issued } => {
                let s = self.pools.sid[*sid];
                out.push(Modify::Present(
                    Attribute::UserAuthTokenSession,
                    Value::Session(
                        s,
                        Session {
                            label: "c36".to_string(),
                            state: st_value(st),
                            issued_at: odt!(*issued),
                            issued_by: IdentityId::User(self.acct),
                            cred_id: *cred,
                            scope: SessionScope::ReadWrite,
                            type_: AuthType::Passkey,
                            ext_metadata: Default::default(),
                        },
                    ),
                ));
                capp("MAddUat", &[cn(self.id(&s)), cn(self.id(cred)), st_coq(st), rel(*issued)])
            }
            Md::RevokeUat(sid) => {
                let s = self.pools.sid[*sid];
                out.push(Modify::Removed(Attribute::UserAuthTokenSession, PartialValue::Refer(s)));
                capp("MRevokeUat", &[cn(self.id(&s))])
            }
            Md::PurgeUats => {
                out.push(Modify::Purged(Attribute::UserAuthTokenSession));
                "MPurgeUats".into()
            }
            Md::AddO2 { oid, parent, st, issued, rs } => {
                let o = self.pools.oid[*oid];
                let p = parent.map(|p| self.pools.sid[p]);
                let r = self.pools.rs[*rs];
                out.push(Modify::Present(
                    Attribute::OAuth2Session,
                    Value::Oauth2Session(o, Oauth2Session { parent: p, state: st_value(st), issued_at: odt!(*issued), rs_uuid: r }),
                ));
                let pc = self.oid(&p);
                capp("MAddO2", &[cn(self.id(&o)), pc, st_coq(st), rel(*issued), cn(self.id(&r))])
            }
            Md::RevokeO2(oid) => {
                let o = self.pools.oid[*oid];
                out.push(Modify::Removed(Attribute::OAuth2Session, PartialValue::Refer(o)));
                capp("MRevokeO2", &[cn(self.id(&o))])
            }
            Md::RevokeRs(rs) => {
                let r = self.pools.rs[*rs];
                out.push(Modify::Removed(Attribute::OAuth2Session, PartialValue::Refer(r)));
                capp("MRevokeRs", &[cn(self.id(&r))])
            }
            Md::PurgeO2s => {
                out.push(Modify::Purged(Attribute::OAuth2Session));
                "MPurgeO2s".into()
            }
            Md::AddApi(sid) => {
                let s = self.pools.sid[*sid];
                out.push(Modify::Present(
                    Attribute::ApiTokenSession,
                    Value::ApiToken(
                        s,
                        ApiToken {
                            label: format!("api{}", sid),
                            expiry: None,
                            issued_at: odt!(T0),
                            issued_by: IdentityId::User(self.acct),
                            scope: ApiTokenScope::ReadOnly,
                        },
                    ),
                ));
                capp("MAddApi", &[cn(self.id(&s))])
            }
            Md::DelApi(sid) => {
                let s = self.pools.sid[*sid];
                out.push(Modify::Removed(Attribute::ApiTokenSession, PartialValue::Refer(s)));
                capp("MDelApi", &[cn(self.id(&s))])
            }
            Md::Touch => {
                out.push(Modify::Purged(Attribute::Description));
                out.push(Modify::Present(Attribute::Description, Value::new_utf8s("touched")));
                "MTouch".into()
            }
        }
    }
}

/// what the harness learnt from a read-back (only used to pick interesting next inputs and to
/// classify the case; never printed as a prediction)
#[derive(Default, Clone)]
struct Seen {
    primary: Option<Uuid>,
    creds: BTreeSet<Uuid>,
    live_uats: Vec<(usize, Uuid)>,
    uats: Vec<(usize, bool)>,
    o2s: Vec<(usize, Option<Uuid>, u64, bool)>,
}

struct Dump {
    coq: String,
    txt: String,
    seen: Seen,
}

fn dump(w: &mut World) -> Dump {
    let mut r = w.rt.block_on(w.idms.proxy_read()).expect("proxy_read");
    let e = r.qs_read.internal_search_uuid(w.acct).expect("account");
    let mut seen = Seen::default();
    let primary = e.get_ava_single_credential(Attribute::PrimaryCredential).map(hook::cred_uuid);
    let mut passkeys: Vec<Uuid> = e.get_ava_passkeys(Attribute::PassKeys).map(|m| m.keys().copied().collect()).unwrap_or_default();
    let mut attested: Vec<Uuid> = e.get_ava_attestedpasskeys(Attribute::AttestedPasskeys).map(|m| m.keys().copied().collect()).unwrap_or_default();
    let o2cred = e.get_ava_single_uuid(Attribute::OAuth2AccountCredentialUuid);
    seen.primary = primary;
    seen.creds.extend(primary.iter().chain(passkeys.iter()).chain(attested.iter()).chain(o2cred.iter()).copied());
    let mut pk: Vec<u64> = passkeys.drain(..).map(|u| w.id(&u)).collect();
    pk.sort();
    let mut apk: Vec<u64> = attested.drain(..).map(|u| w.id(&u)).collect();
    apk.sort();
    let mut uats: Vec<(u64, String)> = vec![];
    if let Some(m) = e.get_ava_as_session_map(Attribute::UserAuthTokenSession) {
        for (sid, s) in m.iter() {
            let (sc, live) = w.state_coq(&s.state);
            let i = w.id(sid);
            let c = w.id(&s.cred_id);
            uats.push((i, format!("({}, mkuat {} {} {})", cn(i), cn(c), sc, rel(unodt!(s.issued_at)))));
            if let Some(pi) = w.pools.sid.iter().position(|x| x == sid) {
                seen.uats.push((pi, live));
                if live {
                    seen.live_uats.push((pi, s.cred_id));
                }
            }
        }
    }
    uats.sort();
    let mut o2s: Vec<(u64, String)> = vec![];
    if let Some(m) = e.get_ava_as_oauth2session_map(Attribute::OAuth2Session) {
        for (oid, s) in m.iter() {
            let (sc, live) = w.state_coq(&s.state);
            let i = w.id(oid);
            let p = w.oid(&s.parent);
            let r = w.id(&s.rs_uuid);
            o2s.push((i, format!("({}, mko2 {} {} {} {})", cn(i), p, sc, rel(unodt!(s.issued_at)), cn(r))));
            if let Some(pi) = w.pools.oid.iter().position(|x| x == oid) {
                seen.o2s.push((pi, s.parent, unodt!(s.issued_at), live));
            }
        }
    }
    o2s.sort();
    // pool order, not uuid order (real login session ids are random)
    seen.uats.sort();
    seen.live_uats.sort_by_key(|x| x.0);
    seen.o2s.sort_by_key(|x| x.0);
    let mut apis: Vec<u64> = e.get_ava_as_apitoken_map(Attribute::ApiTokenSession).map(|m| m.keys().copied().collect::<Vec<_>>()).unwrap_or_default().iter().map(|u| w.id(u)).collect();
    apis.sort();
    let prim = w.oid(&primary);
    let o2c = w.oid(&o2cred);
    let coq = capp(
        "mkacct",
        &[
            prim.clone(),
            clist(&pk, |x| cn(*x)),
            clist(&apk, |x| cn(*x)),
            o2c.clone(),
            clist(&uats, |x| x.1.clone()),
            clist(&o2s, |x| x.1.clone()),
            clist(&apis, |x| cn(*x)),
        ],
    );
    let txt = format!(
        "creds[p={} pk={:?} apk={:?} o2={}] uats{} o2s{} apis{:?}",
        prim,
        pk,
        apk,
        o2c,
        clist(&uats, |x| x.1.clone()),
        clist(&o2s, |x| x.1.clone()),
        apis
    );
    Dump { coq, txt, seen }
}

fn pick_state(rng: &mut Rng, t: u64) -> St {
    match rng.below(8) {
        0 | 1 => St::Never,
        2 => St::Expires(t.saturating_sub(G).max(BASE)),
        3 => St::Expires(t),
        4 => St::Expires(t + 1),
        5 => St::Expires(t + 120 * G),
        _ => St::Expires(t + 3600 * G),
    }
}
fn pick_issued(rng: &mut Rng, t: u64) -> u64 {
    let tsec = (t / G) * G;
    let back = *rng.pick(&[0u64, 0, 1, 100, 299, 300, 301, 900]);
    (tsec - back * G).max(BASE)
}

fn drain(delayed: &mut IdmServerDelayed) -> Vec<DelayedAction> {
    use std::future::Future;
    use std::task::{Context, Poll, Waker};
    let mut all = vec![];
    loop {
        let mut buf: Vec<DelayedAction> = Vec::with_capacity(16);
        let n = {
            let mut fut = std::pin::pin!(delayed.recv_many(&mut buf));
            let mut cx = Context::from_waker(Waker::noop());
            match fut.as_mut().poll(&mut cx) {
                Poll::Ready(n) => n,
                Poll::Pending => 0,
            }
        };
        if n == 0 {
            break;
        }
        all.append(&mut buf);
    }
    all
}

/// a REAL password login through the auth state machine at time t; the queued session record
fn login(rt: &tokio::runtime::Runtime, idms: &IdmServer, delayed: &mut IdmServerDelayed, name: &str, pw: &str, t: u64) -> Option<AuthSessionRecord> {
    let cai = || ClientAuthInfo::new(Source::Internal, None, None, None);
    let _ = drain(delayed);
    let mut a = rt.block_on(idms.auth()).expect("auth txn");
    let ev = AuthEvent::from_message(None, AuthStep::Init2 { username: name.to_string(), issue: AuthIssueSession::Token, privileged: false }.into()).ok()?;
    let sess = match rt.block_on(a.auth(&ev, d(t), cai())) {
        Ok(r) => match r.state {
            AuthState::Choose(_) => r.sessionid,
            _ => return None,
        },
        Err(_) => return None,
    };
    let ev = AuthEvent::from_message(Some(sess), AuthStep::Begin(AuthMech::Password).into()).ok()?;
    match rt.block_on(a.auth(&ev, d(t), cai())) {
        Ok(r) if matches!(r.state, AuthState::Continue(_)) => {}
        _ => return None,
    }
    let ev = AuthEvent::from_message(Some(sess), AuthStep::Cred(AuthCredential::Password(pw.to_string())).into()).ok()?;
    match rt.block_on(a.auth(&ev, d(t), cai())) {
        Ok(r) if matches!(r.state, AuthState::Success(_, _)) => {}
        _ => return None,
    }
    a.commit().expect("auth commit");
    let mut out = None;
    for da in drain(delayed) {
        if let DelayedAction::AuthSessionRecord(r) = da {
            out = Some(r);
        }
    }
    out
}

fn history(rt: &tokio::runtime::Runtime, idms: &IdmServer, delayed: &mut IdmServerDelayed, rs: &[Uuid], rng: &mut Rng, thorough: bool, sink: &mut Sink, hid: usize) {
    let service = rng.chance(1, 4);
    let base_u = 0xc36c_36c3_0000_0000_0000_0000_0000_0000u128 + ((hid as u128) << 32);
    let acct = Uuid::from_u128(base_u);
    let pools = Pools {
        primary: (0..3).map(|i| hook::cred_new_password(&format!("c36-password-{}-{}", hid, i))).collect(),
        primary_pw: (0..3).map(|i| format!("c36-password-{}-{}", hid, i)).collect(),
        passkey: (0..3).map(|i| Uuid::from_u128(base_u + 0x100 + i)).collect(),
        attested: (0..2).map(|i| Uuid::from_u128(base_u + 0x200 + i)).collect(),
        o2cred: (0..2).map(|i| Uuid::from_u128(base_u + 0x300 + i)).collect(),
        foreign_cred: Uuid::from_u128(base_u + 0x3ff),
        sid: (0..8).map(|i| Uuid::from_u128(base_u + 0x400 + i)).collect(),
        oid: (0..5).map(|i| Uuid::from_u128(base_u + 0x500 + i)).collect(),
        rs: rs.to_vec(),
    };
    let mut w = World { rt, idms, pools, acct, ids: Intern::new(), cids: vec![] };
    // fixed interning order for the ids that are not random
    for u in w.pools.rs.clone() {
        w.id(&u);
    }
    let name = format!("c36acct{}", hid);
    let mut e: Entry<EntryInit, EntryNew> = kanidmd_lib::entry_init!(
        (Attribute::Class, EntryClass::Object.to_value()),
        (Attribute::Class, EntryClass::Account.to_value()),
        (Attribute::Name, Value::new_iname(&name)),
        (Attribute::Uuid, Value::Uuid(acct)),
        (Attribute::Description, Value::new_utf8s(&name)),
        (Attribute::DisplayName, Value::new_utf8s(&name))
    );
    e.add_ava(Attribute::Class, if service { EntryClass::ServiceAccount.to_value() } else { EntryClass::Person.to_value() });
    let mut t = T0 + (hid as u64) * G;
    {
        let mut wr = rt.block_on(idms.proxy_write(d(t))).expect("proxy_write");
        wr.qs_write.internal_create(vec![e]).expect("create account");
        wr.commit().expect("commit");
    }
    let n_steps = if thorough { rng.range(8, 22) } else { rng.range(6, 14) };
    let advances: Vec<i64> = vec![0, 1, 1, 5, 60, 120, 299, 300, 301, 400, 900, -7];
    let mut seen = Seen::default();
    let mut steps_coq = vec![];
    let mut txt = format!("hist {} {}:", hid, if service { "svc" } else { "person" });
    // classification
    let mut n_cred_revoked = 0u64; // live sessions that lost their credential in a step
    let mut n_orphan_rejected = 0u64;
    let mut n_accept = 0u64;
    let mut has_o2acct = false;
    for k in 0..n_steps {
        let adv = *rng.pick(&advances);
        t = if adv < 0 { t.saturating_sub((-adv) as u64 * G).max(T0) } else { t + adv as u64 * G };
        if rng.chance(1, 6) {
            t += *rng.pick(&[1u64, G - 1]);
        }
        // ---- sometimes: a REAL password login, recorded in this step's transaction
        let mut login_rec: Option<AuthSessionRecord> = None;
        if !service && k > 0 && rng.chance(1, 5) {
            if let Some(pu) = seen.primary {
                if let Some(pi) = w.pools.primary.iter().position(|c| hook::cred_uuid(c) == pu) {
                    let pw = w.pools.primary_pw[pi].clone();
                    login_rec = login(rt, idms, delayed, &name, &pw, t);
                    sink.bump(if login_rec.is_some() { "real_login_ok" } else { "real_login_failed" });
                }
            }
        }
        let mut mds: Vec<Md> = vec![];
        if login_rec.is_none() {
        let n_mods = if k == 0 { 4 } else { rng.range(1, 3) };
        for j in 0..n_mods {
            let all_creds: Vec<Uuid> = {
                let mut v: Vec<Uuid> = w.pools.primary.iter().map(hook::cred_uuid).collect();
                if !service {
                    v.extend(w.pools.passkey.iter().copied());
                    v.extend(w.pools.attested.iter().copied());
                    v.extend(w.pools.o2cred.iter().copied());
                }
                v
            };
            let sess_cred = |rng: &mut Rng, seen: &Seen| -> Uuid {
                // mostly a credential that is on the account right now
                // (ordered by interned id: credential uuids are random, the case text must not depend on them)
                let mut on: Vec<Uuid> = seen.creds.iter().copied().collect();
                on.sort_by_key(|u| w.ids.get(u).unwrap_or(u64::MAX));
                if !on.is_empty() && rng.chance(3, 4) {
                    *rng.pick(&on)
                } else if rng.chance(1, 6) {
                    w.pools.foreign_cred
                } else {
                    *rng.pick(&all_creds)
                }
            };
            let md = if k == 0 && j == 0 {
                Md::SetPrimary(0)
            } else if k == 0 && j == 1 && !service {
                Md::AddPasskey(0)
            } else if k == 0 && j == 2 {
                Md::AddUat { sid: 0, cred: hook::cred_uuid(&w.pools.primary[0]), st: pick_state(rng, t + 600 * G), issued: pick_issued(rng, t) }
            } else if k == 0 && j == 3 {
                let cred = if service { hook::cred_uuid(&w.pools.primary[0]) } else { w.pools.passkey[0] };
                Md::AddUat { sid: 1, cred, st: St::Never, issued: pick_issued(rng, t) }
            } else if k == 1 && j == 0 {
                Md::AddO2 { oid: 0, parent: Some(rng.below(2) as usize), st: pick_state(rng, t + 600 * G), issued: pick_issued(rng, t), rs: 0 }
            } else {
                match rng.below(100) {
                    0..=7 => Md::SetPrimary(rng.below(3) as usize),
                    8..=12 => Md::PurgePrimary,
                    13..=18 if !service => Md::AddPasskey(rng.below(3) as usize),
                    19..=24 if !service => Md::DelPasskey(rng.below(3) as usize),
                    25..=28 if !service => Md::AddAttested(rng.below(2) as usize),
                    29..=32 if !service => Md::DelAttested(rng.below(2) as usize),
                    33..=36 if !service => Md::SetO2Cred(rng.below(2) as usize),
                    37..=39 if !service && has_o2acct => Md::DropO2Account,
                    13..=20 if service => Md::AddApi(rng.below(8) as usize),
                    21..=24 if service => Md::DelApi(rng.below(8) as usize),
                    40..=59 => {
                        let cred = sess_cred(rng, &seen);
                        Md::AddUat { sid: rng.below(8) as usize, cred, st: pick_state(rng, t), issued: pick_issued(rng, t) }
                    }
                    60..=64 => Md::RevokeUat(rng.below(8) as usize),
                    65 => Md::PurgeUats,
                    66..=85 => {
                        let parent = match rng.below(10) {
                            0 => None,
                            1 | 2 => Some(rng.below(8) as usize),
                            _ => {
                                if seen.uats.is_empty() {
                                    Some(rng.below(8) as usize)
                                } else {
                                    Some(rng.pick(&seen.uats).0)
                                }
                            }
                        };
                        { let oid = rng.below(5) as usize; Md::AddO2 { oid, parent, st: pick_state(rng, t), issued: pick_issued(rng, t), rs: oid % 2 } }
                    }
                    86..=89 => Md::RevokeO2(rng.below(5) as usize),
                    90 => Md::RevokeRs(rng.below(2) as usize),
                    91 => Md::PurgeO2s,
                    _ => Md::Touch,
                }
            };
            match md {
                Md::SetO2Cred(_) => has_o2acct = true,
                Md::DropO2Account => has_o2acct = false,
                _ => {}
            }
            mds.push(md);
        }
        // a modify list must not add and drop the OAuth2 trust class in a way the schema rejects:
        // keep at most one of SetO2Cred / DropO2Account per step (the last one wins).
        let mut seen_o2 = false;
        let mut keep = vec![];
        for m in mds.into_iter().rev() {
            let is_o2 = matches!(m, Md::SetO2Cred(_) | Md::DropO2Account);
            if is_o2 && seen_o2 {
                continue;
            }
            seen_o2 |= is_o2;
            keep.push(m);
        }
        keep.reverse();
        mds = keep;
        has_o2acct = match mds.iter().rev().find(|m| matches!(m, Md::SetO2Cred(_) | Md::DropO2Account)) {
            Some(Md::SetO2Cred(_)) => true,
            Some(_) => false,
            None => seen.creds.iter().any(|c| w.pools.o2cred.contains(c)),
        };
        }
        let mut mods = vec![];
        let mut mds_coq = vec![];
        for m in &mds {
            mds_coq.push(w.mods_of(m, &mut mods));
        }
        let login_da = login_rec.map(|asr| {
            assert_eq!(asr.target_uuid, acct);
            let st = match asr.expiry {
                Some(e) => St::Expires(unodt!(e)),
                None => St::Never,
            };
            w.pools.sid.push(asr.session_id);
            let (s, c) = (w.id(&asr.session_id), w.id(&asr.cred_id));
            mds_coq.push(capp("MLogin", &[cn(s), cn(c), st_coq(&st), rel(unodt!(asr.issued_at))]));
            DelayedAction::AuthSessionRecord(asr)
        });
        // ---- run it on the real server
        let ok = {
            let mut wr = rt.block_on(idms.proxy_write(d(t))).expect("proxy_write");
            w.cids.push(wr.qs_write.verif_cid());
            let r = match &login_da {
                Some(da) => wr.process_delayedaction(da, d(t)),
                None => wr.qs_write.internal_modify_uuid(acct, &ModifyList::new_list(mods)),
            };
            match r {
                Ok(()) => {
                    wr.commit().expect("commit");
                    true
                }
                Err(err) => {
                    eprintln!("c36: hist {} step {} modify failed: {:?} {:?}", hid, k, err, mds);
                    false
                }
            }
        };
        let before = seen.clone();
        let dmp = dump(&mut w);
        seen = dmp.seen.clone();
        // classification: live sessions whose credential left the account in this step
        for (pi, cred) in &before.live_uats {
            if before.creds.contains(cred) && !seen.creds.contains(cred) && seen.uats.iter().any(|(p, live)| p == pi && !live) {
                n_cred_revoked += 1;
            }
        }
        // ---- present OAuth2 token coordinates
        let mut checks = vec![];
        let mut ctxt = String::new();
        {
            let mut r = rt.block_on(idms.proxy_read()).expect("proxy_read");
            let n_checks = rng.range(4, 8);
            for _ in 0..n_checks {
                let oi = rng.below(5) as usize;
                let stored = seen.o2s.iter().find(|x| x.0 == oi).cloned();
                let o = w.pools.oid[oi];
                let (parent, iat_ns) = match (&stored, rng.below(6)) {
                    (Some((_, p, iss, _)), 0..=3) => (*p, *iss),
                    (Some((_, _, iss, _)), 4) => (Some(*rng.pick(&w.pools.sid)), *iss),
                    (Some((_, p, _, _)), _) => (*p, pick_issued(rng, t)),
                    (None, 0..=2) => (Some(*rng.pick(&w.pools.sid)), pick_issued(rng, t)),
                    (None, _) => (None, pick_issued(rng, t)),
                };
                let iat_s = iat_ns / G;
                let ge = iat_s * G + GRACE;
                let ct = *rng.pick(&[t, t, ge - 1, ge, ge + 1, t + GRACE, t + 2 * GRACE]);
                let res = match r.check_oauth2_account_uuid_valid(acct, o, parent, iat_s as i64, d(ct)) {
                    Ok(Some(_)) => true,
                    Ok(None) => false,
                    Err(e) => panic!("check_oauth2_account_uuid_valid: {:?}", e),
                };
                if res {
                    n_accept += 1;
                } else if ct >= ge && stored.as_ref().map(|s| s.3).unwrap_or(false) {
                    // a live OAuth2 session record, past grace, rejected: the parent decided
                    n_orphan_rejected += 1;
                }
                let oc = w.id(&o);
                let pc = w.oid(&parent);
                checks.push(capp("mkchk", &[cn(oc), pc.clone(), rel(iat_s * G), rel(ct), cbool(res)]));
                ctxt.push_str(&format!(" chk(o{} p={} iat={} ct={})={}", oc, pc, iat_s * G - BASE, ct - BASE, res));
            }
        }
        steps_coq.push(capp("mkstep", &[rel(t), clist_s(&mds_coq), cbool(ok), dmp.coq.clone(), clist_s(&checks)]));
        txt.push_str(&format!(" || #{} t={} {} ok={} => {}{}", k, t - BASE, clist_s(&mds_coq), ok, dmp.txt, ctxt));
        sink.bump("steps");
        sink.add_stat("checks", checks.len() as u64);
    }
    sink.add_stat("live_sessions_revoked_by_credential_removal", n_cred_revoked);
    sink.add_stat("orphan_token_rejections_past_grace", n_orphan_rejected);
    sink.add_stat("token_accepts", n_accept);
    sink.bump(if service { "hist_service_account" } else { "hist_person" });
    let nontrivial = n_cred_revoked > 0 && n_orphan_rejected > 0 && n_accept > 0;
    sink.case(capp("CHist", &[clist_s(&steps_coq)]), txt, nontrivial);
}

fn main() {
    std::env::set_var("RUST_LOG", "off");
    let args = parse_args();
    let mut rng = Rng::new(args.seed);
    let mut sink = Sink::new(&args, "KV.C36.Model", 12);
    sink.rule = "one case = one random history (6-14 write transactions quick / 8-22 thorough) on one fresh account (person 3/4, service account 1/4) of a real in-memory IdmServer; the first transaction sets a primary credential, a passkey and two login sessions bound to them; every transaction is one internal_modify with 1-3 changes drawn from: set/purge primary credential (pool of 3, re-adding an old one is possible), add/remove passkey (3), add/remove attested passkey (2), set/drop OAuth2 trust credential uuid (2), add login session (8 ids; credential mostly one on the account, sometimes another pool credential or a foreign one; state never/expired/expiring now/+1ns/later; issue time 0..900 s back), a REAL password login through the auth state machine (1/5 of the steps of a person with a primary credential; its AuthSessionRecord is written by process_delayedaction as the step), revoke / purge login sessions, add or extend OAuth2 session (5 ids; parent = known login session incl. real ones, any id, API token or none; the resource server is a function of the session id), revoke OAuth2 session by id or by resource server, purge, add/remove API token, touch; times advance by 0..900 s (+-1 ns, sometimes backwards); after every transaction the entry is read back and 4-8 (session, parent, iat, ct) tuples are given to check_oauth2_account_uuid_valid at now, iat+grace-1ns/0/+1ns, now+grace. \
non-trivial = in the history at least one live login session lost its credential in a step AND a token with a live OAuth2 session record was rejected past grace AND some token was accepted".into();
    let rt = tokio::runtime::Builder::new_current_thread().enable_all().build().expect("rt");
    let (idms, mut delayed, _audit) = rt.block_on(setup_idm_test(TestConfiguration::default()));
    let rs: Vec<Uuid> = (0..2).map(|i| Uuid::from_u128(0xc36c_36c3_ffff_0000_0000_0000_0000_0000u128 + i)).collect();
    create_rs(&rt, &idms, &rs);
    let n_hist = if args.thorough { 1200 } else { 180 };
    for hid in 0..n_hist {
        history(&rt, &idms, &mut delayed, &rs, &mut rng, args.thorough, &mut sink, hid);
    }
    sink.finish();
}
