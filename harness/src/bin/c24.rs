//! C24 — writes need matching grants; protected objects stay protected.
//!
//! Two kinds of cases, one generator:
//!  * `CFn`  : the real `AccessControls::{modify,create,delete}_allow_operation` (through
//!             `verif_hooks::c24`) on random profile sets, identities of every origin and scope,
//!             entries (ordinary, built-in range, system / domain / dyngroup / sync / classtype,
//!             recycled, tombstone, class-less) and random modify lists (all five `Modify` kinds,
//!             class edits, purges). Revive = the fake modify of `recycle.rs`.
//!  * `CSrv` : the same decision through the real `QueryServerWriteTransaction::{modify, create,
//!             delete, revive_recycled}` of an in-memory server, with the random modify / create /
//!             delete profiles installed in the (never committed) transaction; outcome class and
//!             "targets unchanged" read back.
//! The Coq model (KV.C24.Model) decides the same inputs (`agree`); `pcheck` evaluates the
//! declarative specification on the implementation's answers.
use kanidmd_lib::entry::{Entry, EntryCommitted, EntryInit, EntryNew, EntrySealed};
type EntrySealedCommitted = Entry<EntrySealed, EntryCommitted>;
use kanidmd_lib::event::{CreateEvent, DeleteEvent, ModifyEvent, ReviveRecycledEvent};
use kanidmd_lib::filter::{f_and, f_andnot, f_eq, f_or, f_pres, f_self, Filter, FilterValid, FC};
use kanidmd_lib::modify::{Modify, ModifyList};
use kanidmd_lib::prelude::*;
use kanidmd_lib::server::identity::{AccessScope, IdentType, InternalRole};
use kanidmd_lib::testkit::{setup_test, TestConfiguration};
use kanidmd_lib::valueset::{ValueSet, ValueSetIutf8};
use kanidmd_lib::verif_hooks::c24 as hook;
use kanidmd_lib::verif_hooks::c24::{HookAcp, HookAcps, HookReceiver};
use kanidmd_lib::filter_all;
use kvh::*;
use std::collections::{BTreeMap, BTreeSet};
use std::panic::AssertUnwindSafe;
use std::sync::Arc;

// ------------------------------------------------------------------ tables (same order as KV.C24.Model)
fn attr_table() -> Vec<Attribute> {
    vec![
        Attribute::Class,
        Attribute::Uuid,
        Attribute::Name,
        Attribute::DisplayName,
        Attribute::Description,
        Attribute::Member,
        Attribute::MemberOf,
        Attribute::EntryManagedBy,
        Attribute::SyncParentUuid,
        Attribute::Mail,
        Attribute::May,
        Attribute::Must,
        Attribute::BadlistPassword,
        Attribute::DomainSsid,
        Attribute::DomainLdapBasedn,
        Attribute::LdapMaxQueryableAttrs,
        Attribute::LdapAllowUnixPwBind,
        Attribute::FernetPrivateKeyStr,
        Attribute::Es256PrivateKeyDer,
        Attribute::KeyActionRevoke,
        Attribute::KeyActionRotate,
        Attribute::IdVerificationEcKey,
        Attribute::DeniedName,
        Attribute::DomainDisplayName,
        Attribute::Image,
        Attribute::DomainAllowEasterEggs,
        Attribute::DomainAllowAccountRecovery,
        Attribute::AccountExpire,
        Attribute::AccountValidFrom,
        Attribute::SshPublicKey,
        Attribute::UserAuthTokenSession,
        Attribute::OAuth2Session,
        Attribute::PrimaryCredential,
        Attribute::ApiTokenSession,
        Attribute::AuthSessionExpiry,
        Attribute::AuthPasswordMinimumLength,
        Attribute::CredentialTypeMinimum,
        Attribute::PrivilegeExpiry,
        Attribute::WebauthnAttestationCaList,
        Attribute::LimitSearchMaxResults,
        Attribute::LimitSearchMaxFilterTest,
        Attribute::AllowPrimaryCredFallback,
        Attribute::OAuth2ConsentScopeMap,
        Attribute::CredentialUpdateIntentToken,
        Attribute::GidNumber,
        Attribute::LegalName,
        Attribute::LoginShell,
        Attribute::OAuth2RsScopeMap,
        Attribute::OAuth2RsSupScopeMap,
        Attribute::OAuth2JwtLegacyCryptoEnable,
        Attribute::OAuth2PreferShortUsername,
        Attribute::OAuth2RsClaimMap,
        Attribute::OAuth2RsOrigin,
        Attribute::OAuth2RsOriginLanding,
        Attribute::OAuth2ConsentPromptEnable,
        Attribute::DeleteAfter,
        Attribute::MailDestination,
        Attribute::MessageTemplate,
        Attribute::SendAfter,
        Attribute::RadiusSecret,
        Attribute::UnixPassword,
        Attribute::Spn,
    ]
}
fn class_table() -> Vec<EntryClass> {
    vec![
        EntryClass::Object,
        EntryClass::System,
        EntryClass::DomainInfo,
        EntryClass::SystemInfo,
        EntryClass::SystemConfig,
        EntryClass::DynGroup,
        EntryClass::SyncObject,
        EntryClass::Tombstone,
        EntryClass::Recycled,
        EntryClass::ClassType,
        EntryClass::Account,
        EntryClass::ServiceAccount,
        EntryClass::Group,
        EntryClass::Person,
        EntryClass::MemberOf,
        EntryClass::PosixAccount,
        EntryClass::PosixGroup,
        EntryClass::AccountPolicy,
        EntryClass::OAuth2ResourceServer,
        EntryClass::OAuth2ResourceServerBasic,
        EntryClass::OAuth2ResourceServerPublic,
        EntryClass::KeyObject,
        EntryClass::KeyObjectInternal,
        EntryClass::KeyObjectHkdfS256,
        EntryClass::KeyObjectJwtEs256,
        EntryClass::KeyObjectJwtHs256,
        EntryClass::KeyObjectJwtRs256,
        EntryClass::KeyObjectJweA128GCM,
        EntryClass::OutboundMessage,
        EntryClass::AccountSignupRequest,
        EntryClass::AttributeType,
        EntryClass::ExtensibleObject,
        EntryClass::SyncAccount,
    ]
}
// attribute ids
const A_CLASS: u64 = 0;
const A_UUID: u64 = 1;
const A_NAME: u64 = 2;
const A_DISPLAYNAME: u64 = 3;
const A_DESCRIPTION: u64 = 4;
const A_MEMBER: u64 = 5;
const A_MEMBEROF: u64 = 6;
const A_EMB: u64 = 7;
const A_SYNCPARENT: u64 = 8;
const A_MAIL: u64 = 9;
const N_ATTR: u64 = 62;
// class ids
const K_OBJECT: u64 = 0;
const K_SYSTEM: u64 = 1;
const K_DOMAININFO: u64 = 2;
const K_SYSTEMINFO: u64 = 3;
const K_SYSTEMCONFIG: u64 = 4;
const K_DYNGROUP: u64 = 5;
const K_SYNCOBJECT: u64 = 6;
const K_TOMBSTONE: u64 = 7;
const K_RECYCLED: u64 = 8;
const K_CLASSTYPE: u64 = 9;
const K_ACCOUNT: u64 = 10;
const K_SERVICEACCOUNT: u64 = 11;
const K_GROUP: u64 = 12;
const K_PERSON: u64 = 13;
const K_MEMBEROF: u64 = 14;
const K_POSIXACCOUNT: u64 = 15;
const K_ACCOUNTPOLICY: u64 = 17;
const K_OAUTH2RS: u64 = 18;
const K_KEYOBJECT: u64 = 21;
const K_OUTBOUND: u64 = 28;
const K_SIGNUP: u64 = 29;
const N_CLASS: u64 = 33;

const ANON: u64 = 0x0000_ffff_ffff_ffff;
fn group_uuid(g: u64) -> u64 {
    ANON + 1000 + g
}
fn person_uuid(k: u64) -> u64 {
    ANON + 2000 + k
}
fn sync_uuid(s: u64) -> u64 {
    ANON + 3000 + s
}
fn uu(n: u64) -> Uuid {
    Uuid::from_u128(n as u128)
}

struct Tab {
    attrs: Vec<Attribute>,
    classes: Vec<String>,
    /// classes met on stored entries that are not in the table: id = 1000 + index
    extra: std::cell::RefCell<Vec<String>>,
}
impl Tab {
    fn new() -> Self {
        let classes = class_table()
            .into_iter()
            .map(|c| {
                let s: &str = c.into();
                s.to_string()
            })
            .collect();
        Tab { attrs: attr_table(), classes, extra: Default::default() }
    }
    fn attr(&self, a: u64) -> Attribute {
        self.attrs[a as usize].clone()
    }
    fn class(&self, k: u64) -> String {
        if k >= 1000 {
            self.extra.borrow()[(k - 1000) as usize].clone()
        } else {
            self.classes[k as usize].clone()
        }
    }
    fn class_id(&self, c: &str) -> u64 {
        if let Some(k) = self.classes.iter().position(|k| k == c) {
            return k as u64;
        }
        let mut x = self.extra.borrow_mut();
        if let Some(k) = x.iter().position(|k| k == c) {
            return 1000 + k as u64;
        }
        x.push(c.to_string());
        1000 + (x.len() - 1) as u64
    }
    fn is_refer(a: u64) -> bool {
        a == A_MEMBER || a == A_MEMBEROF || a == A_EMB || a == A_SYNCPARENT
    }
    fn value(&self, a: u64, v: u64) -> Value {
        if a == A_CLASS {
            Value::new_iutf8(&self.class(v))
        } else if a == A_UUID {
            Value::Uuid(uu(v))
        } else if a == A_NAME {
            Value::new_iname(&format!("n{v}"))
        } else if Self::is_refer(a) {
            Value::Refer(uu(v))
        } else {
            Value::new_utf8s(&format!("v{v}"))
        }
    }
    fn pvalue(&self, a: u64, v: u64) -> PartialValue {
        if a == A_CLASS {
            PartialValue::new_iutf8(&self.class(v))
        } else if a == A_UUID {
            PartialValue::Uuid(uu(v))
        } else if a == A_NAME {
            PartialValue::new_iname(&format!("n{v}"))
        } else if Self::is_refer(a) {
            PartialValue::Refer(uu(v))
        } else {
            PartialValue::new_utf8s(&format!("v{v}"))
        }
    }
}

// ------------------------------------------------------------------ abstract inputs
type MEntry = BTreeMap<u64, BTreeSet<u64>>;

#[derive(Clone, Debug)]
enum TF {
    Eq(u64, u64),
    Pres(u64),
    SelfU,
    And(Vec<TF>),
    Or(Vec<TF>),
    Not(Box<TF>),
}
#[derive(Clone, Debug)]
enum Recv {
    None,
    Group(Vec<u64>),
    Manager,
}
#[derive(Clone, Debug)]
struct MAcp {
    recv: Recv,
    target: Option<TF>,
    s1: Vec<u64>,
    s2: Vec<u64>,
    c1: Vec<u64>,
    c2: Vec<u64>,
}
#[derive(Clone, Debug, Default)]
struct MAcps {
    modify: Vec<MAcp>,
    create: Vec<MAcp>,
    delete: Vec<MAcp>,
    sync: Vec<(u64, Vec<u64>)>,
}
#[derive(Clone, Copy, Debug, PartialEq)]
enum Origin {
    User,
    Synch,
    System,
    Migration,
    AccountRequest,
    MessageQueue,
}
#[derive(Clone, Copy, Debug, PartialEq)]
enum Scope {
    RO,
    RW,
    Sync,
}
#[derive(Clone, Debug)]
struct MIdent {
    origin: Origin,
    scope: Scope,
    uuid: u64,
    memberof: Vec<u64>,
}
#[derive(Clone, Debug)]
enum MMod {
    Present(u64, u64),
    Removed(u64, u64),
    Purged(u64),
    Assert(u64, u64),
    Set(u64, Vec<u64>),
}
#[derive(Clone, Debug)]
enum MOp {
    Modify(Vec<MMod>),
    Create,
    Delete,
    Revive,
}

// ------------------------------------------------------------------ Coq printers
fn nl(v: &[u64]) -> String {
    clist(v, |x| x.to_string())
}
fn c_entry(e: &MEntry) -> String {
    let v: Vec<String> = e
        .iter()
        .map(|(a, vs)| format!("({}, {})", a, nl(&vs.iter().cloned().collect::<Vec<_>>())))
        .collect();
    clist_s(&v)
}
fn c_tf(f: &TF) -> String {
    match f {
        TF::Eq(a, v) => format!("(TEq {a} {v})"),
        TF::Pres(a) => format!("(TPres {a})"),
        TF::SelfU => "TSelf".into(),
        TF::And(l) => format!("(TAnd {})", clist(l, c_tf)),
        TF::Or(l) => format!("(TOr {})", clist(l, c_tf)),
        TF::Not(g) => format!("(TNot {})", c_tf(g)),
    }
}
fn c_acp(a: &MAcp) -> String {
    let r = match &a.recv {
        Recv::None => "RNone".to_string(),
        Recv::Group(g) => format!("(RGroup {})", nl(g)),
        Recv::Manager => "RManager".to_string(),
    };
    format!(
        "(mkA {} {} {} {} {} {})",
        r,
        copt(&a.target, c_tf),
        nl(&a.s1),
        nl(&a.s2),
        nl(&a.c1),
        nl(&a.c2)
    )
}
fn c_acps(a: &MAcps) -> String {
    let sync: Vec<String> = a.sync.iter().map(|(u, l)| format!("({}, {})", u, nl(l))).collect();
    format!(
        "(mkAcps {} {} {} {})",
        clist(&a.modify, c_acp),
        clist(&a.create, c_acp),
        clist(&a.delete, c_acp),
        clist_s(&sync)
    )
}
fn c_ident(i: &MIdent) -> String {
    let o = match i.origin {
        Origin::User => "OUser",
        Origin::Synch => "OSynch",
        Origin::System => "OSystem",
        Origin::Migration => "OMigration",
        Origin::AccountRequest => "OAccountRequest",
        Origin::MessageQueue => "OMessageQueue",
    };
    let s = match i.scope {
        Scope::RO => "ScRO",
        Scope::RW => "ScRW",
        Scope::Sync => "ScSync",
    };
    format!("(mkI {} {} {} {})", o, s, i.uuid, nl(&i.memberof))
}
fn c_mod(m: &MMod) -> String {
    match m {
        MMod::Present(a, v) => format!("(MPresent {a} {v})"),
        MMod::Removed(a, v) => format!("(MRemoved {a} {v})"),
        MMod::Purged(a) => format!("(MPurged {a})"),
        MMod::Assert(a, v) => format!("(MAssert {a} {v})"),
        MMod::Set(a, vs) => format!("(MSet {a} {})", nl(vs)),
    }
}
fn c_op(o: &MOp) -> String {
    match o {
        MOp::Modify(ml) => format!("(OpModify {})", clist(ml, c_mod)),
        MOp::Create => "OpCreate".into(),
        MOp::Delete => "OpDelete".into(),
        MOp::Revive => "OpRevive".into(),
    }
}

// ------------------------------------------------------------------ real objects
fn real_entry(t: &Tab, e: &MEntry) -> Entry<EntryInit, EntryNew> {
    let mut r: Entry<EntryInit, EntryNew> = Entry::new();
    for (a, vs) in e {
        for v in vs {
            r.add_ava(t.attr(*a), t.value(*a, *v));
        }
    }
    r
}
fn sealed(t: &Tab, e: &MEntry) -> Arc<EntrySealedCommitted> {
    let u = e.get(&A_UUID).and_then(|s| s.iter().next().cloned()).expect("committed entries carry a uuid");
    hook::seal(&real_entry(t, e), uu(u))
}
fn fc_of(t: &Tab, f: &TF) -> FC {
    match f {
        TF::Eq(a, v) => f_eq(t.attr(*a), t.pvalue(*a, *v)),
        TF::Pres(a) => f_pres(t.attr(*a)),
        TF::SelfU => f_self(),
        TF::And(l) => f_and(l.iter().map(|g| fc_of(t, g)).collect()),
        TF::Or(l) => f_or(l.iter().map(|g| fc_of(t, g)).collect()),
        TF::Not(g) => f_andnot(fc_of(t, g)),
    }
}
fn real_acp(t: &Tab, schema: &dyn kanidmd_lib::schema::SchemaTransaction, a: &MAcp) -> HookAcp {
    HookAcp {
        receiver: match &a.recv {
            Recv::None => HookReceiver::None,
            Recv::Group(g) => HookReceiver::Group(g.iter().map(|x| uu(*x)).collect()),
            Recv::Manager => HookReceiver::EntryManager,
        },
        target: a.target.as_ref().map(|f| {
            filter_all!(fc_of(t, f)).validate(schema).expect("target filter validates")
        }),
        s1: a.s1.iter().map(|x| t.attr(*x)).collect(),
        s2: a.s2.iter().map(|x| t.attr(*x)).collect(),
        c1: a.c1.iter().map(|x| t.class(*x).to_string()).collect(),
        c2: a.c2.iter().map(|x| t.class(*x).to_string()).collect(),
    }
}
fn real_acps(t: &Tab, schema: &dyn kanidmd_lib::schema::SchemaTransaction, a: &MAcps) -> HookAcps {
    HookAcps {
        modify: a.modify.iter().map(|x| real_acp(t, schema, x)).collect(),
        create: a.create.iter().map(|x| real_acp(t, schema, x)).collect(),
        delete: a.delete.iter().map(|x| real_acp(t, schema, x)).collect(),
        sync: a
            .sync
            .iter()
            .map(|(u, l)| (uu(*u), l.iter().map(|x| t.attr(*x)).collect()))
            .collect(),
        search: vec![],
    }
}
fn real_ident(i: &MIdent, user_entry: Arc<EntrySealedCommitted>) -> Identity {
    // every field the access code reads is set explicitly: origin, scope
    let mut id = Identity::from_impersonate_entry_readwrite(user_entry);
    match i.origin {
        Origin::User => {}
        Origin::Synch => id.origin = IdentType::Synch(uu(i.uuid)),
        Origin::System => id.origin = IdentType::Internal(InternalRole::System),
        Origin::Migration => id.origin = IdentType::Internal(InternalRole::Migration),
        Origin::AccountRequest => id.origin = IdentType::Internal(InternalRole::AccountRequest),
        Origin::MessageQueue => id.origin = IdentType::Internal(InternalRole::MessageQueue),
    }
    id.project_with_scope(match i.scope {
        Scope::RO => AccessScope::ReadOnly,
        Scope::RW => AccessScope::ReadWrite,
        Scope::Sync => AccessScope::Synchronise,
    })
}
fn user_mentry(i: &MIdent) -> MEntry {
    let mut e = MEntry::new();
    e.insert(A_CLASS, [K_OBJECT, K_ACCOUNT, K_PERSON].into_iter().collect());
    e.insert(A_UUID, [i.uuid].into_iter().collect());
    e.insert(A_NAME, [9].into_iter().collect());
    if !i.memberof.is_empty() {
        e.insert(A_MEMBEROF, i.memberof.iter().cloned().collect());
    }
    e
}
fn real_mods(t: &Tab, ml: &[MMod]) -> Vec<Modify> {
    ml.iter()
        .map(|m| match m {
            MMod::Present(a, v) => Modify::Present(t.attr(*a), t.value(*a, *v)),
            MMod::Removed(a, v) => Modify::Removed(t.attr(*a), t.pvalue(*a, *v)),
            MMod::Purged(a) => Modify::Purged(t.attr(*a)),
            MMod::Assert(a, v) => Modify::Assert(t.attr(*a), t.pvalue(*a, *v)),
            MMod::Set(a, vs) => {
                let set: ValueSet = if *a == A_CLASS {
                    let names: Vec<String> = vs.iter().map(|k| t.class(*k)).collect();
                    let b: ValueSet = ValueSetIutf8::from_iter(names.iter().map(|s| s.as_str())).expect("non-empty class set");
                    b
                } else {
                    let mut it = vs.iter();
                    let first = it.next().expect("non-empty set");
                    let mut s = kanidmd_lib::valueset::from_value_iter(std::iter::once(t.value(*a, *first)))
                        .expect("valueset");
                    for v in it {
                        let _ = s.insert_checked(t.value(*a, *v));
                    }
                    s
                };
                Modify::Set(t.attr(*a), set)
            }
        })
        .collect()
}

// ------------------------------------------------------------------ generators
const HOT_ATTRS: &[u64] = &[0, 2, 3, 4, 5, 9, 27, 30, 10, 12, 13, 29, 34, 42, 45, 7, 23, 33];
const HOT_CLASSES: &[u64] = &[
    K_OBJECT, K_ACCOUNT, K_PERSON, K_GROUP, K_SERVICEACCOUNT, K_POSIXACCOUNT, K_MEMBEROF, K_SYSTEM, K_DOMAININFO,
    K_SYSTEMINFO, K_SYSTEMCONFIG, K_DYNGROUP, K_SYNCOBJECT, K_TOMBSTONE, K_RECYCLED, K_CLASSTYPE, K_ACCOUNTPOLICY,
    K_OAUTH2RS, K_KEYOBJECT, K_OUTBOUND, K_SIGNUP,
];
fn gen_attr(rng: &mut Rng) -> u64 {
    if rng.chance(5, 6) {
        *rng.pick(HOT_ATTRS)
    } else {
        rng.below(N_ATTR)
    }
}
fn gen_class(rng: &mut Rng) -> u64 {
    if rng.chance(7, 8) {
        *rng.pick(HOT_CLASSES)
    } else {
        rng.below(N_CLASS)
    }
}
fn gen_set(rng: &mut Rng, max: u64, f: fn(&mut Rng) -> u64) -> Vec<u64> {
    let n = rng.below(max + 1);
    let s: BTreeSet<u64> = (0..n).map(|_| f(rng)).collect();
    s.into_iter().collect()
}
fn gen_uuid(rng: &mut Rng) -> u64 {
    match rng.below(10) {
        0 => *rng.pick(&[1u64, 0x18, 0xffff_ff00_0025, ANON - 1, ANON]),
        1 => ANON + 1,
        _ => ANON + 4000 + rng.below(50),
    }
}
fn gen_ident(rng: &mut Rng) -> MIdent {
    let origin = match rng.below(100) {
        0..=71 => Origin::User,
        72..=79 => Origin::Synch,
        80..=85 => Origin::System,
        86..=91 => Origin::Migration,
        92..=95 => Origin::AccountRequest,
        _ => Origin::MessageQueue,
    };
    let scope = match rng.below(100) {
        0..=74 => Scope::RW,
        75..=87 => Scope::RO,
        _ => Scope::Sync,
    };
    let (uuid, memberof) = match origin {
        Origin::User => {
            let mo: BTreeSet<u64> = (0..rng.below(4)).map(|_| group_uuid(rng.below(5))).collect();
            (person_uuid(rng.below(4)), mo.into_iter().collect())
        }
        Origin::Synch => (sync_uuid(rng.below(3)), vec![]),
        _ => (0, vec![]),
    };
    MIdent { origin, scope, uuid, memberof }
}
fn gen_value(rng: &mut Rng, i: &MIdent, a: u64) -> u64 {
    if a == A_CLASS {
        gen_class(rng)
    } else if a == A_UUID {
        gen_uuid(rng)
    } else if a == A_NAME {
        rng.below(5)
    } else if a == A_SYNCPARENT {
        sync_uuid(rng.below(3))
    } else if Tab::is_refer(a) {
        match rng.below(4) {
            0 => i.uuid.max(ANON + 1),
            1 => person_uuid(rng.below(4)),
            _ => group_uuid(rng.below(5)),
        }
    } else {
        rng.below(3)
    }
}
fn gen_entry(rng: &mut Rng, i: &MIdent, committed: bool) -> MEntry {
    let mut e = MEntry::new();
    // classes
    let kind = rng.below(16);
    let mut cls: BTreeSet<u64> = match kind {
        0 | 1 | 2 => [K_OBJECT, K_ACCOUNT, K_PERSON].into_iter().collect(),
        3 | 4 => [K_OBJECT, K_GROUP].into_iter().collect(),
        5 => [K_OBJECT, K_ACCOUNT, K_SERVICEACCOUNT].into_iter().collect(),
        6 => [K_OBJECT, K_SYSTEM, *rng.pick(&[K_GROUP, K_ACCOUNT, K_SERVICEACCOUNT, K_CLASSTYPE, K_OBJECT])].into_iter().collect(),
        7 => [K_OBJECT, *rng.pick(&[K_DOMAININFO, K_SYSTEMCONFIG, K_SYSTEMINFO, K_DYNGROUP])].into_iter().collect(),
        8 => [K_OBJECT, K_SYNCOBJECT, *rng.pick(&[K_PERSON, K_GROUP, K_ACCOUNT])].into_iter().collect(),
        9 => [K_OBJECT, K_RECYCLED, *rng.pick(&[K_PERSON, K_GROUP, K_ACCOUNT])].into_iter().collect(),
        10 => [K_OBJECT, K_TOMBSTONE].into_iter().collect(),
        11 => BTreeSet::new(),
        _ => (0..rng.range(1, 4)).map(|_| gen_class(rng)).collect(),
    };
    if rng.chance(1, 6) {
        cls.insert(gen_class(rng));
    }
    if !cls.is_empty() {
        e.insert(A_CLASS, cls);
    }
    // uuid
    if committed || rng.chance(3, 4) {
        e.insert(A_UUID, [gen_uuid(rng)].into_iter().collect());
    }
    if rng.chance(4, 5) {
        e.insert(A_NAME, [rng.below(5)].into_iter().collect());
    }
    if rng.chance(1, 3) {
        let n = rng.range(1, 2);
        e.insert(A_EMB, (0..n).map(|_| gen_value(rng, i, A_EMB)).collect());
    }
    if rng.chance(1, 3) {
        let n = rng.range(1, 2);
        e.insert(A_MEMBEROF, (0..n).map(|_| group_uuid(rng.below(5))).collect());
    }
    let is_sync = e.get(&A_CLASS).map(|c| c.contains(&K_SYNCOBJECT)).unwrap_or(false);
    if (is_sync && rng.chance(5, 6)) || rng.chance(1, 20) {
        let n = if rng.chance(1, 8) { 2 } else { 1 };
        e.insert(A_SYNCPARENT, (0..n).map(|_| sync_uuid(rng.below(3))).collect());
    }
    for _ in 0..rng.below(4) {
        let a = gen_attr(rng);
        if ![A_CLASS, A_UUID, A_NAME, A_MEMBER, A_MEMBEROF, A_EMB, A_SYNCPARENT].contains(&a) {
            e.entry(a).or_default().insert(rng.below(3));
        }
    }
    e
}
fn gen_tf(rng: &mut Rng, i: &MIdent, depth: u32) -> TF {
    let leaf = depth == 0 || rng.chance(3, 5);
    if leaf {
        match rng.below(12) {
            0 | 1 | 2 | 3 => TF::Eq(A_CLASS, gen_class(rng)),
            4 => TF::Eq(A_NAME, rng.below(5)),
            5 => TF::Eq(A_MEMBEROF, group_uuid(rng.below(5))),
            6 => TF::Eq(A_EMB, gen_value(rng, i, A_EMB)),
            7 => TF::Eq(A_UUID, gen_uuid(rng)),
            8 | 9 => TF::Pres(*rng.pick(&[A_CLASS, A_CLASS, A_NAME, A_EMB, A_MEMBEROF, A_SYNCPARENT, A_MAIL, A_UUID])),
            10 => TF::SelfU,
            _ => TF::Pres(A_CLASS),
        }
    } else {
        match rng.below(3) {
            0 => TF::And((0..rng.range(1, 3)).map(|_| gen_tf(rng, i, depth - 1)).collect()),
            1 => TF::Or((0..rng.range(1, 3)).map(|_| gen_tf(rng, i, depth - 1)).collect()),
            _ => TF::Not(Box::new(gen_tf(rng, i, depth - 1))),
        }
    }
}
fn gen_recv(rng: &mut Rng, i: &MIdent) -> Recv {
    match rng.below(20) {
        0 | 1 => Recv::None,
        2..=6 => Recv::Manager,
        _ => {
            let mut g: BTreeSet<u64> = (0..rng.range(1, 2)).map(|_| group_uuid(rng.below(5))).collect();
            if !i.memberof.is_empty() && rng.chance(1, 2) {
                g.insert(*rng.pick(&i.memberof));
            }
            Recv::Group(g.into_iter().collect())
        }
    }
}
fn gen_acp(rng: &mut Rng, i: &MIdent) -> MAcp {
    let target = if rng.chance(1, 14) {
        None
    } else if rng.chance(1, 3) {
        Some(TF::Pres(A_CLASS))
    } else {
        Some(gen_tf(rng, i, 2))
    };
    MAcp {
        recv: gen_recv(rng, i),
        target,
        s1: gen_set(rng, 6, gen_attr),
        s2: gen_set(rng, 6, gen_attr),
        c1: gen_set(rng, 4, gen_class),
        c2: gen_set(rng, 4, gen_class),
    }
}
fn gen_mod(rng: &mut Rng, i: &MIdent, e: Option<&MEntry>) -> MMod {
    let class_edit = rng.chance(1, 3);
    let a = if class_edit { A_CLASS } else { gen_attr(rng) };
    match rng.below(12) {
        0 | 1 | 2 | 3 => MMod::Present(a, gen_value(rng, i, a)),
        4 | 5 | 6 => MMod::Removed(a, gen_value(rng, i, a)),
        7 | 8 => {
            if a == A_CLASS && rng.chance(3, 4) {
                MMod::Removed(a, gen_class(rng))
            } else {
                MMod::Purged(a)
            }
        }
        9 => MMod::Assert(a, gen_value(rng, i, a)),
        _ => {
            let mut vs: BTreeSet<u64> = BTreeSet::new();
            if a == A_CLASS {
                // usually: the current classes with a small edit (SCIM PUT style)
                if let (Some(cur), true) = (e.and_then(|e| e.get(&A_CLASS)), rng.chance(3, 4)) {
                    vs = cur.clone();
                    if rng.chance(1, 2) {
                        let k: Vec<u64> = vs.iter().cloned().collect();
                        vs.remove(rng.pick(&k));
                    }
                    if rng.chance(2, 3) {
                        vs.insert(gen_class(rng));
                    }
                }
                if vs.is_empty() {
                    vs.insert(gen_class(rng));
                }
            } else {
                for _ in 0..rng.range(1, 2) {
                    vs.insert(gen_value(rng, i, a));
                }
            }
            MMod::Set(a, vs.into_iter().collect())
        }
    }
}

/// the attribute / class items an operation requests (used only to build a profile that is
/// likely to grant them, so that allowed outcomes are frequent)
fn tailored_acp(rng: &mut Rng, i: &MIdent, es: &[MEntry], op: &MOp) -> MAcp {
    let mut s1 = BTreeSet::new();
    let mut s2 = BTreeSet::new();
    let mut c1 = BTreeSet::new();
    let mut c2 = BTreeSet::new();
    match op {
        MOp::Modify(ml) => {
            for m in ml {
                match m {
                    MMod::Present(a, v) => {
                        s1.insert(*a);
                        if *a == A_CLASS {
                            c1.insert(*v);
                        }
                    }
                    MMod::Assert(a, _) => {
                        s1.insert(*a);
                    }
                    MMod::Removed(a, v) => {
                        s2.insert(*a);
                        if *a == A_CLASS {
                            c2.insert(*v);
                        }
                    }
                    MMod::Purged(a) => {
                        s2.insert(*a);
                    }
                    MMod::Set(a, vs) => {
                        s1.insert(*a);
                        s2.insert(*a);
                        if *a == A_CLASS {
                            for e in es {
                                let cur = e.get(&A_CLASS).cloned().unwrap_or_default();
                                let req: BTreeSet<u64> = vs.iter().cloned().collect();
                                c1.extend(req.difference(&cur));
                                c2.extend(cur.difference(&req));
                            }
                        }
                    }
                }
            }
        }
        MOp::Create => {
            for e in es {
                s1.extend(e.keys());
                if let Some(c) = e.get(&A_CLASS) {
                    c1.extend(c);
                }
            }
        }
        MOp::Delete => {}
        MOp::Revive => {
            s2.insert(A_CLASS);
            c2.insert(K_RECYCLED);
        }
    }
    // occasionally drop one requested item, or add extras
    for s in [&mut s1, &mut s2, &mut c1, &mut c2] {
        if !s.is_empty() && rng.chance(1, 10) {
            let k: Vec<u64> = s.iter().cloned().collect();
            s.remove(rng.pick(&k));
        }
    }
    if rng.chance(1, 3) {
        s1.insert(gen_attr(rng));
        s2.insert(gen_attr(rng));
    }
    let recv = if !i.memberof.is_empty() && rng.chance(4, 5) {
        Recv::Group(vec![*rng.pick(&i.memberof)])
    } else if rng.chance(1, 2) {
        Recv::Manager
    } else {
        gen_recv(rng, i)
    };
    let target = if rng.chance(3, 4) { Some(TF::Pres(A_CLASS)) } else { Some(gen_tf(rng, i, 1)) };
    MAcp {
        recv,
        target,
        s1: s1.into_iter().collect(),
        s2: s2.into_iter().collect(),
        c1: c1.into_iter().collect(),
        c2: c2.into_iter().collect(),
    }
}

fn gen_acps(rng: &mut Rng, ident: &MIdent, es: &[MEntry], op: &MOp) -> MAcps {
    let mut acps = MAcps::default();
    let tailored = rng.chance(3, 5);
    {
        let list = match op {
            MOp::Modify(_) | MOp::Revive => &mut acps.modify,
            MOp::Create => &mut acps.create,
            MOp::Delete => &mut acps.delete,
        };
        for _ in 0..rng.below(4) {
            list.push(gen_acp(rng, ident));
        }
        if tailored {
            let a = tailored_acp(rng, ident, es, op);
            let at = rng.below(list.len() as u64 + 1) as usize;
            list.insert(at, a);
            // split grants over two profiles sometimes: union over profiles must be honoured for
            // modify, but NOT for create (one profile must cover everything)
            if rng.chance(1, 4) {
                let mut b = list[at].clone();
                let a = &mut list[at];
                if a.s1.len() > 1 {
                    let keep = a.s1.split_off(a.s1.len() / 2);
                    b.s1 = keep;
                }
                if a.c1.len() > 1 {
                    let keep = a.c1.split_off(a.c1.len() / 2);
                    b.c1 = keep;
                }
                list.push(b);
            }
        }
    }
    // the other kinds get a profile too, so that a mix-up of profile kinds would show
    if rng.chance(1, 3) {
        let a = gen_acp(rng, ident);
        match op {
            MOp::Modify(_) | MOp::Revive => acps.delete.push(a),
            _ => acps.modify.push(a),
        }
    }
    for s in 0..3 {
        if rng.chance(1, 2) {
            acps.sync.push((sync_uuid(s), gen_set(rng, 3, gen_attr)));
        }
    }
    acps
}

struct Input {
    ident: MIdent,
    acps: MAcps,
    es: Vec<MEntry>,
    op: MOp,
}

fn gen_input(rng: &mut Rng) -> Input {
    let ident = gen_ident(rng);
    let opk = rng.below(10);
    let n_e = if rng.chance(1, 25) { 0 } else if rng.chance(1, 5) { 2 } else { 1 };
    let mut es: Vec<MEntry> = (0..n_e).map(|_| gen_entry(rng, &ident, opk >= 3)).collect();
    let op = match opk {
        0 | 1 | 2 => MOp::Create,
        3 | 4 => MOp::Delete,
        5 => {
            // revive targets are usually recycled
            for e in es.iter_mut() {
                if rng.chance(4, 5) {
                    e.entry(A_CLASS).or_default().insert(K_RECYCLED);
                }
            }
            MOp::Revive
        }
        _ => {
            let n = if rng.chance(1, 25) { 0 } else { rng.range(1, 3) };
            MOp::Modify((0..n).map(|_| gen_mod(rng, &ident, es.first())).collect())
        }
    };
    // make the identity the entry manager of a target now and then
    if ident.origin == Origin::User && rng.chance(1, 4) {
        for e in es.iter_mut() {
            let v = if !ident.memberof.is_empty() && rng.chance(1, 2) { *rng.pick(&ident.memberof) } else { ident.uuid };
            e.insert(A_EMB, [v].into_iter().collect());
        }
    }
    let acps = gen_acps(rng, &ident, &es, &op);
    Input { ident, acps, es, op }
}

fn txt_of(kind: &str, inp: &Input, out: &str) -> String {
    format!(
        "{} {:?}/{:?} uuid={} mo={:?} op={:?} entries={:?} acps={:?} -> {}",
        kind, inp.ident.origin, inp.ident.scope, inp.ident.uuid, inp.ident.memberof, inp.op, inp.es, inp.acps, out
    )
}

// ------------------------------------------------------------------ function level
fn run_fn(t: &Tab, schema: &dyn kanidmd_lib::schema::SchemaTransaction, inp: &Input, any: &Filter<FilterValid>) -> bool {
    let acps = real_acps(t, schema, &inp.acps);
    let ident = real_ident(&inp.ident, sealed(t, &user_mentry(&inp.ident)));
    match &inp.op {
        MOp::Modify(_) | MOp::Revive => {
            let ml = match &inp.op {
                MOp::Modify(ml) => real_mods(t, ml),
                // recycle.rs: Modify::Removed(Attribute::Class, EntryClass::Recycled.into())
                _ => vec![Modify::Removed(Attribute::Class, EntryClass::Recycled.into())],
            };
            let me = ModifyEvent { ident, filter: any.clone(), filter_orig: any.clone(), modlist: hook::valid_modlist(ml) };
            let es: Vec<_> = inp.es.iter().map(|e| sealed(t, e)).collect();
            hook::modify_allowed(&acps, &me, &es).expect("modify_allow_operation")
        }
        MOp::Create => {
            let es: Vec<_> = inp.es.iter().map(|e| real_entry(t, e)).collect();
            let ce = CreateEvent { ident, entries: es.clone(), return_created_uuids: false };
            hook::create_allowed(&acps, &ce, &es).expect("create_allow_operation")
        }
        MOp::Delete => {
            let de = DeleteEvent { ident, filter: any.clone(), filter_orig: any.clone() };
            let es: Vec<_> = inp.es.iter().map(|e| sealed(t, e)).collect();
            hook::delete_allowed(&acps, &de, &es).expect("delete_allow_operation")
        }
    }
}

fn emit_fn(sink: &mut Sink, inp: &Input, res: bool) {
    let coq = format!(
        "(CFn {} {} {} {} {})%N",
        c_ident(&inp.ident),
        c_acps(&inp.acps),
        clist(&inp.es, c_entry),
        c_op(&inp.op),
        cbool(res)
    );
    let opn = match inp.op {
        MOp::Modify(_) => "modify",
        MOp::Create => "create",
        MOp::Delete => "delete",
        MOp::Revive => "revive",
    };
    sink.bump(&format!("fn_{}_{}", opn, if res { "allowed" } else { "denied" }));
    if inp.ident.origin == Origin::User {
        sink.bump(&format!("fn_user_{:?}_{}", inp.ident.scope, if res { "allowed" } else { "denied" }));
    } else {
        sink.bump(&format!("fn_{:?}_{}", inp.ident.origin, if res { "allowed" } else { "denied" }));
    }
    // non-trivial: a read-write user acting on at least one entry with at least one profile of the
    // operation's kind present
    let n_acp = match inp.op {
        MOp::Modify(_) | MOp::Revive => inp.acps.modify.len(),
        MOp::Create => inp.acps.create.len(),
        MOp::Delete => inp.acps.delete.len(),
    };
    let nontrivial = inp.ident.origin == Origin::User && inp.ident.scope == Scope::RW && !inp.es.is_empty() && n_acp > 0;
    sink.case(coq, txt_of("fn", inp, if res { "allowed" } else { "denied" }), nontrivial);
}


// ------------------------------------------------------------------ server level
const GS: u64 = 9; // the group that the installed search profile receives
fn t_uuid(k: u64) -> u64 {
    ANON + 4000 + k
}
fn mk(avas: Vec<(Attribute, Value)>) -> Entry<EntryInit, EntryNew> {
    let mut e: Entry<EntryInit, EntryNew> = Entry::new();
    for (a, v) in avas {
        e.add_ava(a, v);
    }
    e
}
fn person(name: &str, u: u64) -> Entry<EntryInit, EntryNew> {
    mk(vec![
        (Attribute::Class, EntryClass::Object.to_value()),
        (Attribute::Class, EntryClass::Account.to_value()),
        (Attribute::Class, EntryClass::Person.to_value()),
        (Attribute::Name, Value::new_iname(name)),
        (Attribute::DisplayName, Value::new_utf8s(name)),
        (Attribute::Uuid, Value::Uuid(uu(u))),
    ])
}
fn group(name: &str, u: u64) -> Entry<EntryInit, EntryNew> {
    mk(vec![
        (Attribute::Class, EntryClass::Object.to_value()),
        (Attribute::Class, EntryClass::Group.to_value()),
        (Attribute::Name, Value::new_iname(name)),
        (Attribute::Uuid, Value::Uuid(uu(u))),
    ])
}

/// population committed once; returns the target uuids and the time for later transactions
fn populate(rt: &tokio::runtime::Runtime, qs: &QueryServer) -> (Vec<Uuid>, Duration) {
    let ct0 = duration_from_epoch_now();
    let mut wr = rt.block_on(qs.write(ct0)).expect("write");
    let mut es = vec![];
    for g in 0..5 {
        es.push(group(&format!("g{g}"), group_uuid(g)));
    }
    es.push(group("gsearch", group_uuid(GS)));
    for k in 0..4 {
        es.push(person(&format!("p{k}"), person_uuid(k)));
    }
    wr.internal_create(es).expect("create receivers");
    let mut tp = person("n0", t_uuid(0));
    tp.add_ava(Attribute::Description, Value::new_utf8s("d"));
    let mut tg = group("n1", t_uuid(1));
    tg.add_ava(Attribute::EntryManagedBy, Value::Refer(uu(group_uuid(1))));
    tg.add_ava(Attribute::Member, Value::Refer(uu(person_uuid(0))));
    let mut tsa = mk(vec![
        (Attribute::Class, EntryClass::Object.to_value()),
        (Attribute::Class, EntryClass::Account.to_value()),
        (Attribute::Class, EntryClass::ServiceAccount.to_value()),
        (Attribute::Name, Value::new_iname("n2")),
        (Attribute::DisplayName, Value::new_utf8s("n2")),
        (Attribute::Uuid, Value::Uuid(uu(t_uuid(2)))),
    ]);
    tsa.add_ava(Attribute::EntryManagedBy, Value::Refer(uu(person_uuid(1))));
    let mut tg2 = group("n3", t_uuid(3));
    tg2.add_ava(Attribute::EntryManagedBy, Value::Refer(uu(person_uuid(2))));
    let sync_src = mk(vec![
        (Attribute::Class, EntryClass::Object.to_value()),
        (Attribute::Class, EntryClass::SyncAccount.to_value()),
        (Attribute::Name, Value::new_iname("syncsrc")),
        (Attribute::Uuid, Value::Uuid(uu(sync_uuid(0)))),
    ]);
    let mut tsync = person("n4", t_uuid(4));
    tsync.add_ava(Attribute::Class, EntryClass::SyncObject.to_value());
    tsync.add_ava(Attribute::SyncParentUuid, Value::Refer(uu(sync_uuid(0))));
    wr.internal_create(vec![tp, tg, tsa, tg2, sync_src]).expect("create targets");
    wr.internal_create(vec![tsync]).expect("create sync target");
    wr.internal_create(vec![person("tomb", t_uuid(5))]).expect("create tomb");
    wr.internal_delete_uuid(uu(t_uuid(5))).expect("delete tomb");
    wr.commit().expect("commit");
    // 8 days later the recycled entry becomes a tombstone
    let ct1 = ct0 + Duration::from_secs(8 * 86400);
    let mut wr = rt.block_on(qs.write(ct1)).expect("write");
    wr.purge_recycled().expect("purge_recycled");
    wr.commit().expect("commit");
    let ct2 = ct1 + Duration::from_secs(10);
    let mut wr = rt.block_on(qs.write(ct2)).expect("write");
    let mut trg = group("recg", t_uuid(7));
    trg.add_ava(Attribute::EntryManagedBy, Value::Refer(uu(person_uuid(3))));
    wr.internal_create(vec![person("rec", t_uuid(6)), trg]).expect("create rec");
    wr.internal_delete_uuid(uu(t_uuid(6))).expect("delete rec");
    wr.internal_delete_uuid(uu(t_uuid(7))).expect("delete recg");
    wr.commit().expect("commit");
    let mut targets: Vec<Uuid> = (0..8).filter(|k| *k != 5 || true).map(|k| uu(t_uuid(k))).collect();
    targets.extend([UUID_DOMAIN_INFO, UUID_SYSTEM_CONFIG, UUID_IDM_ADMINS, UUID_ANONYMOUS, UUID_IDM_ALL_PERSONS, UUID_ADMIN]);
    (targets, ct2 + Duration::from_secs(10))
}

/// the part of a stored entry the model looks at: the attributes of the table
fn project(t: &Tab, names: &mut Intern<String>, e: &EntrySealedCommitted) -> MEntry {
    let mut m = MEntry::new();
    for (id, a) in t.attrs.iter().enumerate() {
        let id = id as u64;
        let Some(vs) = e.get_ava_set(a) else { continue };
        let mut out = BTreeSet::new();
        if id == A_CLASS {
            for c in vs.as_iutf8_set().expect("class is iutf8") {
                out.insert(t.class_id(c));
            }
        } else if id == A_UUID {
            out.insert(e.get_uuid().as_u128() as u64);
        } else if id == A_NAME {
            let n = vs.to_proto_string_single().unwrap_or_default();
            match n.strip_prefix('n').and_then(|d| d.parse::<u64>().ok()) {
                Some(k) if k < 100 => out.insert(k),
                _ => out.insert(1000 + names.id(&format!("name:{n}"))),
            };
        } else if Tab::is_refer(id) {
            for u in vs.as_refer_set().expect("refer set") {
                assert!(u.as_u128() < (1u128 << 63));
                out.insert(u.as_u128() as u64);
            }
        } else {
            out.insert(0);
        }
        m.insert(id, out);
    }
    m
}

fn read_target(wr: &mut QueryServerWriteTransaction<'_>, u: Uuid) -> Option<Arc<EntrySealedCommitted>> {
    wr.internal_search(filter_all!(f_eq(Attribute::Uuid, PartialValue::Uuid(u))))
        .ok()
        .and_then(|mut v| v.pop())
}

const SRV_ATTRS: &[u64] = &[A_CLASS, A_CLASS, A_NAME, A_DISPLAYNAME, A_DESCRIPTION, A_MEMBER, A_EMB, 45];
fn gen_srv_mod(rng: &mut Rng, i: &MIdent, e: &MEntry) -> MMod {
    let a = *rng.pick(SRV_ATTRS);
    match rng.below(10) {
        0 | 1 | 2 => MMod::Present(a, gen_value(rng, i, a)),
        3 | 4 => {
            // remove a value that is there, or a random one
            let v = match (e.get(&a), rng.chance(2, 3)) {
                (Some(vs), true) => *rng.pick(&vs.iter().cloned().collect::<Vec<_>>()),
                _ => gen_value(rng, i, a),
            };
            MMod::Removed(a, v)
        }
        5 | 6 => MMod::Purged(if rng.chance(1, 8) { A_CLASS } else { *rng.pick(&[A_DISPLAYNAME, A_DESCRIPTION, A_MEMBER, A_EMB, 45]) }),
        7 => MMod::Assert(a, gen_value(rng, i, a)),
        _ => {
            if a == A_CLASS {
                let mut vs = e.get(&A_CLASS).cloned().unwrap_or_default();
                vs.retain(|k| *k < 1000);
                if rng.chance(1, 2) && vs.len() > 1 {
                    let k: Vec<u64> = vs.iter().cloned().collect();
                    vs.remove(rng.pick(&k));
                }
                if rng.chance(2, 3) {
                    vs.insert(*rng.pick(&[K_POSIXACCOUNT, K_MEMBEROF, K_SYSTEM, K_RECYCLED, K_PERSON, K_ACCOUNT, K_SYNCOBJECT]));
                }
                if vs.is_empty() {
                    vs.insert(K_OBJECT);
                }
                MMod::Set(a, vs.into_iter().collect())
            } else {
                MMod::Set(a, vec![gen_value(rng, i, a)])
            }
        }
    }
}

#[derive(Clone, Copy, Debug, PartialEq)]
enum SRes {
    Ok,
    Denied,
    NoMatch,
    Other,
}
fn classify<T>(r: &Result<T, OperationError>) -> SRes {
    match r {
        Ok(_) => SRes::Ok,
        Err(OperationError::AccessDenied) => SRes::Denied,
        Err(OperationError::NoMatchingEntries) => SRes::NoMatch,
        Err(e) => {
            eprintln!("C24-OTHER-ERROR {e:?}");
            SRes::Other
        }
    }
}

fn run_srv_cases(
    rt: &tokio::runtime::Runtime,
    qs: &QueryServer,
    t: &Tab,
    rng: &mut Rng,
    sink: &mut Sink,
    n: u64,
) {
    let (targets, ct) = populate(rt, qs);
    let mut names: Intern<String> = Intern::new();
    let mut done = 0;
    let mut new_uuid = 0u64;
    while done < n {
        // identity: users and sync agents only (the property's subjects)
        let mut ident = gen_ident(rng);
        if !matches!(ident.origin, Origin::User | Origin::Synch) {
            ident.origin = Origin::User;
            ident.uuid = person_uuid(rng.below(4));
        }
        if ident.origin == Origin::User && rng.chance(6, 7) {
            ident.memberof.push(group_uuid(GS));
            ident.memberof.sort();
            ident.memberof.dedup();
        }
        let mut wr = rt.block_on(qs.write(ct)).expect("write");
        let schema = wr.get_schema();
        let opk = rng.below(20);
        // revive mostly aims at the recycled targets, the others mostly at ordinary entries
        let target = if (7..10).contains(&opk) && rng.chance(3, 4) {
            targets[rng.range(6, 7) as usize]
        } else if rng.chance(1, 2) {
            targets[rng.below(5) as usize]
        } else {
            *rng.pick(&targets)
        };
        let before = read_target(&mut wr, target).expect("target exists");
        let (es, op): (Vec<MEntry>, MOp) = if opk < 4 {
            // create: a fresh person or group, sometimes with a protected class / built-in uuid
            new_uuid += 1;
            let mut e = MEntry::new();
            let grp = rng.chance(1, 3);
            let mut cls: BTreeSet<u64> = if grp { [K_OBJECT, K_GROUP].into_iter().collect() } else { [K_OBJECT, K_ACCOUNT, K_PERSON].into_iter().collect() };
            if rng.chance(1, 6) {
                cls.insert(*rng.pick(&[K_SYSTEM, K_RECYCLED, K_SYNCOBJECT, K_DYNGROUP, K_POSIXACCOUNT]));
            }
            e.insert(A_CLASS, cls);
            e.insert(A_NAME, [10 + new_uuid].into_iter().collect());
            if !grp {
                e.insert(A_DISPLAYNAME, [0].into_iter().collect());
            }
            if rng.chance(3, 4) {
                let u = if rng.chance(1, 8) { 0xffff_ff00_1000 + new_uuid } else { ANON + 9000 + new_uuid };
                e.insert(A_UUID, [u].into_iter().collect());
            }
            if rng.chance(1, 4) {
                e.insert(A_DESCRIPTION, [0].into_iter().collect());
            }
            (vec![e], MOp::Create)
        } else {
            let me = project(t, &mut names, &before);
            let op = if opk < 7 {
                MOp::Delete
            } else if opk < 10 {
                MOp::Revive
            } else {
                MOp::Modify((0..rng.range(1, 2)).map(|_| gen_srv_mod(rng, &ident, &me)).collect())
            };
            (vec![me], op)
        };
        let macps = gen_acps(rng, &ident, &es, &op);
        let mut acps = real_acps(t, schema, &macps);
        acps.search = vec![HookAcp {
            receiver: HookReceiver::Group([uu(group_uuid(GS))].into_iter().collect()),
            target: Some(filter_all!(f_pres(Attribute::Class)).validate(schema).expect("filter")),
            s1: t.attrs.clone(),
            s2: vec![],
            c1: vec![],
            c2: vec![],
        }];
        hook::install_in_txn(&mut wr, &acps);
        let rident = real_ident(&ident, sealed(t, &user_mentry(&ident)));
        let tf = filter_all!(f_eq(Attribute::Uuid, PartialValue::Uuid(target))).validate(schema).expect("filter");
        let (res, unchanged) = match &op {
            MOp::Create => {
                let entries = vec![real_entry(t, &es[0])];
                let ce = CreateEvent { ident: rident, entries, return_created_uuids: false };
                let r = guarded(AssertUnwindSafe(|| classify(&wr.create(&ce))));
                let r = r.unwrap_or(SRes::Ok);
                // on failure nothing with the requested uuid / name exists
                let gone = match es[0].get(&A_UUID).and_then(|s| s.iter().next()) {
                    Some(u) => read_target(&mut wr, uu(*u)).is_none(),
                    None => {
                        let n = format!("n{}", es[0][&A_NAME].iter().next().expect("name"));
                        wr.internal_search(filter_all!(f_eq(Attribute::Name, PartialValue::new_iname(&n))))
                            .map(|v| v.is_empty())
                            .unwrap_or(false)
                    }
                };
                (r, gone)
            }
            other => {
                let r = match other {
                    MOp::Modify(ml) => {
                        let Ok(modlist) = ModifyList::new_list(real_mods(t, ml)).validate(schema) else {
                            sink.bump("srv_skipped_invalid_modlist");
                            continue;
                        };
                        let me = ModifyEvent { ident: rident, filter: tf.clone(), filter_orig: tf.clone(), modlist };
                        guarded(AssertUnwindSafe(|| classify(&wr.modify(&me))))
                    }
                    MOp::Delete => {
                        let de = DeleteEvent { ident: rident, filter: tf.clone(), filter_orig: tf.clone() };
                        guarded(AssertUnwindSafe(|| classify(&wr.delete(&de))))
                    }
                    _ => {
                        let re = ReviveRecycledEvent::from_parts(
                            rident,
                            &filter_all!(f_eq(Attribute::Uuid, PartialValue::Uuid(target))),
                            &wr,
                        )
                        .expect("revive event");
                        guarded(AssertUnwindSafe(|| classify(&wr.revive_recycled(&re))))
                    }
                };
                // a panic counts as success: it then has to satisfy the specification
                let r = r.unwrap_or(SRes::Ok);
                let after = read_target(&mut wr, target);
                (r, after.as_deref() == Some(before.as_ref()))
            }
        };
        drop(wr); // never committed
        let inp = Input { ident, acps: macps, es, op };
        let rs = match res {
            SRes::Ok => "SOk",
            SRes::Denied => "SDenied",
            SRes::NoMatch => "SNoMatch",
            SRes::Other => "SOther",
        };
        let coq = format!(
            "(CSrv {} {} {} {} {} {})%N",
            c_ident(&inp.ident),
            c_acps(&inp.acps),
            clist(&inp.es, c_entry),
            c_op(&inp.op),
            rs,
            cbool(unchanged)
        );
        let opn = match inp.op {
            MOp::Modify(_) => "modify",
            MOp::Create => "create",
            MOp::Delete => "delete",
            MOp::Revive => "revive",
        };
        sink.bump(&format!("srv_{}_{}", opn, rs));
        let nontrivial = inp.ident.origin == Origin::User && inp.ident.scope == Scope::RW;
        sink.case(coq, txt_of("srv", &inp, &format!("{rs} unchanged={unchanged}")), nontrivial);
        done += 1;
    }
}

fn main() {
    let args = parse_args();
    let mut rng = Rng::new(args.seed);
    let mut sink = Sink::new(&args, "KV.C24.Model", 400);
    sink.rule = "random identity (user/synch/internal roles x read-only/read-write/synchronise scope, random memberof), random modify/create/delete profile sets (group or entry-manager receivers, Eq/Pres/Self/And/Or/AndNot targets, attribute and class sets; 60% of cases also get a profile tailored to the request, sometimes minus one item or split over two profiles), 0-2 target entries (ordinary, built-in uuid range, system/domain/dyngroup/sync/classtype, recycled, tombstone, class-less) and an operation (modify list of 0-3 random Present/Removed/Purged/Assert/Set incl. class edits; create; delete; revive). fn = access entry points called directly, srv = same through the real server operations. non-trivial = read-write user, at least one target entry and at least one profile of the operation's kind".into();
    let t = Tab::new();
    let rt = tokio::runtime::Builder::new_current_thread().enable_all().build().expect("rt");
    let qs = rt.block_on(setup_test(TestConfiguration::default()));

    // ---------------- function level
    let n_fn = if args.thorough { 40000 } else { 7000 };
    {
        let mut rd = rt.block_on(qs.read()).expect("read txn");
        let schema = rd.get_schema();
        let any = filter_all!(f_pres(Attribute::Class)).validate(schema).expect("filter");
        for _ in 0..n_fn {
            let inp = gen_input(&mut rng);
            let r = guarded(AssertUnwindSafe(|| run_fn(&t, schema, &inp, &any)));
            match r {
                Ok(b) => emit_fn(&mut sink, &inp, b),
                Err(p) => {
                    // a panic of the implementation is recorded as "allowed" for a user and fails pcheck
                    eprintln!("PANIC in access check: {p}");
                    sink.bump("fn_panic");
                    emit_fn(&mut sink, &inp, true);
                }
            }
        }
        let _ = &mut rd;
    }
    // ---------------- server level
    let n_srv = if args.thorough { 5000 } else { 900 };
    run_srv_cases(&rt, &qs, &t, &mut rng, &mut sink, n_srv);
    sink.finish();
}
