//! C26 — recycle bin lifecycle (delete / revive / purge_recycled / purge_tombstones).
//!
//! Drives a REAL in-memory QueryServer through random histories over a small population
//! of persons, flat groups and Refers-dependents (ClientCertificate entries),
//! one write transaction per op at harness-chosen times placed around the recycle-bin
//! retention and changelog windows (+-1 ns / +-1 s, repeats and clock regressions).
//! After every transaction (committed or dropped) every tracked entry is read back in a
//! fresh read transaction: life-cycle state, tombstone `at`, LastModifiedCid, Member,
//! RecycledDirectMemberOf, DirectMemberOf, Refers, CascadeDeleted, and four search
//! visibilities (internal normal / recycled filter, and access-controlled as `admin`).
//! The Coq model (KV.C26.Model) replays the same op list (`agree`), and `pcheck` tests the
//! property on the implementation's own dumps.
use kanidm_proto::internal::FsType;
use kanidmd_lib::be::{Backend, BackendConfig};
use kanidmd_lib::entry::{Entry, EntryInit, EntryNew};
use kanidmd_lib::event::ReviveRecycledEvent;
use kanidmd_lib::prelude::*;
use kanidmd_lib::schema::Schema;
use kanidmd_lib::{filter, filter_all, filter_rec};
use kvh::*;
use std::panic::AssertUnwindSafe;

const CERT: &str = r#"-----BEGIN CERTIFICATE-----
MIICeDCCAh6gAwIBAgIBAjAKBggqhkjOPQQDAjCBhDELMAkGA1UEBhMCQVUxDDAK
BgNVBAgMA1FMRDEPMA0GA1UECgwGS2FuaWRtMRwwGgYDVQQDDBNLYW5pZG0gR2Vu
ZXJhdGVkIENBMTgwNgYDVQQLDC9EZXZlbG9wbWVudCBhbmQgRXZhbHVhdGlvbiAt
IE5PVCBGT1IgUFJPRFVDVElPTjAeFw0yNTA3MjkwMzMxMDNaFw0yNTA4MDMwMzMx
MDNaMHoxCzAJBgNVBAYTAkFVMQwwCgYDVQQIDANRTEQxDzANBgNVBAoMBkthbmlk
bTESMBAGA1UEAwwJbG9jYWxob3N0MTgwNgYDVQQLDC9EZXZlbG9wbWVudCBhbmQg
RXZhbHVhdGlvbiAtIE5PVCBGT1IgUFJPRFVDVElPTjBZMBMGByqGSM49AgEGCCqG
SM49AwEHA0IABPFkpVzFH+feItm9JFFm/noge+BlZLpdGWOuSUvfoivAzCgPr7Kr
nGd8kUzIyJermePzu2SVQLaEt/7GY8Ha+2ujgYkwgYYwCQYDVR0TBAIwADAOBgNV
HQ8BAf8EBAMCBaAwEwYDVR0lBAwwCgYIKwYBBQUHAwEwHQYDVR0OBBYEFOjucEtX
mj/wQ7npVaMOyDtLU6dUMB8GA1UdIwQYMBaAFNo5o+5ea0sNMlW/75VgGJCv2AcJ
MBQGA1UdEQQNMAuCCWxvY2FsaG9zdDAKBggqhkjOPQQDAgNIADBFAiEA1TACf4eS
g07LRiKhlMgA+6xxztxiZCuV6LakRp7FZdECIFp0rFSiFJdkLEO9IyqYc+zPW770
ta41VMU3u9UQfHxF
-----END CERTIFICATE-----
"#;

const NS: u64 = 1_000_000_000;

#[derive(Clone, Copy, Debug, PartialEq)]
enum Kind {
    User,
    Group,
    Dep,
}

#[derive(Clone, Debug)]
enum Op {
    Delete(usize),
    Revive(usize),
    PurgeRec,
    PurgeTomb,
}

#[derive(Clone, Debug, PartialEq)]
enum St {
    Live,
    Rec,
    Tomb(u64),
    Gone,
}

#[derive(Clone, Debug)]
struct Obs {
    id: usize,
    kind: u64,
    st: St,
    lm: u64,
    member: Vec<u64>,
    rdmo: Vec<u64>,
    refers: Option<u64>,
    casc: Option<u64>,
    dmo: Vec<u64>,
    vis: bool,
    rvis: bool,
    avis: bool,
    arvis: bool,
}

fn ns(d: Duration) -> u64 {
    d.as_nanos() as u64
}

fn open_server(ct: Duration) -> QueryServer {
    let schema_outer = Schema::new().expect("schema");
    let idxmeta = {
        let schema_txn = schema_outer.write();
        schema_txn.reload_idxmeta()
    };
    // path None = in-memory sqlite
    let cfg = BackendConfig::new(None, 1, FsType::Generic, Some(2048));
    let be = Backend::new(cfg, idxmeta, false).expect("be");
    QueryServer::new(be, schema_outer, "example.com".to_string(), ct).expect("qs")
}

struct World {
    uuids: Vec<Uuid>,
    kinds: Vec<Kind>,
}

impl World {
    fn idx(&self, u: &Uuid) -> Option<u64> {
        self.uuids.iter().position(|x| x == u).map(|i| i as u64)
    }
    fn idset<I: Iterator<Item = Uuid>>(&self, it: I) -> Vec<u64> {
        // only references among tracked entries are reported (persons are also members of the
        // built-in dynamic group idm_all_persons, which is never deleted)
        let mut v: Vec<u64> = it.filter_map(|u| self.idx(&u)).collect();
        v.sort();
        v.dedup();
        v
    }
}

fn f_uuid(u: Uuid) -> FC {
    f_eq(Attribute::Uuid, PartialValue::Uuid(u))
}

async fn observe(qs: &QueryServer, w: &World, admin: &Identity) -> Vec<Obs> {
    let mut r = qs.read().await.expect("read");
    let mut out = vec![];
    for (i, u) in w.uuids.iter().enumerate() {
        let all = r.internal_search(filter_all!(f_uuid(*u))).expect("search all");
        assert!(all.len() <= 1, "duplicate uuid");
        let vis = !r.internal_search(filter!(f_uuid(*u))).expect("search").is_empty();
        let rvis = !r.internal_search(filter_rec!(f_uuid(*u))).expect("search rec").is_empty();
        let avis = !r
            .impersonate_search_ext(filter!(f_uuid(*u)), filter!(f_uuid(*u)), admin)
            .expect("admin search")
            .is_empty();
        let arvis = !r
            .impersonate_search_ext(filter_rec!(f_uuid(*u)), filter_rec!(f_uuid(*u)), admin)
            .expect("admin rec search")
            .is_empty();
        let mut o = Obs {
            id: i,
            kind: match w.kinds[i] { Kind::User => 0, Kind::Group => 1, Kind::Dep => 2 },
            st: St::Gone,
            lm: 0,
            member: vec![],
            rdmo: vec![],
            refers: None,
            casc: None,
            dmo: vec![],
            vis,
            rvis,
            avis,
            arvis,
        };
        if let Some(e) = all.first() {
            let tomb = e.attribute_equality(Attribute::Class, &EntryClass::Tombstone.into());
            let rec = e.attribute_equality(Attribute::Class, &EntryClass::Recycled.into());
            o.st = if tomb {
                St::Tomb(ns(e.get_changestate().at().ts))
            } else if rec {
                St::Rec
            } else {
                St::Live
            };
            if rec && !tomb {
                o.lm = e
                    .get_ava_set(Attribute::LastModifiedCid)
                    .and_then(|vs| vs.to_cid_single())
                    .map(|c| ns(c.ts))
                    .unwrap_or(0);
            }
            if let Some(it) = e.get_ava_as_refuuid(Attribute::Member) {
                o.member = w.idset(it);
            }
            if let Some(it) = e.get_ava_as_refuuid(Attribute::RecycledDirectMemberOf) {
                o.rdmo = w.idset(it);
            }
            if let Some(it) = e.get_ava_as_refuuid(Attribute::DirectMemberOf) {
                o.dmo = w.idset(it);
            }
            o.refers = e.get_ava_single_refer(Attribute::Refers).map(|u| w.idx(&u).unwrap_or(999));
            o.casc = e.get_ava_single_uuid(Attribute::CascadeDeleted).map(|u| w.idx(&u).unwrap_or(999));
        }
        out.push(o);
    }
    out
}

fn c_status(s: &St) -> String {
    match s {
        St::Live => "Live".into(),
        St::Rec => "Rec".into(),
        St::Tomb(a) => capp("Tomb", &[cn(*a)]),
        St::Gone => "Gone".into(),
    }
}

fn c_obs(o: &Obs) -> String {
    capp(
        "mkoent",
        &[
            cn(o.id as u64),
            cn(o.kind),
            c_status(&o.st),
            cn(o.lm),
            clist(&o.member, |x| cn(*x)),
            clist(&o.rdmo, |x| cn(*x)),
            copt(&o.refers, |x| cn(*x)),
            copt(&o.casc, |x| cn(*x)),
            clist(&o.dmo, |x| cn(*x)),
            cbool(o.vis),
            cbool(o.rvis),
            cbool(o.avis),
            cbool(o.arvis),
        ],
    )
}

fn t_obs(o: &Obs, base: u64) -> String {
    let st = match &o.st {
        St::Live => "L".to_string(),
        St::Rec => format!("R@{}", o.lm as i128 - base as i128),
        St::Tomb(a) => format!("T@{}", *a as i128 - base as i128),
        St::Gone => "-".to_string(),
    };
    format!(
        "{}{}:{} m{:?} s{:?} r{:?} c{:?} d{:?} v{}{}{}{}",
        ["u", "g", "d"][o.kind as usize],
        o.id,
        st,
        o.member,
        o.rdmo,
        o.refers,
        o.casc,
        o.dmo,
        o.vis as u8,
        o.rvis as u8,
        o.avis as u8,
        o.arvis as u8
    )
}

fn err_code(e: &OperationError) -> u64 {
    match e {
        OperationError::NoMatchingEntries => 1,
        OperationError::SchemaViolation(_) => 2,
        OperationError::Plugin(PluginError::ReferentialIntegrity(_)) => 3,
        OperationError::InvalidReplChangeId => 4,
        _ => 7,
    }
}

/// One write transaction. Returns (txn cid ts, result code).
async fn run_op(qs: &QueryServer, w: &World, admin: &Identity, op: &Op, t: u64, log: &mut String) -> (u64, u64) {
    let mut wr = match qs.write(Duration::from_nanos(t)).await {
        Ok(wr) => wr,
        Err(e) => return (0, err_code(&e)),
    };
    let cid = ns(wr.verif_cid().ts);
    let res: Result<Result<(), OperationError>, _> = std::panic::catch_unwind(AssertUnwindSafe(|| match op {
        Op::Delete(i) => wr.internal_delete_uuid(w.uuids[*i]),
        Op::Revive(i) => {
            // the real API path of the recycle-bin revive (actors: handle_reviverecycled):
            // from_parts validates the filter and wraps it in the recycled-only filter
            let re = ReviveRecycledEvent::from_parts(admin.clone(), &filter_all!(f_uuid(w.uuids[*i])), &wr)?;
            wr.revive_recycled(&re)
        }
        Op::PurgeRec => wr.purge_recycled().map(|_| ()),
        Op::PurgeTomb => wr.purge_tombstones().map(|_| ()),
    }));
    match res {
        Ok(Ok(())) => match wr.commit() {
            Ok(()) => (cid, 0),
            Err(e) => {
                log.push_str(&format!(" commit-err={:?}", e));
                (cid, 8)
            }
        },
        Ok(Err(e)) => {
            let c = err_code(&e);
            if c == 7 {
                log.push_str(&format!(" err={:?}", e));
            }
            drop(wr);
            (cid, c)
        }
        Err(_) => {
            log.push_str(" PANIC");
            drop(wr);
            (cid, 9)
        }
    }
}

fn c_op(op: &Op) -> String {
    match op {
        Op::Delete(i) => capp("ODelete", &[cn(*i as u64)]),
        Op::Revive(i) => capp("ORevive", &[cn(*i as u64)]),
        Op::PurgeRec => "OPurgeRec".into(),
        Op::PurgeTomb => "OPurgeTomb".into(),
    }
}

/// `--probe`: the minimal scenario of the refuted statement on the real server, with the server's
/// own consistency checker (QueryServer::verify) as a second witness. Prints to stderr only.
fn probe(rt: &tokio::runtime::Runtime) {
    let t0: u64 = 1_700_000_000 * NS;
    let qs = open_server(Duration::from_nanos(t0));
    rt.block_on(qs.initialise_helper(Duration::from_nanos(t0), DOMAIN_TGT_LEVEL)).expect("init");
    let admin = rt.block_on(async {
        let mut r = qs.read().await.expect("read");
        Identity::from_impersonate_entry_readwrite(r.internal_search_uuid(UUID_ADMIN).expect("admin"))
    });
    let u = Uuid::from_u128(0xc26c_26c2_ffff_0000_0000_0000_0000_0001u128);
    let g = Uuid::from_u128(0xc26c_26c2_ffff_0000_0000_0000_0000_0002u128);
    let w = World { uuids: vec![u, g], kinds: vec![Kind::User, Kind::Group] };
    let eu: Entry<EntryInit, EntryNew> = kanidmd_lib::entry_init!(
        (Attribute::Class, EntryClass::Object.to_value()),
        (Attribute::Class, EntryClass::Account.to_value()),
        (Attribute::Class, EntryClass::Person.to_value()),
        (Attribute::Name, Value::new_iname("c26probeuser")),
        (Attribute::DisplayName, Value::new_utf8s("c26 probe")),
        (Attribute::Uuid, Value::Uuid(u))
    );
    let eg: Entry<EntryInit, EntryNew> = kanidmd_lib::entry_init!(
        (Attribute::Class, EntryClass::Object.to_value()),
        (Attribute::Class, EntryClass::Group.to_value()),
        (Attribute::Name, Value::new_iname("c26probegroup")),
        (Attribute::Uuid, Value::Uuid(g)),
        (Attribute::Member, Value::Refer(u))
    );
    rt.block_on(async {
        let mut wr = qs.write(Duration::from_nanos(t0 + 10 * NS)).await.expect("write");
        wr.internal_create(vec![eu, eg]).expect("create");
        wr.commit().expect("commit");
    });
    let show = |label: &str| {
        let o = rt.block_on(observe(&qs, &w, &admin));
        let v = rt.block_on(qs.verify());
        eprintln!("PROBE {}: {} | verify() -> {:?}", label, o.iter().map(|x| t_obs(x, t0)).collect::<Vec<_>>().join(" "), v);
    };
    show("created          ");
    let mut t = t0 + 20 * NS;
    for (label, op) in [
        ("delete group     ", Op::Delete(1)),
        ("revive group     ", Op::Revive(1)),
        ("delete person    ", Op::Delete(0)),
        ("revive person    ", Op::Revive(0)),
    ] {
        let mut log = String::new();
        let r = rt.block_on(run_op(&qs, &w, &admin, &op, t, &mut log));
        t += 10 * NS;
        show(&format!("{} -> {}{}", label, r.1, log));
    }
}

fn main() {
    let args = parse_args();
    let mut rng = Rng::new(args.seed);
    let mut sink = Sink::new(&args, "KV.C26.Model", 10);
    sink.rule = "random histories (len 6..16 quick / 6..28 thorough) of delete / revive (as `admin`, a recycle bin admin, through \
ReviveRecycledEvent::from_parts) / purge_recycled / purge_tombstones over 1-3 persons, 1-3 flat groups (members: \
persons and dependents) and 0-3 ClientCertificate dependents (Refers -> person or group) on a real in-memory QueryServer, one \
write transaction per op; times: 45% an earlier transaction time + RECYCLEBIN_MAX_AGE / CHANGELOG_MAX_AGE + {-1s,-1ns,0,+1ns,+1s}, \
40% small steps, 10% clock regression, 5% +8 days; full read-back of every tracked entry after every transaction. \
non-trivial = the history contains a committed revive AND a recycled->tombstone transition AND (a cascade delete or a stashed membership)"
        .into();
    let rt = tokio::runtime::Builder::new_current_thread().enable_all().build().expect("rt");
    if args.extra.iter().any(|a| a == "--probe") {
        probe(&rt);
        return;
    }

    let r_ns: u64 = RECYCLEBIN_MAX_AGE * NS;
    let c_ns: u64 = CHANGELOG_MAX_AGE * NS;
    let t_start: u64 = 1_700_000_000 * NS;

    let n_hist = if args.thorough { 1200 } else { 120 };
    let max_len = if args.thorough { 28 } else { 16 };
    let per_server = 40;

    let mut qs_opt: Option<(QueryServer, Identity)> = None;
    for hid in 0..n_hist {
        if hid % per_server == 0 {
            drop(qs_opt.take());
            let qs = open_server(Duration::from_nanos(t_start));
            rt.block_on(qs.initialise_helper(Duration::from_nanos(t_start), DOMAIN_TGT_LEVEL)).expect("init");
            let admin = rt.block_on(async {
                let mut r = qs.read().await.expect("read");
                let e = r.internal_search_uuid(UUID_ADMIN).expect("admin");
                Identity::from_impersonate_entry_readwrite(e)
            });
            qs_opt = Some((qs, admin));
        }
        let (qs, admin) = qs_opt.as_ref().expect("server");

        // ---- population
        let nu = rng.range(1, 3) as usize;
        let ng = rng.range(1, 3) as usize;
        let nd = rng.range(0, 3) as usize;
        let mut kinds = vec![];
        kinds.extend(std::iter::repeat(Kind::User).take(nu));
        kinds.extend(std::iter::repeat(Kind::Group).take(ng));
        kinds.extend(std::iter::repeat(Kind::Dep).take(nd));
        let n = kinds.len();
        let uuids: Vec<Uuid> = (0..n)
            .map(|i| Uuid::from_u128(0xc26c_26c2_0000_0000_0000_0000_0000_0000u128 + ((hid as u128) << 16) + i as u128))
            .collect();
        let w = World { uuids, kinds };
        // members: a group may contain users and deps
        let mut members: Vec<Vec<usize>> = vec![vec![]; n];
        for g in nu..nu + ng {
            for m in 0..n {
                let eligible = match w.kinds[m] {
                    Kind::User => rng.chance(3, 5),
                    // flat groups only: the Coq model covers memberof's DirectMemberOf recomputation, not
                    // the transitive MemberOf propagation that nested groups would add
                    Kind::Group => false,
                    Kind::Dep => rng.chance(1, 4),
                };
                if eligible {
                    members[g].push(m);
                }
            }
        }
        let mut refers: Vec<Option<usize>> = vec![None; n];
        for d in nu + ng..n {
            refers[d] = Some(rng.below((nu + ng) as u64) as usize);
        }
        let mut ents: Vec<Entry<EntryInit, EntryNew>> = vec![];
        for i in 0..n {
            let mut e: Entry<EntryInit, EntryNew> = match w.kinds[i] {
                Kind::User => kanidmd_lib::entry_init!(
                    (Attribute::Class, EntryClass::Object.to_value()),
                    (Attribute::Class, EntryClass::Account.to_value()),
                    (Attribute::Class, EntryClass::Person.to_value()),
                    (Attribute::Name, Value::new_iname(&format!("c26h{}u{}", hid, i))),
                    (Attribute::DisplayName, Value::new_utf8s("c26 person")),
                    (Attribute::Uuid, Value::Uuid(w.uuids[i]))
                ),
                Kind::Group => kanidmd_lib::entry_init!(
                    (Attribute::Class, EntryClass::Object.to_value()),
                    (Attribute::Class, EntryClass::Group.to_value()),
                    (Attribute::Name, Value::new_iname(&format!("c26h{}g{}", hid, i))),
                    (Attribute::Uuid, Value::Uuid(w.uuids[i]))
                ),
                Kind::Dep => kanidmd_lib::entry_init!(
                    (Attribute::Class, EntryClass::Object.to_value()),
                    (Attribute::Class, EntryClass::ClientCertificate.to_value()),
                    (Attribute::Uuid, Value::Uuid(w.uuids[i])),
                    (Attribute::Refers, Value::Refer(w.uuids[refers[i].expect("ref")])),
                    (Attribute::Certificate, Value::new_certificate_s(CERT).expect("cert"))
                ),
            };
            for m in &members[i] {
                e.add_ava(Attribute::Member, Value::Refer(w.uuids[*m]));
            }
            ents.push(e);
        }
        // ---- create at a fresh time
        let mut nowt = ns(qs.verif_cid_max());
        let t_create = nowt + 100 * NS;
        rt.block_on(async {
            let mut wr = qs.write(Duration::from_nanos(t_create)).await.expect("write");
            wr.internal_create(ents).expect("create population");
            wr.commit().expect("commit");
        });
        nowt = ns(qs.verif_cid_max());
        assert_eq!(nowt, t_create);
        let base = t_create;
        let init = rt.block_on(observe(qs, &w, admin));

        // ---- ops
        let len = rng.range(6, max_len) as usize;
        let mut marks: Vec<u64> = vec![t_create];
        let mut cur = init.clone();
        let mut steps_coq = vec![];
        let mut txt = format!(
            "hist n={} (u{} g{} d{}) init: {}",
            n,
            nu,
            ng,
            nd,
            init.iter().map(|o| t_obs(o, base)).collect::<Vec<_>>().join(" ")
        );
        let (mut saw_revive, mut saw_tomb, mut saw_casc, mut saw_stash, mut saw_gone) = (false, false, false, false, false);
        for _ in 0..len {
            // choose op
            let live: Vec<usize> = (0..n).filter(|i| cur[*i].st == St::Live).collect();
            let recs: Vec<usize> = (0..n).filter(|i| cur[*i].st == St::Rec).collect();
            let k = rng.below(100);
            let op = if k < 34 {
                if !live.is_empty() && rng.chance(5, 6) { Op::Delete(*rng.pick(&live)) } else { Op::Delete(rng.below(n as u64) as usize) }
            } else if k < 58 {
                if !recs.is_empty() && rng.chance(5, 6) { Op::Revive(*rng.pick(&recs)) } else { Op::Revive(rng.below(n as u64) as usize) }
            } else if k < 80 {
                Op::PurgeRec
            } else {
                Op::PurgeTomb
            };
            // choose time
            let k = rng.below(100);
            let t = if k < 45 {
                // around a window after a recent mark
                let lo = marks.len().saturating_sub(5);
                let m = marks[lo + rng.below((marks.len() - lo) as u64) as usize];
                let wdw = if rng.chance(1, 2) { r_ns } else { c_ns };
                let delta: i64 = *rng.pick(&[-(NS as i64), -1, 0, 1, NS as i64]);
                ((m + wdw) as i64 + delta) as u64
            } else if k < 85 {
                nowt + *rng.pick(&[1u64, 1, NS, 60 * NS, 86_400 * NS, 3 * 86_400 * NS])
            } else if k < 95 {
                nowt - *rng.pick(&[0u64, 1, 5 * NS, 86_400 * NS])
            } else {
                nowt + 8 * 86_400 * NS
            };
            let mut log = String::new();
            let (cid, code) = rt.block_on(run_op(qs, &w, admin, &op, t, &mut log));
            let post = rt.block_on(observe(qs, &w, admin));
            nowt = ns(qs.verif_cid_max());
            if code == 0 {
                marks.push(cid);
            }
            for i in 0..n {
                if cur[i].st == St::Rec && matches!(post[i].st, St::Tomb(_)) { saw_tomb = true; }
                if matches!(cur[i].st, St::Tomb(_)) && post[i].st == St::Gone { saw_gone = true; }
                if cur[i].st == St::Live && post[i].st == St::Rec {
                    if post[i].casc.is_some() { saw_casc = true; }
                    if !post[i].rdmo.is_empty() { saw_stash = true; }
                }
            }
            if code == 0 && matches!(op, Op::Revive(_)) { saw_revive = true; }
            sink.bump(match (&op, code) {
                (Op::Delete(_), 0) => "delete_ok",
                (Op::Delete(_), _) => "delete_refused",
                (Op::Revive(_), 0) => "revive_ok",
                (Op::Revive(_), 1) => "revive_nomatch",
                (Op::Revive(_), 2) => "revive_schema",
                (Op::Revive(_), 3) => "revive_refint",
                (Op::Revive(_), _) => "revive_other",
                (Op::PurgeRec, _) => "purge_recycled",
                (Op::PurgeTomb, _) => "purge_tombstones",
            });
            let _ = std::fmt::Write::write_fmt(
                &mut txt,
                format_args!(
                    " | {:?}@{}(cid {})->{}{}: {}",
                    op,
                    t as i128 - base as i128,
                    cid as i128 - base as i128,
                    code,
                    log,
                    post.iter().map(|o| t_obs(o, base)).collect::<Vec<_>>().join(" ")
                ),
            );
            steps_coq.push(capp(
                "OStep",
                &[c_op(&op), cn(t), cn(cid), cn(code), clist(&post, c_obs)],
            ));
            cur = post;
        }
        if saw_tomb { sink.bump("hist_with_tombstone"); }
        if saw_gone { sink.bump("hist_with_reap"); }
        if saw_casc { sink.bump("hist_with_cascade"); }
        if saw_stash { sink.bump("hist_with_stash"); }
        sink.case(
            capp("CHist", &[cn(r_ns), cn(c_ns), cn(t_create), clist(&init, c_obs), clist_s(&steps_coq)]),
            txt,
            saw_revive && saw_tomb && (saw_casc || saw_stash),
        );
    }
    drop(qs_opt);
    sink.finish();
}
