//! C25 — default roles cannot act on high-privilege accounts.
//!
//! Model DATA is regenerated from the running code: `c25 --dump` initialises a fresh in-memory
//! server, reads the modify / create / delete access control profiles it has LOADED (receiver
//! groups, target filter resolved as `resolve_access_conditions` resolves it, attribute and class
//! sets), the sync agreements and the memberof of every group entry (built-in role nesting as
//! computed by the real memberof plugin), and writes them as `/verif/coq/C25/Builtin.v`. The
//! theorems of KV.C25 are proved about that file.
//!
//! Every normal run
//!  * regenerates the same text and compares it with the file on disk (stat `data_file_same`),
//!  * emits one `CData` case carrying the freshly dumped data, which Coq compares term by term
//!    with `Builtin.builtin` / `Builtin.nesting` (agree) and on which it evaluates the property's
//!    decidable criterion (pcheck),
//!  * populates the server with acting persons holding every single built-in role group and random
//!    subsets (plus custom groups nested in / outside the high-privilege group), target persons /
//!    service accounts / groups that are and are not high-privilege (direct, through a role group,
//!    through a custom group), with and without entry managers (high-privilege and not), and the
//!    built-in admin accounts and groups; then for actor x target pairs asks the LIVE access controls
//!    (`modify_allow_operation` / `delete_allow_operation` of the server's own AccessControls) for a
//!    verdict on every credential-, session-, detail- and membership-bearing attribute (
//!    `CPair`), and runs real `modify` operations as the acting user in a never committed write
//!    transaction (`CSrv`).
use kanidmd_lib::entry::{Entry, EntryCommitted, EntryInit, EntryNew, EntrySealed};
type EntrySealedCommitted = Entry<EntrySealed, EntryCommitted>;
use kanidmd_lib::event::{DeleteEvent, ModifyEvent};
use kanidmd_lib::filter::{f_eq, FilterResolved};
use kanidmd_lib::filter_all;
use kanidmd_lib::modify::{Modify, ModifyList};
use kanidmd_lib::prelude::*;
use kanidmd_lib::server::identity::AccessScope;
use kanidmd_lib::testkit::{setup_test, TestConfiguration};
use kanidmd_lib::verif_hooks::c24 as hook24;
use kanidmd_lib::verif_hooks::c25 as hook;
use kanidmd_lib::verif_hooks::c25::{HookDump, HookDumpAcp, HookReceiver};
use kvh::*;
use std::collections::{BTreeMap, BTreeSet};
use std::fmt::Write as _;
use std::panic::AssertUnwindSafe;
use std::sync::Arc;

const BUILTIN_V: &str = "/verif/coq/C25/Builtin.v";

// ------------------------------------------------------------------ tables (same order as KV.C24.Model)
fn attr_table() -> Vec<Attribute> {
    vec![
        Attribute::Class,
        Attribute::Uuid,
        Attribute::Name,
        Attribute::DisplayName,
        Attribute::Description,
        Attribute::Member,
        Attribute::MemberOf,
        Attribute::EntryManagedBy,
        Attribute::SyncParentUuid,
        Attribute::Mail,
        Attribute::May,
        Attribute::Must,
        Attribute::BadlistPassword,
        Attribute::DomainSsid,
        Attribute::DomainLdapBasedn,
        Attribute::LdapMaxQueryableAttrs,
        Attribute::LdapAllowUnixPwBind,
        Attribute::FernetPrivateKeyStr,
        Attribute::Es256PrivateKeyDer,
        Attribute::KeyActionRevoke,
        Attribute::KeyActionRotate,
        Attribute::IdVerificationEcKey,
        Attribute::DeniedName,
        Attribute::DomainDisplayName,
        Attribute::Image,
        Attribute::DomainAllowEasterEggs,
        Attribute::DomainAllowAccountRecovery,
        Attribute::AccountExpire,
        Attribute::AccountValidFrom,
        Attribute::SshPublicKey,
        Attribute::UserAuthTokenSession,
        Attribute::OAuth2Session,
        Attribute::PrimaryCredential,
        Attribute::ApiTokenSession,
        Attribute::AuthSessionExpiry,
        Attribute::AuthPasswordMinimumLength,
        Attribute::CredentialTypeMinimum,
        Attribute::PrivilegeExpiry,
        Attribute::WebauthnAttestationCaList,
        Attribute::LimitSearchMaxResults,
        Attribute::LimitSearchMaxFilterTest,
        Attribute::AllowPrimaryCredFallback,
        Attribute::OAuth2ConsentScopeMap,
        Attribute::CredentialUpdateIntentToken,
        Attribute::GidNumber,
        Attribute::LegalName,
        Attribute::LoginShell,
        Attribute::OAuth2RsScopeMap,
        Attribute::OAuth2RsSupScopeMap,
        Attribute::OAuth2JwtLegacyCryptoEnable,
        Attribute::OAuth2PreferShortUsername,
        Attribute::OAuth2RsClaimMap,
        Attribute::OAuth2RsOrigin,
        Attribute::OAuth2RsOriginLanding,
        Attribute::OAuth2ConsentPromptEnable,
        Attribute::DeleteAfter,
        Attribute::MailDestination,
        Attribute::MessageTemplate,
        Attribute::SendAfter,
        Attribute::RadiusSecret,
        Attribute::UnixPassword,
        Attribute::Spn,
    ]
}
fn class_table() -> Vec<EntryClass> {
    vec![
        EntryClass::Object,
        EntryClass::System,
        EntryClass::DomainInfo,
        EntryClass::SystemInfo,
        EntryClass::SystemConfig,
        EntryClass::DynGroup,
        EntryClass::SyncObject,
        EntryClass::Tombstone,
        EntryClass::Recycled,
        EntryClass::ClassType,
        EntryClass::Account,
        EntryClass::ServiceAccount,
        EntryClass::Group,
        EntryClass::Person,
        EntryClass::MemberOf,
        EntryClass::PosixAccount,
        EntryClass::PosixGroup,
        EntryClass::AccountPolicy,
        EntryClass::OAuth2ResourceServer,
        EntryClass::OAuth2ResourceServerBasic,
        EntryClass::OAuth2ResourceServerPublic,
        EntryClass::KeyObject,
        EntryClass::KeyObjectInternal,
        EntryClass::KeyObjectHkdfS256,
        EntryClass::KeyObjectJwtEs256,
        EntryClass::KeyObjectJwtHs256,
        EntryClass::KeyObjectJwtRs256,
        EntryClass::KeyObjectJweA128GCM,
        EntryClass::OutboundMessage,
        EntryClass::AccountSignupRequest,
        EntryClass::AttributeType,
        EntryClass::ExtensibleObject,
        EntryClass::SyncAccount,
    ]
}
/// credential / session bearing attributes outside the C24 table that KV.C25.Model.SENSITIVE names
fn sensitive_extra() -> Vec<Attribute> {
    vec![
        Attribute::PassKeys,
        Attribute::AttestedPasskeys,
        Attribute::ApplicationPassword,
        Attribute::AccountSoftlockExpire,
        Attribute::OAuth2AccountCredentialUuid,
        Attribute::UnixPasswordImport,
        Attribute::PasswordImport,
        Attribute::TotpImport,
    ]
}
const A_CLASS: u64 = 0;
const A_UUID: u64 = 1;
const A_MEMBER: u64 = 5;
const A_MEMBEROF: u64 = 6;
const A_EMB: u64 = 7;
const A_SYNCPARENT: u64 = 8;

/// the uuid the dump identity carries: `Eq(uuid, SENTINEL)` in a resolved target is SelfUuid
const SENTINEL: u128 = 0x0000_0000_0000_0000_00c2_5000_0000_0001;

fn u64_of(u: Uuid) -> u64 {
    let n = u.as_u128();
    assert!(n < (1u128 << 63), "uuid {u} does not fit the harness number range");
    n as u64
}
fn uu(n: u64) -> Uuid {
    Uuid::from_u128(n as u128)
}

/// attribute / class numbering: the C24 tables, then (1000+) the names met in the dumped profiles
/// in sorted order (so the generated file is deterministic), then (5000+) run-local names that
/// only occur on entries and in requests.
struct Tab {
    attrs: Vec<Attribute>,
    classes: Vec<String>,
    xattrs: Vec<Attribute>,
    xclasses: Vec<String>,
    lattrs: std::cell::RefCell<Vec<String>>,
    lclasses: std::cell::RefCell<Vec<String>>,
}
impl Tab {
    fn new(d: &HookDump) -> Self {
        let attrs = attr_table();
        let classes: Vec<String> = class_table()
            .into_iter()
            .map(|c| {
                let s: &str = c.into();
                s.to_string()
            })
            .collect();
        let mut xa: BTreeMap<String, Attribute> = BTreeMap::new();
        let mut xc: BTreeSet<String> = BTreeSet::new();
        let mut see_attr = |a: &Attribute| {
            if !attrs.contains(a) {
                xa.insert(a.as_str().to_string(), a.clone());
            }
        };
        fn walk(f: &FilterResolved, sa: &mut dyn FnMut(&Attribute), sc: &mut dyn FnMut(&str)) {
            match f {
                FilterResolved::Eq(a, v, _) => {
                    sa(a);
                    if *a == Attribute::Class {
                        if let Some(s) = v.to_str() {
                            sc(s)
                        }
                    }
                }
                FilterResolved::Cnt(a, _, _)
                | FilterResolved::Stw(a, _, _)
                | FilterResolved::Enw(a, _, _)
                | FilterResolved::LessThan(a, _, _)
                | FilterResolved::Pres(a, _)
                | FilterResolved::Invalid(a) => sa(a),
                FilterResolved::Or(l, _) | FilterResolved::And(l, _) | FilterResolved::Inclusion(l, _) => {
                    l.iter().for_each(|g| walk(g, sa, sc))
                }
                FilterResolved::AndNot(g, _) => walk(g, sa, sc),
            }
        }
        let mut see_class = |c: &str| {
            if !classes.iter().any(|k| k == c) {
                xc.insert(c.to_string());
            }
        };
        for a in d.modify.iter().chain(d.create.iter()).chain(d.delete.iter()) {
            a.s1.iter().chain(a.s2.iter()).for_each(&mut see_attr);
            a.c1.iter().chain(a.c2.iter()).for_each(|c| see_class(c));
            if let Some(f) = &a.target {
                walk(f, &mut see_attr, &mut see_class);
            }
        }
        for (_, l) in &d.sync {
            l.iter().for_each(&mut see_attr);
        }
        // credential-bearing attributes the model's statement names: always in the table
        sensitive_extra().iter().for_each(&mut see_attr);
        // every attribute / class the request tables mention
        for r in requests(true).iter().flatten() {
            match r {
                Req::Present(a) | Req::Purged(a) | Req::Removed(a) => see_attr(a),
                Req::PresentClass(c) | Req::RemovedClass(c) => see_class(c),
            }
        }
        Tab {
            attrs,
            classes,
            xattrs: xa.into_values().collect(),
            xclasses: xc.into_iter().collect(),
            lattrs: Default::default(),
            lclasses: Default::default(),
        }
    }
    fn attr_id(&self, a: &Attribute) -> u64 {
        if let Some(k) = self.attrs.iter().position(|x| x == a) {
            return k as u64;
        }
        if let Some(k) = self.xattrs.iter().position(|x| x == a) {
            return 1000 + k as u64;
        }
        let mut l = self.lattrs.borrow_mut();
        let n = a.as_str().to_string();
        if let Some(k) = l.iter().position(|x| *x == n) {
            return 5000 + k as u64;
        }
        l.push(n);
        5000 + (l.len() - 1) as u64
    }
    fn class_id(&self, c: &str) -> u64 {
        if let Some(k) = self.classes.iter().position(|x| x == c) {
            return k as u64;
        }
        if let Some(k) = self.xclasses.iter().position(|x| x == c) {
            return 1000 + k as u64;
        }
        let mut l = self.lclasses.borrow_mut();
        if let Some(k) = l.iter().position(|x| x == c) {
            return 5000 + k as u64;
        }
        l.push(c.to_string());
        5000 + (l.len() - 1) as u64
    }
    fn is_refer(a: u64) -> bool {
        a == A_MEMBER || a == A_MEMBEROF || a == A_EMB || a == A_SYNCPARENT
    }
}

// ------------------------------------------------------------------ model-side data
#[derive(Clone, Debug)]
enum TF {
    Eq(u64, u64),
    Pres(u64),
    SelfU,
    And(Vec<TF>),
    Or(Vec<TF>),
    Not(Box<TF>),
}
fn c_tf(f: &TF) -> String {
    match f {
        TF::Eq(a, v) => format!("(TEq {a} {v})"),
        TF::Pres(a) => format!("(TPres {a})"),
        TF::SelfU => "TSelf".into(),
        TF::And(l) => format!("(TAnd {})", clist(l, c_tf)),
        TF::Or(l) => format!("(TOr {})", clist(l, c_tf)),
        TF::Not(g) => format!("(TNot {})", c_tf(g)),
    }
}
fn nl(v: &[u64]) -> String {
    clist(v, |x| x.to_string())
}
/// a resolved target as a model filter; `Err` names the construct the model has no reading for
fn tf_of(t: &Tab, f: &FilterResolved) -> Result<TF, String> {
    Ok(match f {
        FilterResolved::Eq(a, v, _) => {
            let id = t.attr_id(a);
            match v {
                PartialValue::Uuid(u) if id == A_UUID => {
                    if u.as_u128() == SENTINEL {
                        TF::SelfU
                    } else {
                        TF::Eq(id, u64_of(*u))
                    }
                }
                PartialValue::Refer(u) if Tab::is_refer(id) => TF::Eq(id, u64_of(*u)),
                PartialValue::Iutf8(s) if id == A_CLASS => TF::Eq(id, t.class_id(s)),
                other => return Err(format!("Eq({a}, {other:?})")),
            }
        }
        FilterResolved::Pres(a, _) => TF::Pres(t.attr_id(a)),
        FilterResolved::And(l, _) => TF::And(l.iter().map(|g| tf_of(t, g)).collect::<Result<_, _>>()?),
        FilterResolved::Or(l, _) => TF::Or(l.iter().map(|g| tf_of(t, g)).collect::<Result<_, _>>()?),
        FilterResolved::AndNot(g, _) => TF::Not(Box::new(tf_of(t, g)?)),
        other => return Err(format!("{other:?}")),
    })
}

struct MAcp {
    name: String,
    coq: String,
}
fn m_acp(t: &Tab, a: &HookDumpAcp) -> Result<MAcp, String> {
    let recv = match &a.receiver {
        HookReceiver::None => "RNone".to_string(),
        HookReceiver::EntryManager => "RManager".to_string(),
        HookReceiver::Group(g) => {
            let mut v: Vec<u64> = g.iter().map(|u| u64_of(*u)).collect();
            v.sort();
            format!("(RGroup {})", nl(&v))
        }
    };
    let target = match &a.target {
        None => "None".to_string(),
        Some(f) => format!("(Some {})", c_tf(&tf_of(t, f).map_err(|e| format!("{}: {e}", a.name))?)),
    };
    let ids = |l: &[Attribute]| {
        let mut v: Vec<u64> = l.iter().map(|x| t.attr_id(x)).collect();
        v.sort();
        v.dedup();
        nl(&v)
    };
    let cids = |l: &[String]| {
        let mut v: Vec<u64> = l.iter().map(|x| t.class_id(x)).collect();
        v.sort();
        v.dedup();
        nl(&v)
    };
    Ok(MAcp {
        name: a.name.clone(),
        coq: format!("(mkA {recv} {target} {} {} {} {})", ids(&a.s1), ids(&a.s2), cids(&a.c1), cids(&a.c2)),
    })
}

/// everything the model is told about the running code
struct Data {
    modify: Vec<MAcp>,
    create: Vec<MAcp>,
    delete: Vec<MAcp>,
    sync: Vec<(u64, Vec<u64>)>,
    /// every group entry of the fresh server: (uuid, name, its memberof as computed by the plugin)
    nesting: Vec<(u64, String, Vec<u64>)>,
}
impl Data {
    fn acps_term(&self) -> String {
        let l = |v: &[MAcp]| clist(v, |a| a.coq.clone());
        let sync: Vec<String> = self.sync.iter().map(|(u, a)| format!("({}, {})", u, nl(a))).collect();
        format!("(mkAcps {} {} {} {})", l(&self.modify), l(&self.create), l(&self.delete), clist_s(&sync))
    }
    fn nesting_term(&self) -> String {
        let v: Vec<String> = self.nesting.iter().map(|(g, _, m)| format!("({}, {})", g, nl(m))).collect();
        clist_s(&v)
    }
}

fn read_data(rt: &tokio::runtime::Runtime, qs: &QueryServer) -> (HookDump, Vec<(u64, String, Vec<u64>)>) {
    let mut rd = rt.block_on(qs.read()).expect("read txn");
    // a user identity whose uuid is the sentinel: SelfUuid resolves to Eq(uuid, SENTINEL)
    let mut e: Entry<EntryInit, EntryNew> = Entry::new();
    e.add_ava(Attribute::Class, EntryClass::Object.to_value());
    e.add_ava(Attribute::Class, EntryClass::Account.to_value());
    e.add_ava(Attribute::Class, EntryClass::Person.to_value());
    e.add_ava(Attribute::Name, Value::new_iname("c25_dump_identity"));
    e.add_ava(Attribute::Uuid, Value::Uuid(Uuid::from_u128(SENTINEL)));
    let ident = Identity::from_impersonate_entry_readwrite(hook24::seal(&e, Uuid::from_u128(SENTINEL)));
    let dump = hook::dump_write_acps(&mut rd, &ident);
    let groups = rd
        .internal_search(filter_all!(f_eq(Attribute::Class, EntryClass::Group.into())))
        .expect("group search");
    let mut nesting: Vec<(u64, String, Vec<u64>)> = groups
        .iter()
        .filter(|g| !g.attribute_equality(Attribute::Class, &EntryClass::Recycled.into()))
        .map(|g| {
            let mut mo: Vec<u64> = g
                .get_ava_refer(Attribute::MemberOf)
                .map(|s| s.iter().map(|u| u64_of(*u)).collect())
                .unwrap_or_default();
            mo.sort();
            let name = g.get_ava_set(Attribute::Name).and_then(|v| v.to_proto_string_single()).unwrap_or_default();
            (u64_of(g.get_uuid()), name, mo)
        })
        .collect();
    nesting.sort();
    (dump, nesting)
}

fn build_data(t: &Tab, d: &HookDump, nesting: Vec<(u64, String, Vec<u64>)>) -> Result<Data, String> {
    // evaluation order is irrelevant to the decision (union / any); sort by name so that the
    // generated text does not depend on the order the server happened to load the profiles in
    let conv = |l: &[HookDumpAcp]| {
        let mut v = l.iter().map(|a| m_acp(t, a)).collect::<Result<Vec<_>, _>>()?;
        v.sort_by(|a, b| a.name.cmp(&b.name));
        Ok::<_, String>(v)
    };
    Ok(Data {
        modify: conv(&d.modify)?,
        create: conv(&d.create)?,
        delete: conv(&d.delete)?,
        sync: d
            .sync
            .iter()
            .map(|(u, l)| {
                let mut v: Vec<u64> = l.iter().map(|a| t.attr_id(a)).collect();
                v.sort();
                (u64_of(*u), v)
            })
            .collect(),
        nesting,
    })
}

/// the text of coq/C25/Builtin.v
fn builtin_v(t: &Tab, d: &Data) -> String {
    let mut s = String::new();
    let _ = writeln!(s, "(* KV.C25.Builtin — GENERATED by `c25 --dump` (harness/src/bin/c25.rs). DO NOT EDIT.");
    let _ = writeln!(s, "   The write access control profiles a freshly initialised kanidm server has LOADED");
    let _ = writeln!(s, "   (server/lib/src/migration_data/dl_1_12/access.rs through server/migrations.rs and");
    let _ = writeln!(s, "   AccessControlModify/Create/Delete::try_from), their target filters resolved as");
    let _ = writeln!(s, "   resolve_access_conditions resolves them, the sync agreements, and the memberof of every");
    let _ = writeln!(s, "   group entry (migration_data/dl_1_12/groups.rs as expanded by the memberof plugin).");
    let _ = writeln!(s, "   Every run of the check regenerates this text from the running code and compares.");
    let _ = writeln!(s, "   Numbers: attributes / classes 0.. = the tables of KV.C24.Model, 1000.. = the names");
    let _ = writeln!(s, "   listed below; uuids = the 128-bit number. *)");
    let _ = writeln!(s, "From Coq Require Import List NArith String.");
    let _ = writeln!(s, "Import ListNotations.");
    let _ = writeln!(s, "Require Import KV.C24.Model.");
    let _ = writeln!(s, "Open Scope N_scope.");
    let _ = writeln!(s);
    let _ = writeln!(s, "(* UUID_IDM_HIGH_PRIVILEGE = 00000000-0000-0000-0000-000000001000 *)");
    let _ = writeln!(s, "Definition HP : N := {}.", u64_of(UUID_IDM_HIGH_PRIVILEGE));
    let _ = writeln!(s);
    let _ = writeln!(s, "Definition extra_attr_names : list (N * string) := [");
    let n = t.xattrs.len();
    for (i, a) in t.xattrs.iter().enumerate() {
        let _ = writeln!(s, "  ({}, \"{}\"%string){}", 1000 + i, a.as_str(), if i + 1 < n { ";" } else { "" });
    }
    let _ = writeln!(s, "].");
    for (i, a) in t.xattrs.iter().enumerate() {
        let _ = writeln!(s, "Definition XA_{} : N := {}.", a.as_str(), 1000 + i);
    }
    let _ = writeln!(s, "Definition extra_class_names : list (N * string) := [");
    let n = t.xclasses.len();
    for (i, c) in t.xclasses.iter().enumerate() {
        let _ = writeln!(s, "  ({}, \"{}\"%string){}", 1000 + i, c, if i + 1 < n { ";" } else { "" });
    }
    let _ = writeln!(s, "].");
    for (i, c) in t.xclasses.iter().enumerate() {
        let _ = writeln!(s, "Definition XK_{} : N := {}.", c, 1000 + i);
    }
    let _ = writeln!(s);
    let mut sect = |title: &str, name: &str, v: &[MAcp]| {
        let _ = writeln!(s, "(* {title}: mkA receiver target s1 s2 c1 c2 *)");
        let _ = writeln!(s, "Definition {name} : list acp := [");
        for (i, a) in v.iter().enumerate() {
            let _ = writeln!(s, "  (* {} *)", a.name);
            let _ = writeln!(s, "  {}{}", a.coq, if i + 1 < v.len() { ";" } else { "" });
        }
        let _ = writeln!(s, "].");
        let _ = writeln!(s);
    };
    sect("modify profiles (s1 = present attrs, s2 = removed attrs, c1 = present classes, c2 = removed classes)", "builtin_modify", &d.modify);
    sect("create profiles (s1 = attrs, c1 = classes)", "builtin_create", &d.create);
    sect("delete profiles", "builtin_delete", &d.delete);
    let sync: Vec<String> = d.sync.iter().map(|(u, a)| format!("({}, {})", u, nl(a))).collect();
    let _ = writeln!(s, "Definition builtin_sync : list (N * list N) := {}.", clist_s(&sync));
    let _ = writeln!(s, "Definition builtin : acps := mkAcps builtin_modify builtin_create builtin_delete builtin_sync.");
    let _ = writeln!(s);
    let _ = writeln!(s, "(* every group entry of the fresh server: (uuid, its memberof) *)");
    let _ = writeln!(s, "Definition nesting : list (N * list N) := [");
    for (i, (g, name, m)) in d.nesting.iter().enumerate() {
        let _ = writeln!(s, "  (* {name} *) ({}, {}){}", g, nl(m), if i + 1 < d.nesting.len() { ";" } else { "" });
    }
    let _ = writeln!(s, "].");
    let _ = writeln!(s, "(* the requests the correspondence run asks a verdict for (harness-chosen inputs; a case lists");
    let _ = writeln!(s, "   the indices of the allowed ones; the harness emits the table again in a CReqs case) *)");
    for (name, th) in [("requests_quick", false), ("requests_thorough", true)] {
        let rs = requests(th);
        let _ = writeln!(s, "Definition {name} : list (list md) := [");
        for (i, r) in rs.iter().enumerate() {
            let _ = writeln!(s, "  (* {} {} *) {}{}", i, r.iter().map(|x| x.label()).collect::<Vec<_>>().join(" & "), clist(r, |x| x.coq(t)), if i + 1 < rs.len() { ";" } else { "" });
        }
        let _ = writeln!(s, "].");
    }
    let _ = writeln!(s, "Definition group_names : list (N * string) := [");
    for (i, (g, name, _)) in d.nesting.iter().enumerate() {
        let _ = writeln!(s, "  ({}, \"{}\"%string){}", g, name, if i + 1 < d.nesting.len() { ";" } else { "" });
    }
    let _ = writeln!(s, "].");
    s
}

// ------------------------------------------------------------------ the populated world
const ANON: u64 = 0x0000_ffff_ffff_ffff;
const G_HP: u64 = 0x1000;
fn actor_uuid(k: u64) -> u64 {
    ANON + 2000 + k
}
fn target_uuid(k: u64) -> u64 {
    ANON + 3000 + k
}
fn custom_uuid(k: u64) -> u64 {
    ANON + 5000 + k
}

#[derive(Clone, Copy, PartialEq)]
enum Kind {
    Person,
    Service,
    Group,
}
struct Spec {
    uuid: u64,
    name: String,
    kind: Kind,
    /// groups this entry is a DIRECT member of
    groups: Vec<u64>,
    manager: Option<u64>,
}

fn mk_entry(s: &Spec) -> Entry<EntryInit, EntryNew> {
    let mut e: Entry<EntryInit, EntryNew> = Entry::new();
    e.add_ava(Attribute::Class, EntryClass::Object.to_value());
    match s.kind {
        Kind::Person => {
            e.add_ava(Attribute::Class, EntryClass::Account.to_value());
            e.add_ava(Attribute::Class, EntryClass::Person.to_value());
            e.add_ava(Attribute::DisplayName, Value::new_utf8s(&s.name));
        }
        Kind::Service => {
            e.add_ava(Attribute::Class, EntryClass::Account.to_value());
            e.add_ava(Attribute::Class, EntryClass::ServiceAccount.to_value());
            e.add_ava(Attribute::DisplayName, Value::new_utf8s(&s.name));
        }
        Kind::Group => {
            e.add_ava(Attribute::Class, EntryClass::Group.to_value());
        }
    }
    e.add_ava(Attribute::Name, Value::new_iname(&s.name));
    e.add_ava(Attribute::Uuid, Value::Uuid(uu(s.uuid)));
    e.add_ava(Attribute::Description, Value::new_utf8s("c25"));
    if let Some(m) = s.manager {
        e.add_ava(Attribute::EntryManagedBy, Value::Refer(uu(m)));
    }
    e
}

struct World {
    actors: Vec<Spec>,
    targets: Vec<u64>,
    names: BTreeMap<u64, String>,
}

fn populate(rt: &tokio::runtime::Runtime, qs: &QueryServer, data: &Data, rng: &mut Rng, thorough: bool) -> World {
    let mut names: BTreeMap<u64, String> = data.nesting.iter().map(|(g, n, _)| (*g, n.clone())).collect();
    let dyn_groups = [u64_of(UUID_IDM_ALL_PERSONS), u64_of(UUID_IDM_ALL_ACCOUNTS)];
    let roles: Vec<u64> = data.nesting.iter().map(|(g, _, _)| *g).filter(|g| !dyn_groups.contains(g)).collect();
    let non_hp_roles: Vec<u64> = data
        .nesting
        .iter()
        .filter(|(g, _, m)| *g != G_HP && !m.contains(&G_HP) && !dyn_groups.contains(g))
        .map(|(g, _, _)| *g)
        .collect();
    let g_idm_admins = u64_of(UUID_IDM_ADMINS);
    let g_system_admins = u64_of(UUID_SYSTEM_ADMINS);
    let g_people_admins = u64_of(UUID_IDM_PEOPLE_ADMINS);
    let g_group_admins = u64_of(UUID_IDM_GROUP_ADMINS);
    let g_service_desk = u64_of(UUID_IDM_SERVICE_DESK);
    let g_self_name = u64_of(UUID_IDM_PEOPLE_SELF_NAME_WRITE);

    // custom groups: plain, member of idm_high_privilege, nested in idm_people_admins, plain
    let customs = vec![
        Spec { uuid: custom_uuid(0), name: "c25_plain".into(), kind: Kind::Group, groups: vec![], manager: None },
        Spec { uuid: custom_uuid(1), name: "c25_hpgrp".into(), kind: Kind::Group, groups: vec![G_HP], manager: Some(g_idm_admins) },
        Spec { uuid: custom_uuid(2), name: "c25_in_people_admins".into(), kind: Kind::Group, groups: vec![g_people_admins], manager: Some(g_idm_admins) },
        Spec { uuid: custom_uuid(3), name: "c25_plain2".into(), kind: Kind::Group, groups: vec![], manager: None },
    ];
    // acting persons
    let mut actors: Vec<Spec> = Vec::new();
    let mut k = 0u64;
    let mut actor = |groups: Vec<u64>, actors: &mut Vec<Spec>| {
        let s = Spec { uuid: actor_uuid(k), name: format!("c25a{k}"), kind: Kind::Person, groups, manager: None };
        k += 1;
        actors.push(s);
    };
    actor(vec![], &mut actors); // no role at all: actor 0 (also a direct entry manager below)
    for c in 0..4 {
        actor(vec![custom_uuid(c)], &mut actors); // actors 1..4
    }
    for r in &roles {
        actor(vec![*r], &mut actors);
    }
    let mut pool_all: Vec<u64> = roles.clone();
    pool_all.extend((0..4).map(custom_uuid));
    let mut pool_low: Vec<u64> = non_hp_roles.clone();
    pool_low.extend([custom_uuid(0), custom_uuid(3)]);
    let n_multi = if thorough { 90 } else { 22 };
    for j in 0..n_multi {
        let pool = if j % 2 == 0 { &pool_low } else { &pool_all };
        let want = rng.range(2, 4) as usize;
        let mut g: Vec<u64> = Vec::new();
        while g.len() < want.min(pool.len()) {
            let x = *rng.pick(pool);
            if !g.contains(&x) {
                g.push(x);
            }
        }
        g.sort();
        actor(g, &mut actors);
    }
    let a0 = actor_uuid(0);
    let a_hp = actor_uuid(2); // member of c25_hpgrp: a high-privilege person
    // targets
    let mut tk = 0u64;
    let mut targets: Vec<Spec> = Vec::new();
    let mut target = |name: &str, kind: Kind, groups: Vec<u64>, manager: Option<u64>, targets: &mut Vec<Spec>| {
        targets.push(Spec { uuid: target_uuid(tk), name: format!("c25t_{name}"), kind, groups, manager });
        tk += 1;
    };
    target("p_plain", Kind::Person, vec![], None, &mut targets);
    target("p_hp_direct", Kind::Person, vec![G_HP], None, &mut targets);
    target("p_hp_idm_admins", Kind::Person, vec![g_idm_admins], None, &mut targets);
    target("p_hp_custom", Kind::Person, vec![custom_uuid(1)], None, &mut targets);
    target("p_hp_service_desk", Kind::Person, vec![g_service_desk], None, &mut targets);
    target("p_low_role", Kind::Person, vec![g_self_name], None, &mut targets);
    target("s_plain", Kind::Service, vec![], None, &mut targets);
    target("s_hp_mgr_hp", Kind::Service, vec![G_HP], Some(g_idm_admins), &mut targets);
    target("s_hp_mgr_plain_group", Kind::Service, vec![g_system_admins], Some(custom_uuid(0)), &mut targets);
    target("s_plain_mgr_plain_group", Kind::Service, vec![], Some(custom_uuid(0)), &mut targets);
    target("s_hp_mgr_plain_person", Kind::Service, vec![G_HP], Some(a0), &mut targets);
    target("s_hp_mgr_hp_custom", Kind::Service, vec![custom_uuid(2)], Some(custom_uuid(1)), &mut targets);
    target("g_plain_mgr_plain_group", Kind::Group, vec![], Some(custom_uuid(3)), &mut targets);
    target("g_hp_mgr_hp", Kind::Group, vec![G_HP], Some(g_idm_admins), &mut targets);
    target("g_hp_mgr_plain_group", Kind::Group, vec![g_group_admins], Some(custom_uuid(3)), &mut targets);
    target("g_plain", Kind::Group, vec![], None, &mut targets);
    target("g_hp_custom_mgr_hp_person", Kind::Group, vec![custom_uuid(1)], Some(a_hp), &mut targets);

    let mut wr = rt.block_on(qs.write(duration_from_epoch_now())).expect("write txn");
    wr.internal_create(customs.iter().map(mk_entry).collect()).expect("create custom groups");
    wr.internal_create(actors.iter().map(mk_entry).collect()).expect("create actors");
    wr.internal_create(targets.iter().map(mk_entry).collect()).expect("create targets");
    // memberships, group by group
    let mut members: BTreeMap<u64, Vec<u64>> = BTreeMap::new();
    for s in customs.iter().chain(actors.iter()).chain(targets.iter()) {
        names.insert(s.uuid, s.name.clone());
        for g in &s.groups {
            members.entry(*g).or_default().push(s.uuid);
        }
    }
    for (g, ms) in &members {
        let ml = ModifyList::new_list(ms.iter().map(|m| Modify::Present(Attribute::Member, Value::Refer(uu(*m)))).collect());
        wr.internal_modify_uuid(uu(*g), &ml).unwrap_or_else(|e| panic!("add members to {g}: {e:?}"));
    }
    wr.commit().expect("commit world");

    let mut tl: Vec<u64> = targets.iter().map(|s| s.uuid).collect();
    // built-in accounts and groups as targets
    for u in [
        UUID_ADMIN,
        UUID_IDM_ADMIN,
        UUID_ANONYMOUS,
        UUID_IDM_ADMINS,
        UUID_SYSTEM_ADMINS,
        UUID_IDM_HIGH_PRIVILEGE,
        UUID_IDM_PEOPLE_ADMINS,
        UUID_IDM_SERVICE_DESK,
        UUID_IDM_PEOPLE_SELF_NAME_WRITE,
        UUID_IDM_ALL_PERSONS,
    ] {
        tl.push(u64_of(u));
    }
    names.insert(u64_of(UUID_ADMIN), "admin".into());
    names.insert(u64_of(UUID_IDM_ADMIN), "idm_admin".into());
    names.insert(u64_of(UUID_ANONYMOUS), "anonymous".into());
    // some actors are targets too (an actor acting on itself and on its peers)
    tl.extend([actor_uuid(0), actor_uuid(1), actor_uuid(2), actor_uuid(3)]);
    World { actors, targets: tl, names }
}

/// KV.C25.Model.LIMITED_ROLES: service desk, people on-boarding, group / service-account /
/// oauth2-account admins
const LIMITED_ROLES: [u64; 5] = [65, 69, 21, 70, 87];
/// KV.C25.Model.limited_user: no high-privilege group other than HP itself and limited-remit roles
fn limited_user(data: &Data, memberof: &[u64]) -> bool {
    memberof.iter().all(|g| {
        let hp_group = *g == G_HP || data.nesting.iter().any(|(k, _, m)| k == g && m.contains(&G_HP));
        !hp_group || *g == G_HP || LIMITED_ROLES.contains(g)
    })
}

// ------------------------------------------------------------------ entries, identities, requests
type MEntry = BTreeMap<u64, BTreeSet<u64>>;
/// the part of a stored entry the model looks at: the attributes of the tables
fn project(t: &Tab, e: &EntrySealedCommitted) -> MEntry {
    let mut m = MEntry::new();
    for a in t.attrs.iter().chain(t.xattrs.iter()) {
        let id = t.attr_id(a);
        let Some(vs) = e.get_ava_set(a) else { continue };
        let mut out = BTreeSet::new();
        if id == A_CLASS {
            for c in vs.as_iutf8_set().expect("class is iutf8") {
                out.insert(t.class_id(c));
            }
        } else if id == A_UUID {
            out.insert(u64_of(e.get_uuid()));
        } else if Tab::is_refer(id) {
            for u in vs.as_refer_set().expect("refer set") {
                out.insert(u64_of(*u));
            }
        } else {
            out.insert(0);
        }
        m.insert(id, out);
    }
    m
}
fn c_entry(e: &MEntry) -> String {
    let v: Vec<String> = e.iter().map(|(a, vs)| format!("({}, {})", a, nl(&vs.iter().cloned().collect::<Vec<_>>()))).collect();
    clist_s(&v)
}
fn set_of(e: &MEntry, a: u64) -> Vec<u64> {
    e.get(&a).map(|s| s.iter().cloned().collect()).unwrap_or_default()
}

#[derive(Clone)]
enum Req {
    Present(Attribute),
    Purged(Attribute),
    Removed(Attribute),
    PresentClass(&'static str),
    RemovedClass(&'static str),
}
impl Req {
    fn label(&self) -> String {
        match self {
            Req::Present(a) => format!("+{}", a.as_str()),
            Req::Purged(a) => format!("!{}", a.as_str()),
            Req::Removed(a) => format!("-{}", a.as_str()),
            Req::PresentClass(c) => format!("+class={c}"),
            Req::RemovedClass(c) => format!("-class={c}"),
        }
    }
    /// the modification, typed loosely: the access code reads attribute names and class values only
    fn real(&self) -> Modify {
        match self {
            Req::Present(a) => Modify::Present(a.clone(), Value::new_utf8s("c25")),
            Req::Purged(a) => Modify::Purged(a.clone()),
            Req::Removed(a) => Modify::Removed(a.clone(), PartialValue::new_utf8s("c25")),
            Req::PresentClass(c) => Modify::Present(Attribute::Class, Value::new_iutf8(c)),
            Req::RemovedClass(c) => Modify::Removed(Attribute::Class, PartialValue::new_iutf8(c)),
        }
    }
    fn coq(&self, t: &Tab) -> String {
        match self {
            Req::Present(a) => format!("(MPresent {} 0)", t.attr_id(a)),
            Req::Purged(a) => format!("(MPurged {})", t.attr_id(a)),
            Req::Removed(a) => format!("(MRemoved {} 0)", t.attr_id(a)),
            Req::PresentClass(c) => format!("(MPresent 0 {})", t.class_id(c)),
            Req::RemovedClass(c) => format!("(MRemoved 0 {})", t.class_id(c)),
        }
    }
}
/// credential-, session-, account-detail- and membership-bearing attributes, and a few others
fn req_attrs() -> Vec<Attribute> {
    let mut v = vec![
        Attribute::PrimaryCredential,
        Attribute::PassKeys,
        Attribute::AttestedPasskeys,
        Attribute::UnixPassword,
        Attribute::RadiusSecret,
        Attribute::SshPublicKey,
        Attribute::ApplicationPassword,
        Attribute::UserAuthTokenSession,
        Attribute::OAuth2Session,
        Attribute::ApiTokenSession,
        Attribute::CredentialUpdateIntentToken,
        Attribute::AccountSoftlockExpire,
        Attribute::OAuth2AccountCredentialUuid,
        Attribute::AccountExpire,
        Attribute::AccountValidFrom,
        Attribute::Name,
        Attribute::DisplayName,
        Attribute::LegalName,
        Attribute::Mail,
        Attribute::Member,
        Attribute::EntryManagedBy,
        Attribute::Description,
        Attribute::GidNumber,
        Attribute::LoginShell,
        Attribute::OAuth2ConsentScopeMap,
        Attribute::CredentialTypeMinimum,
        Attribute::AuthSessionExpiry,
        Attribute::MemberOf,
        Attribute::Uuid,
        Attribute::Spn,
    ];
    v.dedup();
    v
}
fn requests(thorough: bool) -> Vec<Vec<Req>> {
    let mut out: Vec<Vec<Req>> = Vec::new();
    for a in req_attrs() {
        out.push(vec![Req::Present(a.clone())]);
        out.push(vec![Req::Purged(a.clone())]);
        if thorough {
            out.push(vec![Req::Removed(a.clone())]);
        }
    }
    for c in ["posixaccount", "posixgroup", "account_policy", "oauth2_account", "system", "recycled"] {
        out.push(vec![Req::PresentClass(c)]);
    }
    for c in ["posixaccount", "posixgroup", "account_policy", "person"] {
        out.push(vec![Req::RemovedClass(c)]);
    }
    // requests that need two grants at once
    out.push(vec![Req::Purged(Attribute::PrimaryCredential), Req::Purged(Attribute::PassKeys)]);
    out.push(vec![Req::Present(Attribute::Member), Req::Present(Attribute::Description)]);
    out.push(vec![Req::Present(Attribute::DisplayName), Req::Present(Attribute::PrimaryCredential)]);
    out.push(vec![Req::PresentClass("posixaccount"), Req::Present(Attribute::GidNumber)]);
    out.push(vec![Req::Purged(Attribute::RadiusSecret), Req::Purged(Attribute::Mail)]);
    out
}

#[derive(Clone, Copy, Debug, PartialEq)]
enum SRes {
    Ok,
    Denied,
    NoMatch,
    Other,
}
fn classify<T>(r: &Result<T, OperationError>) -> SRes {
    match r {
        Ok(_) => SRes::Ok,
        Err(OperationError::AccessDenied) => SRes::Denied,
        Err(OperationError::NoMatchingEntries) => SRes::NoMatch,
        Err(e) => {
            eprintln!("C25-OTHER-ERROR {e:?}");
            SRes::Other
        }
    }
}
fn main() {
    let args = parse_args();
    let rt = tokio::runtime::Builder::new_current_thread().enable_all().build().expect("rt");
    let qs = rt.block_on(setup_test(TestConfiguration::default()));
    let (dump, nesting) = read_data(&rt, &qs);
    let t = Tab::new(&dump);
    let data = match build_data(&t, &dump, nesting) {
        Ok(d) => d,
        Err(e) => {
            eprintln!("C25: a loaded profile uses a target construct the model has no reading for: {e}");
            std::process::exit(2);
        }
    };
    let text = builtin_v(&t, &data);
    if args.extra.iter().any(|a| a == "--dump") {
        std::fs::create_dir_all("/verif/coq/C25").expect("mkdir");
        std::fs::write(BUILTIN_V, &text).expect("write Builtin.v");
        println!("wrote {BUILTIN_V}: {} modify, {} create, {} delete profiles, {} groups", data.modify.len(), data.create.len(), data.delete.len(), data.nesting.len());
        return;
    }
    let mut rng = Rng::new(args.seed);
    let mut sink = Sink::new(&args, "KV.C25.Model", if args.thorough { 450 } else { 170 });
    sink.rule = "data = the write profiles and group nesting dumped from this run's freshly initialised server (compared inside Coq with the generated KV.C25.Builtin the theorems are about). allow / del / srv = acting persons (one per built-in role group, per custom group [plain, member of idm_high_privilege, nested in idm_people_admins], one without groups, and random 2-4 group subsets, half of them drawn from the non-high-privilege groups only) x targets (persons, service accounts, groups; plain, high-privilege directly / through idm_admins, system_admins, idm_service_desk, idm_group_admins / through a custom group; without manager, managed by a high-privilege group or person, managed by a plain group or person; the built-in admin, idm_admin, anonymous accounts and six built-in groups; four of the actors themselves): verdict of the server's live modify_allow_operation for Present / Purged (thorough: also Removed) of 30 credential-, session-, detail- and membership-bearing attributes, class additions / removals and two-grant requests; of delete_allow_operation; and outcome + target-unchanged of real modify operations as the acting user in a discarded write transaction. non-trivial = the acting user is not in idm_high_privilege (or holds only limited-remit high-privilege roles: service desk, on-boarding, group / service-account / oauth2-account admins), the target is in idm_high_privilege, is another entry and is not managed by the user".into();

    // ---------------- the data of this run
    let same = std::fs::read_to_string(BUILTIN_V).map(|old| old == text).unwrap_or(false);
    sink.bump(if same { "data_file_same" } else { "data_file_DIFFERS" });
    if !same {
        let p = args.out.join("Builtin.v.regenerated");
        let _ = std::fs::write(&p, &text);
        eprintln!("C25: the data regenerated from the running code differs from {BUILTIN_V} (new text in {}); run `c25 --dump` and re-check the proofs", p.display());
    }
    sink.case(
        format!("(CData {} {})%N", data.acps_term(), data.nesting_term()),
        format!("data modify={} create={} delete={} groups={} file_same={}", data.modify.len(), data.create.len(), data.delete.len(), data.nesting.len(), same),
        true,
    );

    let reqs = requests(args.thorough);
    sink.case(
        format!("(CReqs {} {})%N", cbool(args.thorough), clist(&reqs, |r| clist(r, |x| x.coq(&t)))),
        format!("reqs thorough={} n={}", args.thorough, reqs.len()),
        true,
    );

    // ---------------- the populated server
    let world = populate(&rt, &qs, &data, &mut rng, args.thorough);
    let name_of = |u: u64| world.names.get(&u).cloned().unwrap_or_else(|| format!("#{u}"));
    // requests that are also valid for the real `modify` (typed values): index -> modification
    let srv_capable: Vec<usize> = reqs
        .iter()
        .enumerate()
        .filter(|(_, r)| {
            r.len() == 1
                && match &r[0] {
                    Req::Purged(_) | Req::PresentClass(_) | Req::RemovedClass(_) => true,
                    Req::Present(a) => [Attribute::DisplayName, Attribute::Description, Attribute::LegalName, Attribute::Member].contains(a),
                    Req::Removed(_) => false,
                }
        })
        .map(|(k, _)| k)
        .collect();
    let mut srv_jobs: Vec<(usize, u64)> = Vec::new();
    let mut srv_allowed: Vec<(usize, u64, usize)> = Vec::new();
    {
        let mut rd = rt.block_on(qs.read()).expect("read txn");
        let get = |rd: &mut QueryServerReadTransaction<'_>, u: u64| -> Arc<EntrySealedCommitted> {
            rd.internal_search(filter_all!(f_eq(Attribute::Uuid, PartialValue::Uuid(uu(u)))))
                .expect("search")
                .pop()
                .unwrap_or_else(|| panic!("entry {u} missing"))
        };
        let schema_filter = |rd: &QueryServerReadTransaction<'_>, u: u64| {
            filter_all!(f_eq(Attribute::Uuid, PartialValue::Uuid(uu(u)))).validate(rd.get_schema()).expect("filter")
        };
        for (ai, a) in world.actors.iter().enumerate() {
            let ae = get(&mut rd, a.uuid);
            let am = project(&t, &ae);
            let memberof = set_of(&am, A_MEMBEROF);
            let actor_hp = memberof.contains(&G_HP);
            let scope_ro = ai % 11 == 7;
            let ident = Identity::from_impersonate_entry_readwrite(ae.clone());
            let ident = if scope_ro { ident.project_with_scope(AccessScope::ReadOnly) } else { ident };
            let c_ident = format!("(mkI OUser {} {} {})", if scope_ro { "ScRO" } else { "ScRW" }, a.uuid, nl(&memberof));
            let roles: Vec<String> = a.groups.iter().map(|g| name_of(*g)).collect();
            for tu in &world.targets {
                let te = get(&mut rd, *tu);
                let tm = project(&t, &te);
                let target_hp = set_of(&tm, A_MEMBEROF).contains(&G_HP);
                let mgrs = set_of(&tm, A_EMB);
                let is_mgr = mgrs.iter().any(|m| *m == a.uuid || memberof.contains(m));
                let limited = limited_user(&data, &memberof);
                let subject = (!actor_hp || limited) && target_hp && *tu != a.uuid && !is_mgr;
                let tf = schema_filter(&rd, *tu);
                let mut allowed_idx: Vec<u64> = Vec::new();
                let mut allowed: Vec<String> = Vec::new();
                for (k, r) in reqs.iter().enumerate() {
                    let modlist = hook24::valid_modlist(r.iter().map(|x| x.real()).collect());
                    let me = ModifyEvent { ident: ident.clone(), filter: tf.clone(), filter_orig: tf.clone(), modlist };
                    let entries = vec![te.clone()];
                    let v = guarded(AssertUnwindSafe(|| hook::modify_allowed_live(&mut rd, &me, &entries)));
                    // an error or a panic of the access check counts as "allowed": it then has to
                    // satisfy the property
                    let v = match v {
                        Ok(Ok(b)) => b,
                        Ok(Err(e)) => {
                            eprintln!("C25: modify_allow_operation error {e:?}");
                            sink.bump("allow_error_as_allowed");
                            true
                        }
                        Err(p) => {
                            eprintln!("C25: PANIC in modify_allow_operation: {p}");
                            sink.bump("allow_panic_as_allowed");
                            true
                        }
                    };
                    if v {
                        allowed_idx.push(k as u64);
                        allowed.push(r.iter().map(|x| x.label()).collect::<Vec<_>>().join("&"));
                        if !scope_ro && srv_capable.contains(&k) {
                            srv_allowed.push((ai, *tu, k));
                        }
                    }
                }
                let de = DeleteEvent { ident: ident.clone(), filter: tf.clone(), filter_orig: tf.clone() };
                let entries = vec![te.clone()];
                let dv = match guarded(AssertUnwindSafe(|| hook::delete_allowed_live(&mut rd, &de, &entries))) {
                    Ok(Ok(b)) => b,
                    _ => {
                        sink.bump("del_error_as_allowed");
                        true
                    }
                };
                sink.add_stat("modify_verdicts", reqs.len() as u64);
                sink.add_stat("modify_verdicts_allowed", allowed.len() as u64);
                sink.bump(if dv { "delete_allowed" } else { "delete_denied" });
                sink.bump(match (actor_hp, target_hp) {
                    (false, true) => if subject { "pair_lowactor_hptarget_subject" } else { "pair_lowactor_hptarget_manager_or_self" },
                    (false, false) => "pair_lowactor_lowtarget",
                    (true, true) => if subject { "pair_limitedroleactor_hptarget_subject" } else { "pair_hpactor_hptarget" },
                    (true, false) => "pair_hpactor_lowtarget",
                });
                sink.case(
                    format!("(CPair {} {} {} {} {})%N", c_ident, c_entry(&tm), cbool(args.thorough), nl(&allowed_idx), cbool(dv)),
                    format!(
                        "pair actor={} roles=[{}] actor_hp={} scope={} target={} target_hp={} managers=[{}] is_manager={} delete={} modify_allowed=[{}]",
                        a.name,
                        roles.join(","),
                        actor_hp as u8,
                        if scope_ro { "ro" } else { "rw" },
                        name_of(*tu),
                        target_hp as u8,
                        mgrs.iter().map(|m| name_of(*m)).collect::<Vec<_>>().join(","),
                        is_mgr as u8,
                        dv as u8,
                        allowed.join(" ")
                    ),
                    subject,
                );
                if !scope_ro {
                    srv_jobs.push((ai, *tu));
                }
            }
        }
    }

    // ---------------- real modify operations as the acting user (never committed)
    let n_srv = if args.thorough { 2500 } else { 400 };
    let ct = duration_from_epoch_now();
    for j in 0..n_srv {
        let (ai, tu, k) = if j % 2 == 0 && !srv_allowed.is_empty() {
            *rng.pick(&srv_allowed)
        } else {
            let (ai, tu) = *rng.pick(&srv_jobs);
            (ai, tu, *rng.pick(&srv_capable))
        };
        let a = &world.actors[ai];
        let mut wr = rt.block_on(qs.write(ct)).expect("write txn");
        let find = |wr: &mut QueryServerWriteTransaction<'_>, u: u64| -> Option<Arc<EntrySealedCommitted>> {
            wr.internal_search(filter_all!(f_eq(Attribute::Uuid, PartialValue::Uuid(uu(u))))).ok().and_then(|mut v| v.pop())
        };
        let ae = find(&mut wr, a.uuid).expect("actor");
        let before = find(&mut wr, tu).expect("target");
        let am = project(&t, &ae);
        let tm = project(&t, &before);
        let memberof = set_of(&am, A_MEMBEROF);
        let req = &reqs[k][0];
        let m = match req {
            Req::Present(x) if *x == Attribute::Member => Modify::Present(Attribute::Member, Value::Refer(uu(a.uuid))),
            other => other.real(),
        };
        let schema = wr.get_schema();
        let Ok(modlist) = ModifyList::new_list(vec![m]).validate(schema) else {
            sink.bump("srv_skipped_invalid_modlist");
            continue;
        };
        let tf = filter_all!(f_eq(Attribute::Uuid, PartialValue::Uuid(uu(tu)))).validate(schema).expect("filter");
        let ident = Identity::from_impersonate_entry_readwrite(ae.clone());
        let me = ModifyEvent { ident, filter: tf.clone(), filter_orig: tf, modlist };
        // a panic counts as success: it then has to satisfy the property
        let res = guarded(AssertUnwindSafe(|| classify(&wr.modify(&me)))).unwrap_or(SRes::Ok);
        let after = find(&mut wr, tu);
        let unchanged = after.as_deref() == Some(before.as_ref());
        drop(wr);
        let actor_hp = memberof.contains(&G_HP);
        let target_hp = set_of(&tm, A_MEMBEROF).contains(&G_HP);
        let mgrs = set_of(&tm, A_EMB);
        let is_mgr = mgrs.iter().any(|m| *m == a.uuid || memberof.contains(m));
        let subject = (!actor_hp || limited_user(&data, &memberof)) && target_hp && tu != a.uuid && !is_mgr;
        let rs = match res {
            SRes::Ok => "SOk",
            SRes::Denied => "SDenied",
            SRes::NoMatch => "SNoMatch",
            SRes::Other => "SOther",
        };
        sink.bump(&format!("srv_{rs}"));
        sink.case(
            format!("(CSrv (mkI OUser ScRW {} {}) {} [{}] {} {})%N", a.uuid, nl(&memberof), c_entry(&tm), req.coq(&t), rs, cbool(unchanged)),
            format!(
                "srv actor={} roles=[{}] actor_hp={} target={} target_hp={} is_manager={} request={} -> {} unchanged={}",
                a.name,
                a.groups.iter().map(|g| name_of(*g)).collect::<Vec<_>>().join(","),
                actor_hp as u8,
                name_of(tu),
                target_hp as u8,
                is_mgr as u8,
                req.label(),
                rs,
                unchanged as u8
            ),
            subject,
        );
    }
    sink.finish();
}
