//! C23 — searches never disclose what the caller may not read.
//!
//! Per world: a REAL in-memory IdmServer (all built-in access control profiles stay loaded) is
//! populated with random groups (nested, some with an entry manager), persons, a service
//! account, an OAuth2 client with scope maps, an application with a linked group, a sync
//! account with a synchronised person, recycled and tombstoned entries, and 4-8 random search
//! access control profiles (group / entry-manager / no receiver; random target filters incl.
//! SelfUuid; random attribute sets). Then, for several callers (persons read-only/read-write/
//! synchronise scope, service account, anonymous, sync person, the four internal roles, a sync
//! identity) random queries are run through the real `search`, `search_ext`, `exists` and —
//! for anonymous — `LdapServer::do_op` (search, compare).
//!
//! One Coq case = (universe of tracked entries, the LOADED search profiles resolved for the
//! caller as dumped from AccessControls, the caller, the queries with the implementation's
//! answers). Leaf truth of every filter term on every tracked entry is observed with the real
//! `entry_match_no_index`. KV.C23.Model recomputes every answer (`agree`) and checks the
//! answers against the declarative grant rules (`pcheck`).
use kanidmd_lib::entry::{Entry, EntryInit, EntryNew, EntrySealedCommitted};
use kanidmd_lib::filter::{Filter, FilterResolved, FilterValid};
use kanidmd_lib::idm::ldap::LdapServer;
use kanidmd_lib::prelude::*;
use kanidmd_lib::testkit::{setup_idm_test, TestConfiguration};
use kanidmd_lib::verif_hooks::c23::{
    dump_search_acps, ident_internal, ident_synch, ident_user, ldap_bind_anonymous, ldap_compare,
    ldap_search, HookLdapFilter, HookReceiver, HookSearchAcp,
};
use kvh::*;
use std::collections::{BTreeMap, BTreeSet};
use std::sync::Arc;

const BASEDN: &str = "dc=example,dc=com";

// ------------------------------------------------------------------ fixed id tables (= Model.v)
fn fixed_classes() -> Vec<String> {
    let v: Vec<EntryClass> = vec![
        // MIGRATION_ENTRY_CLASSES 0..13
        EntryClass::Object,
        EntryClass::MemberOf,
        EntryClass::DomainInfo,
        EntryClass::OAuth2ResourceServer,
        EntryClass::OAuth2ResourceServerBasic,
        EntryClass::OAuth2ResourceServerPublic,
        EntryClass::Account,
        EntryClass::Person,
        EntryClass::PosixAccount,
        EntryClass::Group,
        EntryClass::DynGroup,
        EntryClass::AccountPolicy,
        EntryClass::PosixGroup,
        EntryClass::ServiceAccount,
        // MIGRATION_IGNORE_CLASSES 14..20
        EntryClass::KeyObject,
        EntryClass::KeyObjectInternal,
        EntryClass::KeyObjectHkdfS256,
        EntryClass::KeyObjectJwtEs256,
        EntryClass::KeyObjectJwtHs256,
        EntryClass::KeyObjectJwtRs256,
        EntryClass::KeyObjectJweA128GCM,
        // 21..
        EntryClass::Application,
        EntryClass::SyncAccount,
        EntryClass::SyncObject,
        EntryClass::Recycled,
        EntryClass::Tombstone,
        EntryClass::ClassType,
        EntryClass::AttributeType,
        EntryClass::AccessControlProfile,
    ];
    v.into_iter()
        .map(|c| {
            let s: &str = c.into();
            s.to_string()
        })
        .collect()
}
fn fixed_attrs() -> Vec<Attribute> {
    vec![
        Attribute::Class,
        Attribute::Uuid,
        Attribute::Name,
        Attribute::DisplayName,
        Attribute::OAuth2RsOriginLanding,
        Attribute::Image,
        Attribute::LinkedGroup,
        Attribute::SyncCredentialPortal,
    ]
}

/// interning tables of one world
struct Tabs {
    uuids: Intern<Uuid>,
    attrs: Intern<String>,
    vals: Intern<String>,
}
impl Tabs {
    fn new() -> Self {
        let mut t = Tabs { uuids: Intern::new(), attrs: Intern::new(), vals: Intern::new() };
        t.uuids.id(&UUID_ANONYMOUS);
        for a in fixed_attrs() {
            t.attrs.id(&a.as_str().to_string());
        }
        for c in fixed_classes() {
            t.vals.id(&format!("{:?}", PartialValue::new_iutf8(&c)));
        }
        t
    }
    fn attr(&mut self, a: &Attribute) -> u64 {
        self.attrs.id(&a.as_str().to_string())
    }
    fn class(&mut self, c: &str) -> u64 {
        self.vals.id(&format!("{:?}", PartialValue::new_iutf8(c)))
    }
    fn val(&mut self, v: &PartialValue) -> u64 {
        self.vals.id(&format!("{:?}", v))
    }
}

// ------------------------------------------------------------------ filters
#[derive(Clone, Copy, Debug, PartialEq, Eq, PartialOrd, Ord)]
enum K {
    Eq,
    Cnt,
    Stw,
    Enw,
    Pres,
    Lt,
}
impl K {
    fn coq(self) -> &'static str {
        match self {
            K::Eq => "KEq",
            K::Cnt => "KCnt",
            K::Stw => "KStw",
            K::Enw => "KEnw",
            K::Pres => "KPres",
            K::Lt => "KLt",
        }
    }
}
/// a filter as the harness generates or dumps it (SelfUuid still symbolic)
#[derive(Clone, Debug)]
enum F {
    Leaf(K, Attribute, PartialValue),
    SelfU,
    Invalid(Attribute),
    And(Vec<F>),
    Or(Vec<F>),
    Inc(Vec<F>),
    Not(Box<F>),
}
type LeafKey = (K, String, String); // kind, attr, value debug
struct LeafSet {
    seen: BTreeSet<LeafKey>,
    leaves: Vec<(K, Attribute, PartialValue)>,
}
impl LeafSet {
    fn new() -> Self {
        LeafSet { seen: BTreeSet::new(), leaves: vec![] }
    }
    fn add(&mut self, k: K, a: &Attribute, v: &PartialValue) {
        let key = (k, a.as_str().to_string(), if k == K::Pres { String::new() } else { format!("{:?}", v) });
        if self.seen.insert(key) {
            self.leaves.push((k, a.clone(), v.clone()));
        }
    }
}

fn to_fc(f: &F) -> FC {
    match f {
        F::Leaf(K::Eq, a, v) => FC::Eq(a.clone(), v.clone()),
        F::Leaf(K::Cnt, a, v) => FC::Cnt(a.clone(), v.clone()),
        F::Leaf(K::Pres, a, _) => FC::Pres(a.clone()),
        F::Leaf(K::Lt, a, v) => FC::LessThan(a.clone(), v.clone()),
        F::Leaf(_, a, _) => FC::Invalid(a.clone()), // Stw/Enw cannot be built through FC (never generated)
        F::SelfU => FC::SelfUuid,
        F::Invalid(a) => FC::Invalid(a.clone()),
        F::And(l) => FC::And(l.iter().map(to_fc).collect()),
        F::Or(l) => FC::Or(l.iter().map(to_fc).collect()),
        F::Inc(l) => FC::Inclusion(l.iter().map(to_fc).collect()),
        F::Not(g) => FC::AndNot(Box::new(to_fc(g))),
    }
}
fn of_resolved(f: &FilterResolved) -> F {
    match f {
        FilterResolved::Eq(a, v, _) => F::Leaf(K::Eq, a.clone(), v.clone()),
        FilterResolved::Cnt(a, v, _) => F::Leaf(K::Cnt, a.clone(), v.clone()),
        FilterResolved::Stw(a, v, _) => F::Leaf(K::Stw, a.clone(), v.clone()),
        FilterResolved::Enw(a, v, _) => F::Leaf(K::Enw, a.clone(), v.clone()),
        FilterResolved::Pres(a, _) => F::Leaf(K::Pres, a.clone(), PartialValue::Bool(true)),
        FilterResolved::LessThan(a, v, _) => F::Leaf(K::Lt, a.clone(), v.clone()),
        FilterResolved::Or(l, _) => F::Or(l.iter().map(of_resolved).collect()),
        FilterResolved::And(l, _) => F::And(l.iter().map(of_resolved).collect()),
        FilterResolved::Invalid(a) => F::Invalid(a.clone()),
        FilterResolved::Inclusion(l, _) => F::Inc(l.iter().map(of_resolved).collect()),
        FilterResolved::AndNot(g, _) => F::Not(Box::new(of_resolved(g))),
    }
}
/// print as a KV.Base.Filter.filt for the caller `me`, collecting the leaves
fn coq_f(f: &F, me: Option<Uuid>, t: &mut Tabs, ls: &mut LeafSet) -> String {
    match f {
        F::Leaf(k, a, v) => {
            ls.add(*k, a, v);
            let vid = if *k == K::Pres { 0 } else { t.val(v) };
            format!("(FLeaf {} {} {} None)", k.coq(), cn(t.attr(a)), cn(vid))
        }
        F::SelfU => {
            let v = PartialValue::Uuid(me.expect("SelfUuid needs a user caller"));
            coq_f(&F::Leaf(K::Eq, Attribute::Uuid, v), me, t, ls)
        }
        F::Invalid(a) => format!("(FInvalid {})", cn(t.attr(a))),
        F::And(l) => format!("(FAnd {} None)", clist(l, |g| coq_f(g, me, t, ls))),
        F::Or(l) => format!("(FOr {} None)", clist(l, |g| coq_f(g, me, t, ls))),
        F::Inc(l) => format!("(FInclusion {} None)", clist(l, |g| coq_f(g, me, t, ls))),
        F::Not(g) => format!("(FAndNot {} None)", coq_f(g, me, t, ls)),
    }
}
// clist takes Fn, but coq_f needs &mut state: a small local variant
fn clist<T, G: FnMut(&T) -> String>(xs: &[T], mut g: G) -> String {
    let v: Vec<String> = xs.iter().map(|x| g(x)).collect();
    clist_s(&v)
}
fn txt_f(f: &F) -> String {
    match f {
        F::Leaf(K::Pres, a, _) => format!("pres({})", a.as_str()),
        F::Leaf(k, a, v) => format!("{:?}({},{:?})", k, a.as_str(), v),
        F::SelfU => "self".into(),
        F::Invalid(a) => format!("invalid({})", a.as_str()),
        F::And(l) => format!("and[{}]", l.iter().map(txt_f).collect::<Vec<_>>().join(" ")),
        F::Or(l) => format!("or[{}]", l.iter().map(txt_f).collect::<Vec<_>>().join(" ")),
        F::Inc(l) => format!("inc[{}]", l.iter().map(txt_f).collect::<Vec<_>>().join(" ")),
        F::Not(g) => format!("not({})", txt_f(g)),
    }
}
fn to_proto(f: &F) -> ProtoFilter {
    match f {
        F::Leaf(K::Eq, a, v) => ProtoFilter::Eq(a.as_str().to_string(), pv_str(v)),
        F::Leaf(K::Cnt, a, v) => ProtoFilter::Cnt(a.as_str().to_string(), pv_str(v)),
        F::Leaf(_, a, _) => ProtoFilter::Pres(a.as_str().to_string()),
        F::SelfU => ProtoFilter::SelfUuid,
        F::Invalid(a) => ProtoFilter::Pres(a.as_str().to_string()),
        F::And(l) | F::Inc(l) => ProtoFilter::And(l.iter().map(to_proto).collect()),
        F::Or(l) => ProtoFilter::Or(l.iter().map(to_proto).collect()),
        F::Not(g) => ProtoFilter::AndNot(Box::new(to_proto(g))),
    }
}
fn pv_str(v: &PartialValue) -> String {
    match v {
        PartialValue::Iutf8(s) | PartialValue::Iname(s) | PartialValue::Utf8(s) => s.clone(),
        PartialValue::Uuid(u) | PartialValue::Refer(u) => u.as_hyphenated().to_string(),
        other => format!("{:?}", other),
    }
}
fn to_ldap(f: &F) -> HookLdapFilter {
    match f {
        F::Leaf(K::Pres, a, _) => HookLdapFilter::Pres(a.as_str().to_string()),
        F::Leaf(_, a, v) => HookLdapFilter::Eq(a.as_str().to_string(), pv_str(v)),
        F::And(l) | F::Inc(l) => HookLdapFilter::And(l.iter().map(to_ldap).collect()),
        F::Or(l) => HookLdapFilter::Or(l.iter().map(to_ldap).collect()),
        F::Not(g) => HookLdapFilter::Not(Box::new(to_ldap(g))),
        F::SelfU | F::Invalid(_) => HookLdapFilter::Pres("class".to_string()),
    }
}

// ------------------------------------------------------------------ the world
#[derive(Clone)]
struct World {
    groups: Vec<(Uuid, String)>,
    persons: Vec<(Uuid, String)>,
    svc: Option<(Uuid, String)>,
    o2: Option<(Uuid, String)>,
    app: Option<(Uuid, String)>,
    sync: Option<(Uuid, String)>,
    sync_person: Option<(Uuid, String)>,
    recycled: Vec<Uuid>,
    tombs: Vec<Uuid>,
    all: Vec<(Uuid, String)>, // every created entry that is tracked (incl. recycled/tombstones)
}

fn uu(world: u64, n: u64) -> Uuid {
    Uuid::from_u128(0xc23c_23c2_0000_4000_8000_0000_0000_0000u128 + ((world as u128) << 16) + n as u128)
}

fn pool_attrs() -> Vec<Attribute> {
    vec![
        Attribute::Class,
        Attribute::Uuid,
        Attribute::Name,
        Attribute::DisplayName,
        Attribute::Spn,
        Attribute::MemberOf,
        Attribute::Member,
        Attribute::EntryManagedBy,
        Attribute::Description,
        Attribute::OAuth2RsOriginLanding,
        Attribute::OAuth2RsScopeMap,
        Attribute::LinkedGroup,
        Attribute::SyncCredentialPortal,
        Attribute::SyncParentUuid,
        Attribute::DirectMemberOf,
    ]
}

struct Gen<'a> {
    rng: &'a mut Rng,
    w: &'a World,
}
impl Gen<'_> {
    fn any_uuid(&mut self) -> Uuid {
        let r = self.rng.below(10);
        if r == 0 {
            UUID_ANONYMOUS
        } else {
            self.rng.pick(&self.w.all).0
        }
    }
    fn group_uuid(&mut self) -> Uuid {
        if self.rng.chance(1, 8) {
            UUID_IDM_ALL_PERSONS
        } else {
            self.rng.pick(&self.w.groups).0
        }
    }
    fn any_name(&mut self) -> String {
        if self.rng.chance(1, 10) {
            "anonymous".to_string()
        } else {
            self.rng.pick(&self.w.all).1.clone()
        }
    }
    fn class_name(&mut self) -> String {
        let cs = [
            "person", "group", "account", "object", "service_account", "oauth2_resource_server",
            "application", "sync_account", "sync_object", "recycled", "tombstone", "memberof",
        ];
        self.rng.pick(&cs).to_string()
    }
    fn leaf(&mut self, allow_self: bool) -> F {
        match self.rng.below(if allow_self { 13 } else { 12 }) {
            0 | 1 => F::Leaf(K::Eq, Attribute::Class, PartialValue::new_iutf8(&self.class_name())),
            2 | 3 => F::Leaf(K::Eq, Attribute::Name, PartialValue::new_iname(&self.any_name())),
            4 => F::Leaf(K::Eq, Attribute::Uuid, PartialValue::Uuid(self.any_uuid())),
            5 | 6 => F::Leaf(K::Eq, Attribute::MemberOf, PartialValue::Refer(self.group_uuid())),
            7 => {
                let a = self.rng.pick(&pool_attrs()).clone();
                F::Leaf(K::Pres, a, PartialValue::Bool(true))
            }
            8 => F::Leaf(K::Cnt, Attribute::Name, PartialValue::new_iname(["c23", "p", "g1", "anon"][self.rng.below(4) as usize])),
            9 => F::Leaf(K::Eq, Attribute::EntryManagedBy, PartialValue::Refer(self.any_uuid())),
            10 => F::Leaf(K::Eq, Attribute::DisplayName, PartialValue::new_utf8s(["Person 0", "Person 1", "Group"][self.rng.below(3) as usize])),
            11 => {
                if self.rng.chance(1, 2) {
                    F::Invalid(self.rng.pick(&pool_attrs()).clone())
                } else {
                    F::Leaf(K::Eq, Attribute::Member, PartialValue::Refer(self.any_uuid()))
                }
            }
            _ => F::SelfU,
        }
    }
    fn filter(&mut self, depth: u32, allow_self: bool) -> F {
        if depth == 0 || self.rng.chance(2, 5) {
            return self.leaf(allow_self);
        }
        match self.rng.below(5) {
            0 | 1 => {
                let n = self.rng.range(1, 3);
                F::And((0..n).map(|_| self.filter(depth - 1, allow_self)).collect())
            }
            2 | 3 => {
                let n = self.rng.range(1, 3);
                F::Or((0..n).map(|_| self.filter(depth - 1, allow_self)).collect())
            }
            _ => F::Not(Box::new(self.filter(depth - 1, allow_self))),
        }
    }
    /// an equality term the backend can answer from an index (LDAP callers may not run
    /// unindexed searches)
    fn anchor(&mut self) -> F {
        match self.rng.below(4) {
            0 => F::Leaf(K::Eq, Attribute::Class, PartialValue::new_iutf8(&self.class_name())),
            1 => F::Leaf(K::Eq, Attribute::Name, PartialValue::new_iname(&self.any_name())),
            2 => F::Leaf(K::Eq, Attribute::Uuid, PartialValue::Uuid(self.any_uuid())),
            _ => F::Leaf(K::Eq, Attribute::MemberOf, PartialValue::Refer(self.group_uuid())),
        }
    }
    fn ldap_leaf(&mut self) -> F {
        match self.rng.below(6) {
            0 | 1 | 2 => self.anchor(),
            3 => F::Leaf(K::Pres, self.rng.pick(&pool_attrs()).clone(), PartialValue::Bool(true)),
            4 => F::Leaf(K::Eq, Attribute::DisplayName, PartialValue::new_utf8s(["Person 0", "Person 1", "Group"][self.rng.below(3) as usize])),
            _ => F::Not(Box::new(self.anchor())),
        }
    }
    fn ldap_filter(&mut self) -> F {
        match self.rng.below(4) {
            0 => self.anchor(),
            1 => F::And(vec![self.anchor(), self.ldap_leaf()]),
            2 => F::Or(vec![self.anchor(), self.anchor()]),
            _ => F::And(vec![F::Or(vec![self.anchor(), self.anchor()]), self.ldap_leaf()]),
        }
    }
    fn attr_subset(&mut self, lo: u64, hi: u64) -> Vec<Attribute> {
        let mut p = pool_attrs();
        self.rng.shuffle(&mut p);
        let n = self.rng.range(lo, hi) as usize;
        p.truncate(n);
        p
    }
}

fn mk(classes: &[EntryClass], uuid: Uuid, name: &str) -> Entry<EntryInit, EntryNew> {
    let mut e: Entry<EntryInit, EntryNew> = kanidmd_lib::entry_init!(
        (Attribute::Class, EntryClass::Object.to_value()),
        (Attribute::Uuid, Value::Uuid(uuid)),
        (Attribute::Name, Value::new_iname(name))
    );
    for c in classes {
        e.add_ava(Attribute::Class, c.to_value());
    }
    e
}

async fn build_world(idms: &IdmServer, rng: &mut Rng, wn: u64, sink: &mut Sink) -> World {
    let ct = duration_from_epoch_now();
    let mut w = World {
        groups: vec![],
        persons: vec![],
        svc: None,
        o2: None,
        app: None,
        sync: None,
        sync_person: None,
        recycled: vec![],
        tombs: vec![],
        all: vec![],
    };
    let ng = rng.range(3, 5);
    let np = rng.range(3, 5);
    let mut next = 1u64;
    let fresh = |next: &mut u64| {
        let u = uu(wn, *next);
        *next += 1;
        u
    };
    let persons: Vec<(Uuid, String)> = (0..np).map(|k| (fresh(&mut next), format!("c23p{k}"))).collect();
    let groups: Vec<(Uuid, String)> = (0..ng).map(|k| (fresh(&mut next), format!("c23g{k}"))).collect();
    let svc = (fresh(&mut next), "c23s0".to_string());
    let o2 = (fresh(&mut next), "c23o0".to_string());
    let app = (fresh(&mut next), "c23a0".to_string());
    let sync = (fresh(&mut next), "c23y0".to_string());
    let syncp = (fresh(&mut next), "c23sp0".to_string());

    let mut pw = idms.proxy_write(ct).await.expect("proxy_write");
    {
        let qs = &mut pw.qs_write;
        // persons
        for (k, (u, n)) in persons.iter().enumerate() {
            let mut e = mk(&[EntryClass::Account, EntryClass::Person], *u, n);
            e.add_ava(Attribute::DisplayName, Value::new_utf8s(&format!("Person {k}")));
            if rng.chance(1, 2) {
                e.add_ava(Attribute::Description, Value::new_utf8s("a c23 person"));
            }
            qs.internal_create(vec![e]).expect("create person");
        }
        // service account
        let member_pool: Vec<Uuid> = persons.iter().map(|p| p.0).chain([svc.0, UUID_ANONYMOUS, syncp.0]).collect();
        // groups: later groups may be members of earlier ones (no cycles)
        let mut gents = vec![];
        for (k, (u, n)) in groups.iter().enumerate() {
            let mut e = mk(&[EntryClass::Group], *u, n);
            if rng.chance(1, 2) {
                e.add_ava(Attribute::Description, Value::new_utf8s("Group"));
            }
            for m in &member_pool {
                if rng.chance(1, 3) {
                    e.add_ava(Attribute::Member, Value::Refer(*m));
                }
            }
            for (j, (gu, _)) in groups.iter().enumerate() {
                if j > k && rng.chance(1, 4) {
                    e.add_ava(Attribute::Member, Value::Refer(*gu));
                }
            }
            if rng.chance(1, 2) {
                let mgr = if rng.chance(1, 2) { rng.pick(&persons).0 } else { rng.pick(&groups).0 };
                e.add_ava(Attribute::EntryManagedBy, Value::Refer(mgr));
            }
            gents.push(e);
        }
        let mut s = mk(&[EntryClass::Account, EntryClass::ServiceAccount], svc.0, &svc.1);
        s.add_ava(Attribute::DisplayName, Value::new_utf8s("Service 0"));
        if rng.chance(2, 3) {
            let mgr = if rng.chance(1, 2) { rng.pick(&persons).0 } else { rng.pick(&groups).0 };
            s.add_ava(Attribute::EntryManagedBy, Value::Refer(mgr));
        }
        // sync account + synchronised person
        let y = {
            let mut e = mk(&[EntryClass::SyncAccount], sync.0, &sync.1);
            e.add_ava(Attribute::Description, Value::new_utf8s("c23 sync agreement"));
            e
        };
        let sp = {
            let mut e = mk(&[EntryClass::Account, EntryClass::Person, EntryClass::SyncObject], syncp.0, &syncp.1);
            e.add_ava(Attribute::DisplayName, Value::new_utf8s("Sync Person"));
            e.add_ava(Attribute::SyncParentUuid, Value::Refer(sync.0));
            e
        };
        // create groups + service account + sync in one transaction step (references resolve)
        let mut batch = vec![s, y, sp];
        batch.extend(gents);
        qs.internal_create(batch).expect("create groups/service/sync");
        w.svc = Some(svc.clone());
        w.sync = Some(sync.clone());
        w.sync_person = Some(syncp.clone());

        // oauth2 client
        let mut o = mk(&[EntryClass::Account, EntryClass::OAuth2ResourceServer, EntryClass::OAuth2ResourceServerBasic], o2.0, &o2.1);
        o.add_ava(Attribute::DisplayName, Value::new_utf8s("OAuth2 0"));
        o.add_ava(Attribute::OAuth2RsOriginLanding, Value::new_url_s("https://c23.example.com").expect("url"));
        let nmap = rng.range(1, 2);
        for _ in 0..nmap {
            let g = rng.pick(&groups[..groups.len() - 1]).0;
            o.add_ava(
                Attribute::OAuth2RsScopeMap,
                Value::new_oauthscopemap(g, BTreeSet::from(["read".to_string()])).expect("scopemap"),
            );
        }
        match qs.internal_create(vec![o]) {
            Ok(_) => w.o2 = Some(o2.clone()),
            Err(e) => {
                sink.bump("world_oauth2_create_failed");
                eprintln!("oauth2 create failed: {e:?}");
            }
        }
        // application
        let mut a = mk(&[EntryClass::Account, EntryClass::ServiceAccount, EntryClass::Application], app.0, &app.1);
        a.add_ava(Attribute::DisplayName, Value::new_utf8s("Application 0"));
        a.add_ava(Attribute::LinkedGroup, Value::Refer(rng.pick(&groups[..groups.len() - 1]).0));
        match qs.internal_create(vec![a]) {
            Ok(_) => w.app = Some(app.clone()),
            Err(e) => {
                sink.bump("world_application_create_failed");
                eprintln!("application create failed: {e:?}");
            }
        }
    }
    w.persons = persons.clone();
    w.groups = groups.clone();
    w.all = persons.iter().chain(groups.iter()).cloned().collect();
    for x in [&w.svc, &w.o2, &w.app, &w.sync, &w.sync_person].into_iter().flatten() {
        w.all.push(x.clone());
    }

    // random search access control profiles
    {
        let nacp = rng.range(4, 8);
        for k in 0..nacp {
            let (target, attrs, recv) = {
                let mut g = Gen { rng, w: &w };
                let target = g.filter(2, true);
                let attrs = g.attr_subset(1, 6);
                let recv = g.rng.below(8);
                (target, attrs, recv)
            };
            let u = fresh(&mut next);
            let mut e = mk(&[EntryClass::AccessControlProfile, EntryClass::AccessControlSearch], u, &format!("c23acp{k}"));
            e.add_ava(Attribute::Description, Value::new_utf8s("c23 random search profile"));
            match recv {
                0 => {} // no receiver: the profile does nothing
                1 | 2 => {
                    e.add_ava(Attribute::Class, EntryClass::AccessControlReceiverEntryManager.to_value());
                }
                _ => {
                    e.add_ava(Attribute::Class, EntryClass::AccessControlReceiverGroup.to_value());
                    let n = rng.range(1, 2);
                    for _ in 0..n {
                        let g = if rng.chance(1, 6) { UUID_IDM_ALL_PERSONS } else { rng.pick(&groups[..groups.len() - 1]).0 };
                        e.add_ava(Attribute::AcpReceiverGroup, Value::Refer(g));
                    }
                }
            }
            if !rng.chance(1, 12) {
                e.add_ava(Attribute::Class, EntryClass::AccessControlTargetScope.to_value());
                e.add_ava(Attribute::AcpTargetScope, Value::new_json_filter(to_proto(&target)));
            }
            for a in &attrs {
                e.add_ava(Attribute::AcpSearchAttr, Value::new_iutf8(a.as_str()));
            }
            match pw.qs_write.internal_create(vec![e]) {
                Ok(_) => sink.bump("acp_created"),
                Err(err) => {
                    sink.bump("acp_create_failed");
                    eprintln!("acp create failed: {err:?} target={}", txt_f(&target));
                }
            }
        }
    }
    pw.commit().expect("commit world");

    // one person becomes a tombstone: delete, then purge the recycle bin 8 days later
    let day = Duration::from_secs(86400);
    if persons.len() > 3 {
        let victim = persons[persons.len() - 1].0;
        let mut pw = idms.proxy_write(ct + Duration::from_secs(1)).await.expect("proxy_write");
        pw.qs_write
            .internal_delete(&kanidmd_lib::filter!(f_eq(Attribute::Uuid, PartialValue::Uuid(victim))))
            .expect("delete");
        pw.commit().expect("commit");
        let mut pw = idms.proxy_write(ct + day * 8).await.expect("proxy_write");
        pw.qs_write.purge_recycled().expect("purge_recycled");
        pw.commit().expect("commit");
        w.tombs.push(victim);
        w.persons.pop();
    }
    // a person and a group are recycled
    {
        let mut pw = idms.proxy_write(ct + day * 8 + Duration::from_secs(1)).await.expect("proxy_write");
        let mut victims = vec![];
        if w.persons.len() > 2 && rng.chance(3, 4) {
            victims.push(w.persons.pop().expect("person").0);
        }
        if w.groups.len() > 2 && rng.chance(3, 4) {
            victims.push(w.groups.pop().expect("group").0);
        }
        for v in &victims {
            pw.qs_write
                .internal_delete(&kanidmd_lib::filter!(f_eq(Attribute::Uuid, PartialValue::Uuid(*v))))
                .expect("delete");
        }
        pw.commit().expect("commit");
        w.recycled = victims;
    }
    w
}

// ------------------------------------------------------------------ callers
#[derive(Clone, Debug)]
enum Who {
    User(Uuid, AccessScope),
    Internal(u8),
    Synch,
}

fn scope_coq(s: AccessScope) -> &'static str {
    match s {
        AccessScope::ReadOnly => "ScRO",
        AccessScope::ReadWrite => "ScRW",
        AccessScope::Synchronise => "ScSync",
    }
}

#[derive(Clone, Copy, Debug, PartialEq)]
enum Mode {
    Hidden,
    Recycle,
    Raw,
}
impl Mode {
    fn coq(self) -> &'static str {
        match self {
            Mode::Hidden => "MHidden",
            Mode::Recycle => "MRecycle",
            Mode::Raw => "MRaw",
        }
    }
}

fn build_filters(qs: &mut QueryServerReadTransaction, f: &F, m: Mode) -> Result<(Filter<FilterValid>, Filter<FilterValid>), String> {
    let inv = Filter::new(to_fc(f));
    let valid = inv.validate(qs.get_schema()).map_err(|e| format!("{e:?}"))?;
    Ok(match m {
        Mode::Hidden => (valid.clone().into_ignore_hidden(), valid),
        Mode::Recycle => {
            let r = valid.into_recycled();
            (r.clone(), r)
        }
        Mode::Raw => (valid.clone(), valid),
    })
}

fn main() {
    let args = parse_args();
    let mut rng = Rng::new(args.seed);
    let mut sink = Sink::new(&args, "KV.C23.Model", 5);
    sink.import("KV.Base.Filter");
    sink.rule = "one case = one (world, caller): a real IdmServer with all built-in profiles plus 4-8 random search \
profiles (group / entry-manager / no receiver, random target filters incl. SelfUuid, random attribute sets) over random \
nested groups, persons, service account, OAuth2 client, application, sync account + synchronised person, recycled and \
tombstoned entries; callers: persons (read-only / read-write / synchronise scope), service account, anonymous, sync \
person, System/Migration/AccountRequest/MessageQueue, a sync identity; 12-16 random queries each through the real search, \
search_ext (random requested attribute lists), exists, and for anonymous LdapServer::do_op search/compare. \
non-trivial = in this case some query released an entry AND some query withheld a matching entry or released only part \
of an entry's attributes".into();
    let rt = tokio::runtime::Builder::new_current_thread().enable_all().build().expect("rt");
    let n_worlds = if args.thorough { 100 } else { 12 };
    for wn in 0..n_worlds {
        rt.block_on(one_world(&mut rng, &mut sink, wn, args.thorough));
    }
    sink.finish();
}

struct EntDump {
    uuid: Uuid,
    ent: Arc<EntrySealedCommitted>,
}

async fn one_world(rng: &mut Rng, sink: &mut Sink, wn: u64, thorough: bool) {
    let (idms, _delayed, _audit) = setup_idm_test(TestConfiguration::default()).await;
    let w = build_world(&idms, rng, wn, sink).await;
    let ldap = LdapServer::new(&idms).await.expect("ldap server");
    let token = ldap_bind_anonymous(&ldap, &idms).await.expect("anonymous bind");

    // tracked universe: everything created + anonymous, admin, idm_all_persons, domain info
    let mut tracked: Vec<Uuid> = vec![UUID_ANONYMOUS];
    tracked.extend(w.all.iter().map(|x| x.0));
    tracked.extend([UUID_ADMIN, UUID_IDM_ALL_PERSONS, UUID_DOMAIN_INFO]);

    let mut callers: Vec<Who> = vec![];
    for (k, (u, _)) in w.persons.iter().enumerate() {
        let sc = match rng.below(6) {
            0 | 1 | 2 => AccessScope::ReadWrite,
            3 | 4 => AccessScope::ReadOnly,
            _ => AccessScope::Synchronise,
        };
        if k < 3 || thorough {
            callers.push(Who::User(*u, sc));
        }
    }
    if let Some((u, _)) = &w.svc {
        callers.push(Who::User(*u, AccessScope::ReadOnly));
    }
    if let Some((u, _)) = &w.sync_person {
        callers.push(Who::User(*u, AccessScope::ReadWrite));
    }
    callers.push(Who::User(UUID_ANONYMOUS, AccessScope::ReadOnly));
    callers.push(Who::User(UUID_ADMIN, AccessScope::ReadWrite));
    let mut extra = vec![Who::Internal(0), Who::Internal(1), Who::Internal(2), Who::Internal(3), Who::Synch];
    rng.shuffle(&mut extra);
    extra.truncate(if thorough { 5 } else { 2 });
    callers.extend(extra);

    for who in callers {
        let mut t = Tabs::new();
        let mut ls = LeafSet::new();
        // wrapper leaves are always part of the universe of leaves
        for c in ["recycled", "tombstone", "classtype", "attributetype", "access_control_profile"] {
            ls.add(K::Eq, &Attribute::Class, &PartialValue::new_iutf8(c));
        }
        let mut pr = Some(idms.proxy_read().await.expect("proxy_read"));

        // universe
        let mut ents: Vec<EntDump> = vec![];
        for u in &tracked {
            let f = kanidmd_lib::filter_all!(f_eq(Attribute::Uuid, PartialValue::Uuid(*u)));
            let r = pr.as_mut().expect("txn").qs_read.internal_search(f).expect("internal_search");
            if let Some(e) = r.into_iter().next() {
                t.uuids.id(u);
                ents.push(EntDump { uuid: *u, ent: e });
            }
        }
        let in_world: BTreeMap<Uuid, u64> = ents.iter().map(|e| (e.uuid, t.uuids.id(&e.uuid))).collect();
        let mut dn_map: BTreeMap<String, Uuid> = BTreeMap::new();
        for e in &ents {
            if let Ok(rdn) = pr.as_mut().expect("txn").qs_read.uuid_to_rdn(e.uuid) {
                dn_map.insert(format!("{rdn},{BASEDN}"), e.uuid);
            }
        }

        // caller
        let (ident, me, who_txt, ident_coq) = match &who {
            Who::User(u, sc) => {
                let e = pr.as_mut().expect("txn").qs_read.internal_search_uuid(*u).expect("caller entry");
                let mo = e.get_ava_refer(Attribute::MemberOf).map(|s| {
                    let mut v: Vec<u64> = s.iter().map(|g| t.uuids.id(g)).collect();
                    v.sort_unstable();
                    v
                });
                let mut cls: Vec<u64> = e
                    .get_ava_as_iutf8(Attribute::Class)
                    .map(|s| s.iter().map(|c| t.class(c)).collect())
                    .unwrap_or_default();
                cls.sort_unstable();
                let sp = e.get_ava_single_refer(Attribute::SyncParentUuid).map(|p| t.uuids.id(&p));
                let coq = format!(
                    "(mkI (OUser (mkU {} {} {} {})) {})",
                    cn(t.uuids.id(u)),
                    copt(&mo, |m| clist(m, |x| cn(*x))),
                    clist(&cls, |x| cn(*x)),
                    copt(&sp, |x| cn(*x)),
                    scope_coq(*sc)
                );
                let name = e.get_ava_set(Attribute::Name).and_then(|v| v.to_proto_string_single()).unwrap_or_default();
                (ident_user(e, *sc), Some(*u), format!("user:{name}:{}", scope_coq(*sc)), coq)
            }
            Who::Internal(r) => {
                let rn = ["RSystem", "RMigration", "RAccountRequest", "RMessageQueue"][*r as usize];
                (ident_internal(*r), None, format!("internal:{rn}"), format!("(mkI (OInternal {rn}) {})", if *r == 2 { "ScRO" } else { "ScRW" }))
            }
            Who::Synch => (ident_synch(uu(wn, 0xfff0)), None, "synch".to_string(), "(mkI OSynch ScSync)".to_string()),
        };
        let is_user = me.is_some();
        let is_internal = matches!(who, Who::Internal(_));
        let is_anon = me == Some(UUID_ANONYMOUS);
        let system = ident_internal(0);

        // loaded profiles, resolved for this caller
        let acps: Vec<HookSearchAcp> = dump_search_acps(&mut pr.as_mut().expect("txn").qs_read, &ident);
        let acps_coq: Vec<String> = acps
            .iter()
            .map(|a| {
                let recv = match &a.receiver {
                    HookReceiver::Group(g) => {
                        let mut v: Vec<u64> = g.iter().map(|x| t.uuids.id(x)).collect();
                        v.sort_unstable();
                        format!("(RGroup {})", clist(&v, |x| cn(*x)))
                    }
                    HookReceiver::EntryManager => "RMgr".to_string(),
                    HookReceiver::None => "RNone".to_string(),
                };
                let tgt = match &a.target {
                    Some(fr) => format!("(Some {})", coq_f(&of_resolved(fr), me, &mut t, &mut ls)),
                    None => "None".to_string(),
                };
                let mut at: Vec<u64> = a.attrs.iter().map(|x| t.attr(x)).collect();
                at.sort_unstable();
                format!("(mkA {} {} {})", recv, tgt, clist(&at, |x| cn(*x)))
            })
            .collect();
        sink.add_stat("acps_dumped", acps.len() as u64);

        // queries
        let nq = rng.range(12, 16);
        let mut qs_coq: Vec<String> = vec![];
        let mut qs_txt: Vec<String> = vec![];
        let mut any_released = false;
        let mut any_withheld = false;
        for _ in 0..nq {
            let kind = if is_anon { rng.below(8) } else { rng.below(5) };
            let mode = match rng.below(6) {
                0 => Mode::Recycle,
                1 => Mode::Raw,
                _ => Mode::Hidden,
            };
            let (f, req, ext_leaf, ava) = {
                let mut g = Gen { rng, w: &w };
                let f = if kind >= 5 { g.ldap_filter() } else { g.filter(2, is_user) };
                let req: Option<Vec<Attribute>> = if g.rng.chance(1, 3) { None } else { Some(g.attr_subset(1, 5)) };
                let ext_leaf = if g.rng.chance(1, 3) { Some(g.any_name()) } else { None };
                let ava = g.anchor();
                (f, req, ext_leaf, ava)
            };
            let req_ids: Option<Vec<u64>> = req.as_ref().map(|r| {
                let mut v: Vec<u64> = r.iter().map(|a| t.attr(a)).collect();
                v.sort_unstable();
                v
            });
            let req_coq = copt(&req_ids, |v| clist(v, |x| cn(*x)));
            let fcoq = coq_f(&f, me, &mut t, &mut ls);

            // what System sees for the same filters: used for the `outside` flag and statistics
            let sys_ids = |q: &mut QueryServerReadTransaction, f: &F, m: Mode| -> (Vec<u64>, bool) {
                // System has no SelfUuid of its own: substitute the caller's uuid
                let f2 = subst_self(f, me);
                match build_filters(q, &f2, m) {
                    Ok((filter, forig)) => {
                        let se = SearchEvent { ident: system.clone(), filter, filter_orig: forig, attrs: None, effective_access_check: false };
                        match q.search(&se) {
                            Ok(r) => {
                                let mut outside = false;
                                let mut v = vec![];
                                for e in r {
                                    match in_world.get(&e.get_uuid()) {
                                        Some(i) => v.push(*i),
                                        None => outside = true,
                                    }
                                }
                                v.sort_unstable();
                                (v, outside)
                            }
                            Err(_) => (vec![], false),
                        }
                    }
                    Err(_) => (vec![], false),
                }
            };

            match kind {
                0 | 1 | 2 | 3 => {
                    let ext = kind >= 2 || (kind == 1 && rng.chance(1, 2));
                    let exists = kind == 1 && !ext;
                    let (filter, forig) = match build_filters(&mut pr.as_mut().expect("txn").qs_read, &f, mode) {
                        Ok(x) => x,
                        Err(e) => {
                            sink.bump("query_filter_invalid");
                            eprintln!("filter invalid {e}: {}", txt_f(&f));
                            continue;
                        }
                    };
                    if exists {
                        let ee = ExistsEvent { ident: ident.clone(), filter: filter.clone(), filter_orig: forig.clone() };
                        let r = pr.as_mut().expect("txn").qs_read.exists(&ee);
                        // outside: does the same caller's search reveal an untracked entry?
                        let outside = if !is_internal {
                            let se = SearchEvent { ident: ident.clone(), filter, filter_orig: forig, attrs: None, effective_access_check: false };
                            pr.as_mut().expect("txn").qs_read.search(&se).map(|v| v.iter().any(|e| !in_world.contains_key(&e.get_uuid()))).unwrap_or(false)
                        } else {
                            sys_ids(&mut pr.as_mut().expect("txn").qs_read, &f, mode).1
                        };
                        let out = match &r {
                            Ok(b) => {
                                if *b { any_released = true; }
                                format!("(OBool {})", cbool(*b))
                            }
                            Err(_) => "OErr".to_string(),
                        };
                        sink.bump("q_exists");
                        if outside { sink.bump("q_exists_outside"); }
                        qs_coq.push(format!("(mkQ (QExists {} {}) {} {})", mode.coq(), cbool(outside), fcoq, out));
                        qs_txt.push(format!("exists[{:?}] {} -> {:?}{}", mode, txt_f(&f), r, if outside { " (outside)" } else { "" }));
                    } else if ext {
                        let se = SearchEvent { ident: ident.clone(), filter, filter_orig: forig, attrs: req.as_ref().map(|r| r.iter().cloned().collect()), effective_access_check: false };
                        let r = pr.as_mut().expect("txn").qs_read.search_ext(&se);
                        let (sysv, _) = sys_ids(&mut pr.as_mut().expect("txn").qs_read, &f, mode);
                        let out = match &r {
                            Ok(es) => {
                                let mut v: Vec<(u64, Vec<u64>)> = vec![];
                                for e in es {
                                    if let Some(i) = in_world.get(&e.get_uuid()) {
                                        let mut at: Vec<u64> = e.get_ava_names().map(|n| t.attr(&Attribute::from(n))).collect();
                                        at.sort_unstable();
                                        let full = ents.iter().find(|x| x.uuid == e.get_uuid()).map(|x| x.ent.get_ava_names().count()).unwrap_or(0);
                                        if at.len() < full { any_withheld = true; sink.bump("entries_partially_released"); }
                                        v.push((*i, at));
                                    }
                                }
                                v.sort();
                                if !v.is_empty() { any_released = true; sink.bump("q_released_some"); }
                                if v.len() < sysv.len() { any_withheld = true; sink.bump("q_withheld_some"); }
                                format!("(OExt {})", clist(&v, |(i, at)| format!("({}, {})", cn(*i), clist(at, |x| cn(*x)))))
                            }
                            Err(_) => "OErr".to_string(),
                        };
                        sink.bump("q_search_ext");
                        qs_coq.push(format!("(mkQ (QSearchExt {} {}) {} {})", mode.coq(), req_coq, fcoq, out));
                        qs_txt.push(format!("search_ext[{:?}] {} req={:?} -> {}", mode, txt_f(&f), req.as_ref().map(|r| r.iter().map(|a| a.as_str().to_string()).collect::<Vec<_>>()), out));
                    } else {
                        let se = SearchEvent { ident: ident.clone(), filter, filter_orig: forig, attrs: None, effective_access_check: false };
                        let r = pr.as_mut().expect("txn").qs_read.search(&se);
                        let (sysv, _) = sys_ids(&mut pr.as_mut().expect("txn").qs_read, &f, mode);
                        let out = match &r {
                            Ok(es) => {
                                let mut v: Vec<u64> = es.iter().filter_map(|e| in_world.get(&e.get_uuid()).copied()).collect();
                                v.sort_unstable();
                                if !v.is_empty() { any_released = true; sink.bump("q_released_some"); }
                                if v.len() < sysv.len() { any_withheld = true; sink.bump("q_withheld_some"); }
                                format!("(OIds {})", clist(&v, |x| cn(*x)))
                            }
                            Err(_) => "OErr".to_string(),
                        };
                        sink.bump("q_search");
                        qs_coq.push(format!("(mkQ (QSearch {}) {} {})", mode.coq(), fcoq, out));
                        qs_txt.push(format!("search[{:?}] {} -> {}", mode, txt_f(&f), out));
                    }
                }
                4 => {
                    // recycle-bin / raw exists for every caller kind
                    let (filter, forig) = match build_filters(&mut pr.as_mut().expect("txn").qs_read, &f, mode) {
                        Ok(x) => x,
                        Err(_) => continue,
                    };
                    let ee = ExistsEvent { ident: ident.clone(), filter: filter.clone(), filter_orig: forig.clone() };
                    let r = pr.as_mut().expect("txn").qs_read.exists(&ee);
                    let outside = if !is_internal {
                        let se = SearchEvent { ident: ident.clone(), filter, filter_orig: forig, attrs: None, effective_access_check: false };
                        pr.as_mut().expect("txn").qs_read.search(&se).map(|v| v.iter().any(|e| !in_world.contains_key(&e.get_uuid()))).unwrap_or(false)
                    } else {
                        sys_ids(&mut pr.as_mut().expect("txn").qs_read, &f, mode).1
                    };
                    let out = match &r {
                        Ok(b) => format!("(OBool {})", cbool(*b)),
                        Err(_) => "OErr".to_string(),
                    };
                    if matches!(r, Ok(true)) { any_released = true; }
                    sink.bump("q_exists");
                    if outside { sink.bump("q_exists_outside"); }
                    qs_coq.push(format!("(mkQ (QExists {} {}) {} {})", mode.coq(), cbool(outside), fcoq, out));
                    qs_txt.push(format!("exists[{:?}] {} -> {:?}{}", mode, txt_f(&f), r, if outside { " (outside)" } else { "" }));
                }
                5 | 6 => {
                    // LDAP search as anonymous
                    let (base, ext_coq) = match &ext_leaf {
                        Some(n) => {
                            let lf = F::Leaf(K::Eq, Attribute::Name, PartialValue::new_iname(n));
                            (format!("name={n},{BASEDN}"), format!("(Some {})", coq_f(&lf, me, &mut t, &mut ls)))
                        }
                        None => (BASEDN.to_string(), "None".to_string()),
                    };
                    let attrs: Vec<String> = match &req {
                        Some(r) => r.iter().map(|a| a.as_str().to_string()).collect(),
                        None => vec!["*".to_string()],
                    };
                    drop(pr.take()); // the LDAP operation takes its own read transaction
                    let r = ldap_search(&ldap, &idms, &token, &base, &to_ldap(&f), &attrs).await;
                    pr = Some(idms.proxy_read().await.expect("proxy_read"));
                    let out = match &r {
                        Ok(es) => {
                            let mut v: Vec<(u64, Vec<u64>)> = vec![];
                            for (dn, ats) in es {
                                if let Some(u) = dn_map.get(dn) {
                                    let mut at: Vec<u64> = ats.iter().map(|n| t.attr(&Attribute::from(n.as_str()))).collect();
                                    at.sort_unstable();
                                    at.dedup();
                                    v.push((in_world[u], at));
                                }
                            }
                            v.sort();
                            if !v.is_empty() { any_released = true; sink.bump("q_released_some"); }
                            format!("(OExt {})", clist(&v, |(i, at)| format!("({}, {})", cn(*i), clist(at, |x| cn(*x)))))
                        }
                        Err(e) => {
                            sink.bump(&format!("ldap_search_err_{e}"));
                            "OErr".to_string()
                        }
                    };
                    sink.bump("q_ldap_search");
                    qs_coq.push(format!("(mkQ (QLdapSearch {} {}) {} {})", ext_coq, req_coq, fcoq, out));
                    qs_txt.push(format!("ldap_search base={} {} attrs={:?} -> {}", base, txt_f(&f), attrs, out));
                }
                _ => {
                    // LDAP compare as anonymous: dn names a tracked entry, ava is an equality term
                    let n = { let mut g = Gen { rng, w: &w }; g.any_name() };
                    let dn_leaf = F::Leaf(K::Eq, Attribute::Name, PartialValue::new_iname(&n));
                    let dn_coq = coq_f(&dn_leaf, me, &mut t, &mut ls);
                    let ava_coq = coq_f(&ava, me, &mut t, &mut ls);
                    let (atype, val) = match &ava {
                        F::Leaf(_, a, v) => (a.as_str().to_string(), pv_str(v)),
                        _ => unreachable!(),
                    };
                    drop(pr.take());
                    let r = ldap_compare(&ldap, &idms, &token, &format!("name={n},{BASEDN}"), &atype, &val).await;
                    pr = Some(idms.proxy_read().await.expect("proxy_read"));
                    let out = match &r {
                        Ok(c) => {
                            if *c < 2 { any_released = true; }
                            format!("(OCode {})", cn(*c as u64))
                        }
                        Err(e) => {
                            sink.bump(&format!("ldap_compare_err_{e}"));
                            "OErr".to_string()
                        }
                    };
                    sink.bump("q_ldap_compare");
                    qs_coq.push(format!("(mkQ (QLdapCompare {}) {} {})", ava_coq, dn_coq, out));
                    qs_txt.push(format!("ldap_compare name={n} {}={} -> {:?}", atype, val, r));
                }
            }
        }

        // entries with leaf truth (all leaves are known now)
        let mut ents_coq: Vec<(u64, String)> = vec![];
        for e in &ents {
            let id = in_world[&e.uuid];
            let mut cls: Vec<u64> = e
                .ent
                .get_ava_as_iutf8(Attribute::Class)
                .map(|s| s.iter().map(|c| t.class(c)).collect())
                .unwrap_or_default();
            cls.sort_unstable();
            let mut at: Vec<u64> = e.ent.get_ava_names().map(|n| t.attr(&Attribute::from(n))).collect();
            at.sort_unstable();
            let mut mgr: Vec<u64> = e
                .ent
                .get_ava_refer(Attribute::EntryManagedBy)
                .map(|s| s.iter().map(|u| t.uuids.id(u)).collect())
                .unwrap_or_default();
            mgr.sort_unstable();
            let mut o2: Vec<u64> = e
                .ent
                .get_ava_as_oauthscopemaps(Attribute::OAuth2RsScopeMap)
                .map(|m| m.keys().map(|u| t.uuids.id(u)).collect())
                .unwrap_or_default();
            o2.sort_unstable();
            let linked = e.ent.get_ava_single_refer(Attribute::LinkedGroup).map(|u| t.uuids.id(&u));
            let mut tru: Vec<String> = vec![];
            for (k, a, v) in &ls.leaves {
                let fr = match k {
                    K::Eq => FilterResolved::Eq(a.clone(), v.clone(), None),
                    K::Cnt => FilterResolved::Cnt(a.clone(), v.clone(), None),
                    K::Stw => FilterResolved::Stw(a.clone(), v.clone(), None),
                    K::Enw => FilterResolved::Enw(a.clone(), v.clone(), None),
                    K::Pres => FilterResolved::Pres(a.clone(), None),
                    K::Lt => FilterResolved::LessThan(a.clone(), v.clone(), None),
                };
                if e.ent.entry_match_no_index(&Filter::verif_from_resolved(fr)) {
                    let vid = if *k == K::Pres { 0 } else { t.val(v) };
                    tru.push(format!("({}, {}, {})", k.coq(), cn(t.attr(a)), cn(vid)));
                }
            }
            ents_coq.push((
                id,
                format!(
                    "(mkE {} {} {} {} {} {} {})",
                    cn(id),
                    clist(&cls, |x| cn(*x)),
                    clist(&at, |x| cn(*x)),
                    clist(&mgr, |x| cn(*x)),
                    clist(&o2, |x| cn(*x)),
                    copt(&linked, |x| cn(*x)),
                    clist_s(&tru)
                ),
            ));
        }
        ents_coq.sort_by_key(|x| x.0);
        let ents_s: Vec<String> = ents_coq.into_iter().map(|x| x.1).collect();
        let coq = format!(
            "(CWorld {} {} {} {})",
            clist_s(&ents_s),
            clist_s(&acps_coq),
            ident_coq,
            clist_s(&qs_coq)
        );
        let txt = format!(
            "world {} caller {} entries={} acps={} :: {}",
            wn,
            who_txt,
            ents.len(),
            acps.len(),
            qs_txt.join(" | ")
        );
        sink.bump(&format!("caller_{}", who_txt.split(':').next().unwrap_or("")));
        sink.add_stat("queries", qs_coq.len() as u64);
        sink.case(coq, txt, any_released && any_withheld);
    }
}

fn subst_self(f: &F, me: Option<Uuid>) -> F {
    match f {
        F::SelfU => match me {
            Some(u) => F::Leaf(K::Eq, Attribute::Uuid, PartialValue::Uuid(u)),
            None => F::SelfU,
        },
        F::And(l) => F::And(l.iter().map(|g| subst_self(g, me)).collect()),
        F::Or(l) => F::Or(l.iter().map(|g| subst_self(g, me)).collect()),
        F::Inc(l) => F::Inc(l.iter().map(|g| subst_self(g, me)).collect()),
        F::Not(g) => F::Not(Box::new(subst_self(g, me))),
        other => other.clone(),
    }
}
