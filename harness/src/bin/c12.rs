//! C12 — stored and replicated values read back unchanged.
//!
//! Four kinds of cases, all produced by the REAL kanidm code:
//!  * CPw / CLoad : passwords of every KDF constructor through Password::to_dbpasswordv1 /
//!                  TryFrom<DbPasswordV1>, with Password::verify before and after;
//!  * CMsg        : the expiry of a queued credential-reset message before / after the round trip;
//!  * CVs         : a valueset of every in-memory valueset type through
//!                  to_db_valueset_v2 -> serde_json -> from_db_valueset_v2;
//!  * CDb / CRefresh / CIncr : whole entries (all entries of a live server and synthetic ones)
//!                  through to_dbentry/from_dbentry and the two replication encodings.
use kanidm_lib_crypto::{CryptoPolicy, DbPasswordV1, Password};
use kanidmd_lib::prelude::*;
use kanidmd_lib::testkit::{setup_test, TestConfiguration};
use kanidmd_lib::valueset::{ValueSet, ValueSetCid, ValueSetIutf8, ValueSetUuid};
use kanidmd_lib::verif_hooks::c12 as hk;
use kanidmd_lib::verif_hooks::c12::{HookEntry, HookState};
use kvh::*;
use std::collections::BTreeMap;
use std::panic::AssertUnwindSafe;

// ------------------------------------------------------------------ small helpers

fn b64(data: &[u8], alphabet: &[u8; 64], pad: bool) -> String {
    let mut out = String::new();
    for chunk in data.chunks(3) {
        let b = [chunk[0], *chunk.get(1).unwrap_or(&0), *chunk.get(2).unwrap_or(&0)];
        let n = ((b[0] as u32) << 16) | ((b[1] as u32) << 8) | b[2] as u32;
        out.push(alphabet[(n >> 18) as usize & 63] as char);
        out.push(alphabet[(n >> 12) as usize & 63] as char);
        if chunk.len() > 1 {
            out.push(alphabet[(n >> 6) as usize & 63] as char);
        } else if pad {
            out.push('=');
        }
        if chunk.len() > 2 {
            out.push(alphabet[n as usize & 63] as char);
        } else if pad {
            out.push('=');
        }
    }
    out
}
const STD: &[u8; 64] = b"ABCDEFGHIJKLMNOPQRSTUVWXYZabcdefghijklmnopqrstuvwxyz0123456789+/";
const H64: &[u8; 64] = b"./0123456789ABCDEFGHIJKLMNOPQRSTUVWXYZabcdefghijklmnopqrstuvwxyz";

const KDF_NAMES: [&str; 15] = [
    "TPM_ARGON2ID", "ARGON2ID", "PBKDF2", "PBKDF2_SHA1", "PBKDF2_SHA512", "SHA1", "SSHA1", "SHA256",
    "SSHA256", "SHA512", "SSHA512", "NT_MD4", "CRYPT_MD5", "CRYPT_SHA256", "CRYPT_SHA512",
];

/// constructor number of the (private) Kdf inside a Password, read from its derived Debug
fn ktag(p: &Password) -> u64 {
    let d = format!("{:?}", p);
    // "Password { material: NAME(" | "Password { material: NAME {"
    let rest = d.split("material: ").nth(1).unwrap_or("");
    let name: String = rest.chars().take_while(|c| c.is_alphanumeric() || *c == '_').collect();
    KDF_NAMES.iter().position(|n| *n == name).map(|i| i as u64).unwrap_or(99)
}

fn cdb(d: &DbPasswordV1) -> String {
    let v = |b: &Vec<u8>| cbytes(b);
    match d.clone() {
        DbPasswordV1::TPM_ARGON2ID { m, t, p, v: ver, s, k } => {
            let (s, k): (Vec<u8>, Vec<u8>) = (s.into(), k.into());
            capp("D_TPM_ARGON2ID", &[cn(m as u64), cn(t as u64), cn(p as u64), cn(ver as u64), v(&s), v(&k)])
        }
        DbPasswordV1::ARGON2ID { m, t, p, v: ver, s, k } => {
            let (s, k): (Vec<u8>, Vec<u8>) = (s.into(), k.into());
            capp("D_ARGON2ID", &[cn(m as u64), cn(t as u64), cn(p as u64), cn(ver as u64), v(&s), v(&k)])
        }
        DbPasswordV1::PBKDF2(c, s, h) => capp("D_PBKDF2", &[cn(c as u64), v(&s), v(&h)]),
        DbPasswordV1::PBKDF2_SHA1(c, s, h) => capp("D_PBKDF2_SHA1", &[cn(c as u64), v(&s), v(&h)]),
        DbPasswordV1::PBKDF2_SHA512(c, s, h) => capp("D_PBKDF2_SHA512", &[cn(c as u64), v(&s), v(&h)]),
        DbPasswordV1::SHA1(h) => capp("D_SHA1", &[v(&h)]),
        DbPasswordV1::SSHA1(s, h) => capp("D_SSHA1", &[v(&s), v(&h)]),
        DbPasswordV1::SHA256(h) => capp("D_SHA256", &[v(&h)]),
        DbPasswordV1::SSHA256(s, h) => capp("D_SSHA256", &[v(&s), v(&h)]),
        DbPasswordV1::SHA512(h) => capp("D_SHA512", &[v(&h)]),
        DbPasswordV1::SSHA512(s, h) => capp("D_SSHA512", &[v(&s), v(&h)]),
        DbPasswordV1::NT_MD4(h) => capp("D_NT_MD4", &[v(&h)]),
        DbPasswordV1::CRYPT_MD5 { s, h } => {
            let (s, h): (Vec<u8>, Vec<u8>) = (s.into(), h.into());
            capp("D_CRYPT_MD5", &[v(&s), v(&h)])
        }
        DbPasswordV1::CRYPT_SHA256 { h } => capp("D_CRYPT_SHA256", &[cstr(&h)]),
        DbPasswordV1::CRYPT_SHA512 { h } => capp("D_CRYPT_SHA512", &[cstr(&h)]),
    }
}

fn vres(p: &Password, clear: &str) -> u64 {
    match guarded(AssertUnwindSafe(|| p.verify(clear))) {
        Ok(Ok(false)) => 0,
        Ok(Ok(true)) => 1,
        Ok(Err(_)) => 2,
        Err(_) => 3,
    }
}

/// the stored form goes through serde_json exactly as inside a DbValueSetV2
fn db_serde(d: &DbPasswordV1) -> DbPasswordV1 {
    let s = serde_json::to_vec(d).expect("ser");
    serde_json::from_slice(&s).expect("de")
}

fn emit_pw(sink: &mut Sink, origin: &str, p: &Password, clears: &[String]) {
    let kt = ktag(p);
    let d = p.to_dbpasswordv1();
    let p2 = Password::try_from(db_serde(&d)).expect("TryFrom<DbPasswordV1> is total");
    let kt2 = ktag(&p2);
    let d2 = p2.to_dbpasswordv1();
    let eq = p2 == *p;
    let vb: Vec<u64> = clears.iter().map(|c| vres(p, c)).collect();
    let va: Vec<u64> = clears.iter().map(|c| vres(&p2, c)).collect();
    sink.bump(&format!("pw_{}", KDF_NAMES.get(kt as usize).unwrap_or(&"?")));
    let nontrivial = vb.contains(&1);
    sink.case(
        capp(
            "CPw",
            &[cn(kt), cdb(&d), cn(kt2), cdb(&d2), cbool(eq), clist(&vb, |x| cn(*x)), clist(&va, |x| cn(*x))],
        ),
        format!(
            "pw {} kdf={:?} stored={:?} reloaded_kdf={} equal={} verify_before={:?} verify_after={:?} cleartexts={:?}",
            origin,
            KDF_NAMES.get(kt as usize),
            d,
            KDF_NAMES.get(kt2 as usize).unwrap_or(&"?"),
            eq,
            vb,
            va,
            clears
        ),
        nontrivial,
    );
}

fn emit_load(sink: &mut Sink, d: &DbPasswordV1) {
    let p2 = Password::try_from(db_serde(d)).expect("total");
    let kt2 = ktag(&p2);
    let d2 = p2.to_dbpasswordv1();
    sink.bump("pwload");
    sink.case(
        capp("CLoad", &[cdb(d), cn(kt2), cdb(&d2)]),
        format!("pwload stored={:?} loaded_kdf={} stored_again={:?}", d, KDF_NAMES.get(kt2 as usize).unwrap_or(&"?"), d2),
        true,
    );
}

fn rand_db(rng: &mut Rng, heavy: bool) -> DbPasswordV1 {
    let n1 = rng.below(40) as usize;
    let n2 = rng.below(70) as usize;
    let s = rng.bytes(n1);
    let h = rng.bytes(n2);
    // `heavy` costs are only ever stored and loaded, never fed to a KDF
    let c = if heavy { (rng.next() >> rng.below(64)) as u32 } else { 8 + rng.below(24) as u32 };
    let txt = |rng: &mut Rng| -> String {
        let n = rng.below(30);
        (0..n).map(|_| *rng.pick(&['$', '5', '6', 'a', 'Z', '.', '/', 'é', '1'])).collect()
    };
    match rng.below(15) {
        0 => DbPasswordV1::TPM_ARGON2ID { m: c, t: 1 + rng.below(2) as u32, p: 1, v: rng.below(20) as u32, s: s.into(), k: h.into() },
        1 => DbPasswordV1::ARGON2ID { m: c, t: 1 + rng.below(2) as u32, p: 1, v: rng.below(20) as u32, s: s.into(), k: h.into() },
        2 => DbPasswordV1::PBKDF2(c, s, h),
        3 => DbPasswordV1::PBKDF2_SHA1(c, s, h),
        4 => DbPasswordV1::PBKDF2_SHA512(c, s, h),
        5 => DbPasswordV1::SHA1(h),
        6 => DbPasswordV1::SSHA1(s, h),
        7 => DbPasswordV1::SHA256(h),
        8 => DbPasswordV1::SSHA256(s, h),
        9 => DbPasswordV1::SHA512(h),
        10 => DbPasswordV1::SSHA512(s, h),
        11 => DbPasswordV1::NT_MD4(h),
        12 => DbPasswordV1::CRYPT_MD5 { s: s.into(), h: h.into() },
        13 => DbPasswordV1::CRYPT_SHA256 { h: txt(rng) },
        _ => DbPasswordV1::CRYPT_SHA512 { h: txt(rng) },
    }
}

/// imported passwords with a known cleartext (the vectors of libs/crypto's own tests)
const FIXTURES: &[(&str, &str)] = &[
    ("pbkdf2_sha256$36000$xIEozuZVAoYm$uW1b35DUKyhvQAf1mBqMvoBDcqSD06juzyO/nmyV0+w=", "eicieY7ahchaoCh0eeTa"),
    ("{SHA}W6ph5Mm5Pz8GgiULbPgzG37mj9g=", "password"),
    ("{SSHA}EyzbBiP4u4zxOrLpKTORI/RX3HC6TCTJtnVOCQ==", "password"),
    ("{SHA256}XohImNooBHFR0OVvjcYpJ3NgPQ1qq73WKhHvch0VQtg=", "password"),
    ("{SSHA256}luYWfFJOZgxySTsJXHgIaCYww4yMpu6yest69j/wO5n5OycuHFV/GQ==", "password"),
    ("{SHA512}sQnzu7wkTrgkQZF+0G1hi5AI3Qmzvv0bXgc5THBqi7mAsdd4Xll27ASbRt9fEyavWi6m0QP9B8lThf+rDKy8hg==", "password"),
    ("{SSHA512}JwrSUHkI7FTAfHRVR6KoFlSN0E3dmaQWARjZ+/UsShYlENOqDtFVU77HJLLrY2MuSp0jve52+pwtdVl2QUAHukQ0XUf5LDtM", "password"),
    ("{PBKDF2}10000$IlfapjA351LuDSwYC0IQ8Q$saHqQTuYnjJN/tmAndT.8mJt.6w", "password"),
    ("{PBKDF2-SHA1}10000$ZBEH6B07rgQpJSikyvMU2w$TAA03a5IYkz1QlPsbJKvUsTqNV", "password"),
    ("{PBKDF2-SHA256}10000$henZGfPWw79Cs8ORDeVNrQ$1dTJy73v6n3bnTmTZFghxHXHLsAzKaAy8SksDfZBPIw", "password"),
    ("{PBKDF2-SHA512}10000$Je1Uw19Bfv5lArzZ6V3EPw$g4T/1sqBUYWl9o93MVnyQ/8zKGSkPbKaXXsT8WmysXQJhWy8MRP2JFudSL.N9RklQYgDPxPjnfum/F2f/TrppA", "password"),
    ("{ARGON2}$argon2id$v=19$m=65536,t=2,p=1$IyTQMsvzB2JHDiWx8fq7Ew$VhYOA7AL0kbRXI5g2kOyyp8St1epkNj7WZyUY4pAIQQ", "password"),
    ("ipaNTHash: iEb36u6PsRetBr3YMLdYbA", "password"),
    ("sambaNTPassword: 8846F7EAEE8FB117AD06BDD830B7586C", "password"),
    ("{crypt}$1$zaRIAsoe$7887GzjDTrst0XbDPpF5m.", "password"),
    ("{crypt}$5$3UzV7Sut8EHCUxlN$41V.jtMQmFAOucqI4ImFV43r.bRLjPlN.hyfoCdmGE2", "password"),
    ("{crypt}$6$aXn8azL8DXUyuMvj$9aJJC/KEUwygIpf2MTqjQa.f0MEXNg2cGFc62Fet8XpuDVDedM05CweAlxW6GWxnmHqp14CRf6zU7OQoE/bCu0", "password"),
];

/// a syntactically valid import string of a random format with random salt / hash material
fn rand_import(rng: &mut Rng) -> String {
    let salt_n = 1 + rng.below(24) as usize;
    let salt = rng.bytes(salt_n);
    let h64 = |rng: &mut Rng, n: usize| -> String { (0..n).map(|_| H64[rng.below(64) as usize] as char).collect() };
    match rng.below(13) {
        0 => format!("{{SHA}}{}", b64(&rng.bytes(20), STD, true)),
        1 => format!("{{SSHA}}{}", b64(&[rng.bytes(20), salt].concat(), STD, true)),
        2 => format!("{{SHA256}}{}", b64(&rng.bytes(32), STD, true)),
        3 => format!("{{SSHA256}}{}", b64(&[rng.bytes(32), salt].concat(), STD, true)),
        4 => format!("{{SHA512}}{}", b64(&rng.bytes(64), STD, true)),
        5 => format!("{{SSHA512}}{}", b64(&[rng.bytes(64), salt].concat(), STD, true)),
        6 => format!("{{PBKDF2-SHA1}}{}${}${}", 1 + rng.below(5), b64(&salt, STD, false).replace('+', "."), b64(&rng.bytes(20), STD, false).replace('+', ".")),
        7 => format!("{{PBKDF2-SHA256}}{}${}${}", 1 + rng.below(5), b64(&salt, STD, false).replace('+', "."), b64(&rng.bytes(32), STD, false).replace('+', ".")),
        8 => format!("{{PBKDF2-SHA512}}{}${}${}", 1 + rng.below(5), b64(&salt, STD, false).replace('+', "."), b64(&rng.bytes(64), STD, false).replace('+', ".")),
        9 => format!("sambaNTPassword: {}", rng.bytes(16).iter().map(|b| format!("{:02X}", b)).collect::<String>()),
        10 => format!("{{crypt}}$1${}${}", h64(rng, 8), h64(rng, 22)),
        11 => format!("{{CRYPT}}$5${}${}", h64(rng, 16), h64(rng, 43)),
        _ => format!("{{crypt}}$6${}${}", h64(rng, 16), h64(rng, 86)),
    }
}

fn rand_clear(rng: &mut Rng) -> String {
    let n = rng.below(24);
    (0..n).map(|_| *rng.pick(&['p', 'a', 's', 'w', 'o', 'r', 'd', '1', ' ', 'é', '日', 'Z'])).collect()
}

// ------------------------------------------------------------------ valuesets

fn vk(kind: &str) -> String {
    if hk::KINDS.contains(&kind) { format!("VK_{}", kind) } else { "VK_Other".into() }
}
const TAGS: &[&str] = &[
    "U8", "I8", "N8", "UU", "BO", "SY", "IN", "RF", "JF", "CR", "RU", "SK", "SP", "UI", "I64", "U64", "CI", "NU", "DT",
    "EM", "PN", "AD", "UR", "OS", "OM", "OC", "E2", "PB", "RS", "IT", "PK", "DK", "TE", "AS", "JE", "JR", "OZ", "UH",
    "TO", "AT", "SA", "EK", "IM", "CT", "WC", "KI", "HS", "X509", "AP", "JO", "MS", "S256",
];
fn tg(tag: &str) -> String {
    if TAGS.contains(&tag) { format!("T_{}", tag) } else { "T_Other".into() }
}

/// observations of a valueset other than `equal`
fn observe(vs: &ValueSet, clears: &[String]) -> String {
    let r = guarded(AssertUnwindSafe(|| {
        let mut protos: Vec<String> = vs.to_proto_string_clone_iter().collect();
        protos.sort();
        let mut keys = vs.generate_idx_eq_keys();
        keys.sort();
        let creds = if hk::kind_of(vs) == "Credential" { vs.as_credential_map() } else { None };
        let ver: Vec<String> = match creds {
            Some(m) => m
                .iter()
                .flat_map(|(t, c)| clears.iter().map(move |cl| format!("{}:{:?}", t, c.password_ref().ok().and_then(|p| p.verify(cl).ok()))))
                .collect(),
            None => vec![],
        };
        format!("{}|{:?}|{:?}|{:?}", vs.len(), protos, keys, ver)
    }));
    format!("{}\n{}", r.unwrap_or_else(|e| format!("panic:{e}")), behave(vs))
}

fn tf(r: Result<bool, String>) -> char {
    match r {
        Ok(true) => 't',
        Ok(false) => 'f',
        Err(_) => 'P',
    }
}

/// BEHAVIOURAL probes of a valueset (answers that may depend on derived, unstored state such as
/// ValueSetOauth2Session::rs_filter): for every partial value the set can be asked about - its own
/// `to_partialvalue_iter()`, every uuid `as_ref_uuid_iter()` yields, and a few absent ones - the
/// answers of contains / substring / startswith / endswith / lessthan (t, f, or P = panic), and
/// for the session types the effect of `remove(pv, cid)` on a clone (result, proto strings,
/// canonical stored form afterwards).
fn behave(vs: &ValueSet) -> String {
    let kind = hk::kind_of(vs);
    let mut pvs: Vec<PartialValue> = guarded(AssertUnwindSafe(|| vs.to_partialvalue_iter().collect::<Vec<_>>())).unwrap_or_default();
    let refs: Vec<Uuid> = guarded(AssertUnwindSafe(|| vs.as_ref_uuid_iter().map(|i| i.collect::<Vec<_>>()).unwrap_or_default())).unwrap_or_default();
    pvs.extend(refs.iter().map(|u| PartialValue::Refer(*u)));
    for u in [Uuid::from_u128(0), Uuid::from_u128(u128::MAX), Uuid::from_u128(0xdead_beef_0000_0000_0000_0000_0000_c12c), Uuid::from_u128(1 << 77)] {
        pvs.push(PartialValue::Refer(u));
        pvs.push(PartialValue::Uuid(u));
    }
    pvs.push(PartialValue::new_utf8s("c12-absent"));
    pvs.push(PartialValue::new_iutf8("c12-absent"));
    pvs.push(PartialValue::new_iname("c12-absent"));
    pvs.push(PartialValue::new_utf8s("a"));
    pvs.push(PartialValue::new_iutf8("a"));
    pvs.push(PartialValue::Bool(true));
    pvs.push(PartialValue::Uint32(5000));
    pvs.sort();
    pvs.dedup();
    let session_like = kind == "Session" || kind == "Oauth2Session" || kind == "ApiTokenSet";
    let cid = Cid { ts: Duration::from_secs(777), s_uuid: Uuid::from_u128(0x777) };
    let mut out: Vec<String> = vec![format!("len={}", guarded(AssertUnwindSafe(|| vs.len())).map(|n| n.to_string()).unwrap_or_else(|_| "P".into()))];
    for pv in &pvs {
        let mut line = format!("{:?}:", pv);
        line.push(tf(guarded(AssertUnwindSafe(|| vs.contains(pv)))));
        line.push(tf(guarded(AssertUnwindSafe(|| vs.substring(pv)))));
        line.push(tf(guarded(AssertUnwindSafe(|| vs.startswith(pv)))));
        line.push(tf(guarded(AssertUnwindSafe(|| vs.endswith(pv)))));
        line.push(tf(guarded(AssertUnwindSafe(|| vs.lessthan(pv)))));
        if session_like && matches!(pv, PartialValue::Refer(_)) {
            let mut c = vs.clone();
            let r = guarded(AssertUnwindSafe(|| {
                let removed = c.remove(pv, &cid);
                let mut protos: Vec<String> = c.to_proto_string_clone_iter().collect();
                protos.sort();
                format!("rm={} {:?} {}", removed, protos, hk::vs_stored_canon(&c))
            }));
            line.push_str(&r.unwrap_or_else(|e| format!("rm=P({e})")));
        }
        out.push(line);
    }
    out.join("\n")
}

struct Pool {
    /// (kind, canonical stored form, valueset). Identity of a valueset = its type and its canonical
    /// stored JSON (ValueSetT::equal is unusable for some types: TotpSecret::equal is always false).
    items: Vec<(String, String, ValueSet)>,
    index: BTreeMap<(String, String), usize>,
    info: Vec<Option<(Option<usize>, bool)>>,
    pw: Vec<Vec<u64>>,
}
impl Pool {
    fn new() -> Self {
        Pool { items: vec![], index: BTreeMap::new(), info: vec![], pw: vec![] }
    }
    fn id(&mut self, vs: &ValueSet, pw: &[u64]) -> usize {
        let kind = hk::kind_of(vs);
        let canon = guarded(AssertUnwindSafe(|| hk::vs_stored_canon(vs))).unwrap_or_else(|e| format!("panic:{e}"));
        // identity = type + canonical stored form + behavioural probes (derived state is not stored)
        let canon = format!("{}\n{}", canon, behave(vs));
        if let Some(i) = self.index.get(&(kind.clone(), canon.clone())) {
            return *i;
        }
        self.items.push((kind.clone(), canon.clone(), vs.clone()));
        self.index.insert((kind, canon), self.items.len() - 1);
        self.info.push(None);
        self.pw.push(pw.to_vec());
        self.items.len() - 1
    }
    /// value-level round trip of pooled valueset i: (id of the reloaded set, is it a single uuid)
    fn trip(&mut self, i: usize) -> (Option<usize>, bool) {
        if let Some(r) = &self.info[i] {
            return r.clone();
        }
        let vs = self.items[i].2.clone();
        let pw = self.pw[i].clone();
        let r = match guarded(AssertUnwindSafe(|| hk::vs_roundtrip(&vs))) {
            Ok(t) => match t.back {
                Ok(b) => {
                    let u1 = hk::kind_of(&b) == "Uuid" && b.to_uuid_single().is_some();
                    (Some(self.id(&b, &pw)), u1)
                }
                Err(_) => (None, false),
            },
            Err(_) => (None, false),
        };
        self.info[i] = Some(r.clone());
        r
    }
}

fn emit_vs(sink: &mut Sink, kind: &str, pwtags: &[u64], vs: &ValueSet, clears: &[String]) {
    let k = hk::kind_of(vs);
    let trip = guarded(AssertUnwindSafe(|| hk::vs_roundtrip(vs)));
    let (tag, res, same, restore, obs, note) = match trip {
        Ok(t) => match &t.back {
            Ok(b) => {
                let k2 = hk::kind_of(b);
                // ValueSetT::equal where the type implements it (x == x holds), else the canonical stored form
                let eq_usable = guarded(AssertUnwindSafe(|| vs == vs)).unwrap_or(false);
                let same = k2 == k
                    && if eq_usable {
                        guarded(AssertUnwindSafe(|| b == vs)).unwrap_or(false)
                    } else {
                        hk::vs_stored_canon(b) == hk::vs_stored_canon(vs)
                    };
                if !eq_usable {
                    sink.bump("vs_equal_unusable");
                }
                let obs = observe(vs, clears) == observe(b, clears);
                (t.tag.clone(), Some(k2), same, t.restore_same, obs, format!("stored_len={}", t.stored_len))
            }
            Err(e) => (t.tag.clone(), None, false, false, false, format!("load error: {e}")),
        },
        Err(e) => ("?".to_string(), None, false, false, false, format!("panic: {e}")),
    };
    sink.bump(&format!("vs_{}", kind));
    if res.is_none() {
        sink.bump("vs_load_error");
    }
    let coq = capp(
        "CVs",
        &[
            vk(&k),
            clist(pwtags, |x| cn(*x)),
            tg(&tag),
            copt(&res, |r| vk(r)),
            cbool(same),
            cbool(restore),
            cbool(obs),
        ],
    );
    let dbg = {
        let mut s = guarded(AssertUnwindSafe(|| format!("{:?}", vs))).unwrap_or_default();
        if s.len() > 300 {
            s = s.chars().take(300).collect();
            s.push_str("...");
        }
        s
    };
    sink.case(
        coq,
        format!(
            "vs {} pwkdf={:?} tag={} reloaded={:?} equal={} restores_same={} obs_same={} {} value={}",
            k, pwtags, tag, res, same, restore, obs, note, dbg
        ),
        vs.len() > 0,
    );
}

// ------------------------------------------------------------------ entries

struct Ctx {
    attrs: Intern<String>,
    servers: Intern<Uuid>,
    pool: Pool,
}
impl Ctx {
    fn attr(&mut self, a: &Attribute) -> u64 {
        self.attrs.id(&a.as_str().to_string())
    }
    fn cid(&mut self, c: &Cid) -> String {
        format!("({}, {})", cn128(c.ts.as_nanos()), cn(self.servers.id(&c.s_uuid)))
    }
    fn state(&mut self, s: &HookState) -> String {
        match s {
            HookState::Live { at, changes } => {
                let mut ch: Vec<(u64, String)> = changes.iter().map(|(a, c)| (self.attr(a), self.cid(c))).collect();
                ch.sort();
                let at = self.cid(at);
                capp("Live", &[at, clist(&ch, |(a, c)| format!("({}, {})", cn(*a), c))])
            }
            HookState::Tombstone { at } => capp("Tomb", &[self.cid(at)]),
        }
    }
    /// input attributes of an entry as `aval`s (sorted by attribute id)
    fn avals(&mut self, attrs: &[(Attribute, ValueSet, Vec<u64>)]) -> String {
        let mut v: Vec<(u64, String)> = vec![];
        for (a, vs, pw) in attrs {
            let aid = self.attr(a);
            let id = self.pool.id(vs, pw);
            let (back, u1) = self.pool.trip(id);
            let kind = self.pool.items[id].0.clone();
            let pwl = self.pool.pw[id].clone();
            v.push((
                aid,
                capp(
                    "mkaval",
                    &[
                        cn(aid),
                        cn(id as u64),
                        vk(&kind),
                        clist(&pwl, |x| cn(*x)),
                        cbool(vs.len() == 0),
                        copt(&back, |b| cn(*b as u64)),
                        cbool(u1),
                    ],
                ),
            ));
        }
        v.sort();
        clist(&v, |(_, s)| s.clone())
    }
    fn out(&mut self, e: &HookEntry) -> String {
        let st = self.state(&e.state);
        let mut v: Vec<(u64, u64)> = e
            .attrs
            .iter()
            .map(|(a, vs)| {
                let aid = self.attr(a);
                (aid, self.pool.id(vs, &[]) as u64)
            })
            .collect();
        v.sort();
        capp("EOut", &[st, clist(&v, |(a, i)| format!("({}, {})", cn(*a), cn(*i)))])
    }
}

fn state_txt(s: &HookState) -> String {
    match s {
        HookState::Live { at, changes } => format!(
            "live at={}:{} changes=[{}]",
            at.ts.as_nanos(),
            at.s_uuid,
            changes.iter().map(|(a, c)| format!("{}@{}:{}", a.as_str(), c.ts.as_nanos(), c.s_uuid)).collect::<Vec<_>>().join(",")
        ),
        HookState::Tombstone { at } => format!("tombstone at={}:{}", at.ts.as_nanos(), at.s_uuid),
    }
}

#[allow(clippy::too_many_arguments)]
fn emit_entry(
    sink: &mut Sink,
    ctx: &mut Ctx,
    txn: &QueryServerReadTransaction<'_>,
    origin: &str,
    uuid: Uuid,
    state: &HookState,
    attrs: &[(Attribute, ValueSet, Vec<u64>)],
    ranges: &BTreeMap<Uuid, (Duration, Duration)>,
) {
    let plain: Vec<(Attribute, ValueSet)> = attrs.iter().map(|(a, v, _)| (a.clone(), v.clone())).collect();
    let e = hk::entry_build(uuid, state, &plain, 7);
    let st_in = ctx.state(state);
    let av_in = ctx.avals(attrs);
    let attr_txt: Vec<String> = attrs
        .iter()
        .map(|(a, v, _)| format!("{}:{}#{}(len {})", a.as_str(), hk::kind_of(v), ctx.pool.id(v, &[]), v.len()))
        .collect();
    let nontrivial = attrs.iter().any(|(_, v, _)| v.len() > 0);

    // database / backup encoding
    let r = guarded(AssertUnwindSafe(|| hk::entry_db_roundtrip(&e, 7)));
    let out = match &r {
        Ok(Some((u2, id2, he))) if *u2 == uuid_of(&plain).unwrap_or(*u2) && *id2 == 7 => ctx.out(he),
        Ok(Some(_)) => "EErr".to_string(),
        _ => "EErr".to_string(),
    };
    sink.bump("entry_db");
    sink.case(
        capp("CDb", &[st_in.clone(), av_in.clone(), out.clone()]),
        format!("entry_db {} uuid={} {} attrs=[{}] -> {}", origin, uuid, state_txt(state), attr_txt.join(" "), short(&out)),
        nontrivial,
    );

    // refresh replication encoding
    let mut repl: Vec<u64> = vec![];
    let mut seen: Vec<Attribute> = attrs.iter().map(|(a, _, _)| a.clone()).collect();
    if let HookState::Live { changes, .. } = state {
        seen.extend(changes.iter().map(|(a, _)| a.clone()));
    }
    for a in &seen {
        if hk::schema_is_replicated(txn, a) {
            let id = ctx.attr(a);
            if !repl.contains(&id) {
                repl.push(id);
            }
        }
    }
    repl.sort();
    let at = match state {
        HookState::Live { at, .. } | HookState::Tombstone { at } => at.clone(),
    };
    let tomb_vs: Vec<(Attribute, ValueSet)> = vec![
        (Attribute::Uuid, ValueSetUuid::new(uuid) as ValueSet),
        (Attribute::Class, {
            let mut c = ValueSetIutf8::new("object");
            c.push("tombstone");
            c as ValueSet
        }),
        (Attribute::LastModifiedCid, ValueSetCid::new(at) as ValueSet),
    ];
    let mut tomb: Vec<(u64, u64)> = tomb_vs.iter().map(|(a, v)| (ctx.attr(a), ctx.pool.id(v, &[]) as u64)).collect();
    tomb.sort();
    let tomb_s = clist(&tomb, |(a, i)| format!("({}, {})", cn(*a), cn(*i)));
    let r = guarded(AssertUnwindSafe(|| hk::entry_repl_refresh_roundtrip(&e, txn)));
    let out = match &r {
        Ok(Ok(he)) => ctx.out(he),
        _ => "EErr".to_string(),
    };
    sink.bump("entry_refresh");
    sink.case(
        capp("CRefresh", &[clist(&repl, |x| cn(*x)), tomb_s, st_in.clone(), av_in.clone(), out.clone()]),
        format!("entry_refresh {} uuid={} {} attrs=[{}] -> {}", origin, uuid, state_txt(state), attr_txt.join(" "), short(&out)),
        nontrivial,
    );

    // incremental replication encoding
    let mut rg: Vec<(u64, u128, u128)> = ranges.iter().map(|(u, (a, b))| (ctx.servers.id(u), a.as_nanos(), b.as_nanos())).collect();
    rg.sort();
    let rg_s = clist(&rg, |(s, a, b)| format!("({}, ({}, {}))", cn(*s), cn128(*a), cn128(*b)));
    let r = guarded(AssertUnwindSafe(|| hk::entry_repl_incremental_roundtrip(&e, txn, ranges)));
    let out = match &r {
        Ok(Ok((u2, he))) if *u2 == uuid => ctx.out(he),
        _ => "EErr".to_string(),
    };
    sink.bump("entry_incremental");
    sink.case(
        capp("CIncr", &[clist(&repl, |x| cn(*x)), rg_s, st_in, av_in, out.clone()]),
        format!(
            "entry_incremental {} uuid={} {} attrs=[{}] ranges={:?} -> {}",
            origin,
            uuid,
            state_txt(state),
            attr_txt.join(" "),
            ranges.iter().map(|(u, (a, b))| format!("{}:{}..{}", u, a.as_nanos(), b.as_nanos())).collect::<Vec<_>>(),
            short(&out)
        ),
        nontrivial,
    );
}

fn uuid_of(attrs: &[(Attribute, ValueSet)]) -> Option<Uuid> {
    attrs.iter().find(|(a, v)| *a == Attribute::Uuid && hk::kind_of(v) == "Uuid").and_then(|(_, v)| v.to_uuid_single())
}
fn short(s: &str) -> String {
    if s.len() > 400 {
        format!("{}...", &s[..400])
    } else {
        s.to_string()
    }
}

fn main() {
    let args = parse_args();
    // implementation panics (debug assertions on foreign accessors) are recorded outcomes, not noise
    std::panic::set_hook(Box::new(|i| eprintln!("panic: {}", i.to_string().replace(char::from(10), " "))));
    let mut rng = Rng::new(args.seed);
    let mut sink = Sink::new(&args, "KV.C12.Model", 400);
    sink.rule = "passwords: every import format of libs/crypto with its known cleartext, random syntactically valid imports of every format, generated argon2id/pbkdf2 passwords of random cleartexts, random DbPasswordV1 of all 15 constructors; valuesets: 1..3 random elements of each of the 49 in-memory valueset types (hook generator), credentials built over every KDF; entries: every entry of a freshly initialised server plus synthetic entries over the generated valuesets (random change states incl. tombstones, empty sets, missing/multi uuid, unreplicated attributes, random incremental windows). behavioural probes (contains/substring/startswith/endswith/lessthan for every own partial value, every referenced uuid and absent ones; remove-by-reference on session types) must be identical before and after each round trip and are part of a valueset's identity in entry cases. non-trivial = a password that verifies a cleartext / a non-empty valueset / an entry with a non-empty attribute".into();
    let scale = if args.thorough { 10 } else { 1 };

    // ---------------------------------------------------------------- passwords
    let policy = CryptoPolicy::danger_test_minimum();
    let mut by_tag: BTreeMap<u64, Vec<Password>> = BTreeMap::new();
    for (im, clear) in FIXTURES {
        let p = Password::try_from(*im).expect("fixture import");
        let clears = vec![clear.to_string(), format!("{}1", clear), rand_clear(&mut rng), "x".repeat(513)];
        emit_pw(&mut sink, &format!("import {:?}", im), &p, &clears);
        by_tag.entry(ktag(&p)).or_default().push(p);
    }
    for _ in 0..(120 * scale) {
        let im = rand_import(&mut rng);
        match Password::try_from(im.as_str()) {
            Ok(p) => {
                let clears = vec![rand_clear(&mut rng), "password".to_string()];
                emit_pw(&mut sink, &format!("import {:?}", im), &p, &clears);
                let e = by_tag.entry(ktag(&p)).or_default();
                if e.len() < 4 {
                    e.push(p);
                }
            }
            Err(_) => sink.bump("import_rejected"),
        }
    }
    for i in 0..(12 * scale) {
        let clear = rand_clear(&mut rng);
        let p = if i % 2 == 0 { Password::new_argon2id(&policy, &clear) } else { Password::new_pbkdf2(&policy, &clear) }.expect("new password");
        let clears = vec![clear.clone(), format!("{}x", clear), rand_clear(&mut rng)];
        emit_pw(&mut sink, "generated", &p, &clears);
        by_tag.entry(ktag(&p)).or_default().push(p);
    }
    for _ in 0..(300 * scale) {
        emit_load(&mut sink, &rand_db(&mut rng, true));
        let d = rand_db(&mut rng, false);
        emit_load(&mut sink, &d);
        // passwords loaded from random stored forms also serve as "originals" (covers TPM_ARGON2ID)
        let p = Password::try_from(d).expect("total");
        if rng.chance(1, 3) {
            emit_pw(&mut sink, "loaded", &p, &[rand_clear(&mut rng)]);
        }
        let e = by_tag.entry(ktag(&p)).or_default();
        if e.len() < 4 {
            e.push(p);
        }
    }
    sink.add_stat("kdf_constructors_covered", by_tag.len() as u64);

    // ---------------------------------------------------------------- valuesets
    let rt = tokio::runtime::Builder::new_current_thread().enable_all().build().expect("rt");
    let mut ctx = Ctx { attrs: Intern::new(), servers: Intern::new(), pool: Pool::new() };
    ctx.attrs.id(&Attribute::Uuid.as_str().to_string()); // id 0 = ATTR_UUID of the model
    let clears = vec!["password".to_string(), "passw0rd".to_string()];
    let mut synth: Vec<(ValueSet, Vec<u64>)> = vec![];
    let mut kinds_generated = 0u64;
    let reps = 12 * scale;
    for kind in hk::KINDS {
        let mut any = false;
        let pw_kind = *kind == "Credential" || *kind == "ApplicationPassword";
        let n = if pw_kind { 15 * 2 * scale } else if *kind == "JwsKeyRs256" || *kind == "Certificate" { 2 } else if *kind == "JwsKeyEs256" { 4 } else { reps };
        for i in 0..n {
            // password-bearing valuesets: all embedded passwords share one KDF constructor
            let (pws, tags): (Vec<Password>, Vec<u64>) = if pw_kind {
                let t = (i % 15) as u64;
                match by_tag.get(&t) {
                    Some(v) => (vec![rng.pick(v).clone()], vec![t]),
                    None => continue,
                }
            } else {
                (vec![], vec![])
            };
            let mut tags = tags;
            let mut r = rng.fork();
            let mut next = move || r.next();
            let vs = guarded(AssertUnwindSafe(|| hk::gen_valueset(kind, &mut next, &pws)));
            match vs {
                Ok(Some(vs)) => {
                    // An empty string is not a valid Utf8 value (schema validation rejects it) and
                    // ValueSetUtf8::from_dbvs2 deliberately repairs it to "Not Present" (#4200).
                    if *kind == "Utf8" && vs.as_utf8_iter().map(|mut i| i.any(|s| s.is_empty())).unwrap_or(false) {
                        sink.bump("utf8_empty_string_skipped");
                        continue;
                    }
                    any = true;
                    if *kind == "Message" {
                        // mark 100: the message's expiry_time has a sub-second part
                        if let Some(kanidm_proto::v1::OutboundMessage::CredentialResetV1 { expiry_time, .. }) = vs.as_message() {
                            if expiry_time.nanosecond() != 0 {
                                tags.push(100);
                            }
                            // the expiry itself before / after the round trip (Part D of the model)
                            let t = expiry_time.unix_timestamp_nanos();
                            let t2 = guarded(AssertUnwindSafe(|| hk::vs_roundtrip(&vs)))
                                .ok()
                                .and_then(|tr| tr.back.ok())
                                .and_then(|b| match b.as_message() {
                                    Some(kanidm_proto::v1::OutboundMessage::CredentialResetV1 { expiry_time, .. }) => {
                                        Some(expiry_time.unix_timestamp_nanos())
                                    }
                                    _ => None,
                                });
                            if let (true, Some(t2)) = (t >= 0, t2) {
                                sink.bump("message_expiry");
                                sink.case(
                                    capp("CMsg", &[cn128(t as u128), cn128(t2.max(0) as u128)]),
                                    format!("msgexpiry expiry_ns={} reloaded_expiry_ns={} value={:?}", t, t2, vs.as_message()),
                                    true,
                                );
                            }
                        }
                    }
                    emit_vs(&mut sink, kind, &tags, &vs, &clears);
                    synth.push((vs, tags));
                }
                _ => sink.bump("generator_failed"),
            }
        }
        if any {
            kinds_generated += 1;
        }
    }
    // larger session-type sets: unions of generated sets (2..9 sessions of different clients)
    for kind in ["Oauth2Session", "Session", "ApiTokenSet"] {
        let base: Vec<ValueSet> = synth.iter().filter(|(v, _)| hk::kind_of(v) == kind).map(|(v, _)| v.clone()).collect();
        if base.len() < 2 {
            continue;
        }
        for _ in 0..(10 * scale) {
            let mut acc = rng.pick(&base).clone();
            for _ in 0..rng.range(1, 2) {
                let other = rng.pick(&base).clone();
                let _ = guarded(AssertUnwindSafe(|| acc.merge(&other)));
            }
            // sometimes revoke one client's sessions first
            if rng.chance(1, 3) {
                let refs: Vec<Uuid> = acc.as_ref_uuid_iter().map(|i| i.collect()).unwrap_or_default();
                if !refs.is_empty() {
                    let u = *rng.pick(&refs);
                    let cid = Cid { ts: Duration::from_secs(5), s_uuid: Uuid::from_u128(9) };
                    let _ = guarded(AssertUnwindSafe(|| acc.remove(&PartialValue::Refer(u), &cid)));
                }
            }
            sink.bump("vs_merged_session_sets");
            emit_vs(&mut sink, kind, &[], &acc, &clears);
            synth.push((acc, vec![]));
        }
    }
    sink.add_stat("valueset_types_generated", kinds_generated);
    sink.add_stat("valueset_types_total", hk::KINDS.len() as u64);
    if kinds_generated != hk::KINDS.len() as u64 {
        // a valueset type without a working generator must not pass silently
        sink.case(
            "(CVs VK_Other [] T_Other None false false false)".into(),
            format!("vs MISSING-GENERATOR only {} of {} valueset types could be generated", kinds_generated, hk::KINDS.len()),
            false,
        );
    }

    // ---------------------------------------------------------------- entries
    let qs = rt.block_on(setup_test(TestConfiguration::default()));
    let txn = rt.block_on(qs.read()).expect("read txn");
    let mut txn = txn;
    let all = txn.internal_search(kanidmd_lib::filter_all!(f_pres(Attribute::Class))).expect("search");
    sink.add_stat("server_entries", all.len() as u64);
    let step = if args.thorough { 1 } else { 3 };
    for (i, e) in all.iter().enumerate() {
        // every value of every server entry goes through the value round trip
        let parts = hk::entry_parts(e);
        if i % step != 0 {
            continue;
        }
        let attrs: Vec<(Attribute, ValueSet, Vec<u64>)> = parts.attrs.iter().map(|(a, v)| (a.clone(), v.clone(), vec![])).collect();
        // window: the entry's own servers, sometimes covering, sometimes not
        let mut ranges = BTreeMap::new();
        if let HookState::Live { at, changes } = &parts.state {
            let hi = changes.iter().map(|(_, c)| c.ts).max().unwrap_or(at.ts);
            let lo = match rng.below(3) {
                0 => Duration::from_secs(0),
                1 => at.ts,
                _ => hi,
            };
            ranges.insert(at.s_uuid, (lo, hi));
        }
        emit_entry(&mut sink, &mut ctx, &txn, "server", e.get_uuid(), &parts.state, &attrs, &ranges);
    }
    // distinct value sets of the live server, each through the value round trip too
    let mut seen_kinds: BTreeMap<String, u64> = BTreeMap::new();
    for e in all.iter() {
        for (_, vs) in hk::entry_parts(e).attrs.iter() {
            let k = hk::kind_of(vs);
            let c = seen_kinds.entry(k.clone()).or_insert(0);
            if *c < (if args.thorough { 200 } else { 40 }) {
                *c += 1;
                emit_vs(&mut sink, &format!("server_{}", k), &[], vs, &clears);
            }
        }
    }

    // synthetic entries over the generated valuesets
    let attr_pool: Vec<Attribute> = vec![
        Attribute::Uuid, Attribute::Class, Attribute::Name, Attribute::DisplayName, Attribute::Description, Attribute::Member,
        Attribute::MemberOf, Attribute::DirectMemberOf, Attribute::Mail, Attribute::PrimaryCredential, Attribute::UserAuthTokenSession,
        Attribute::OAuth2Session, Attribute::ApiTokenSession, Attribute::SshPublicKey, Attribute::PassKeys, Attribute::LastModifiedCid,
        Attribute::CreatedAtCid, Attribute::Spn, Attribute::GidNumber, Attribute::Image, Attribute::KeyInternalData, Attribute::Es256PrivateKeyDer,
        Attribute::Rs256PrivateKeyDer, Attribute::UnixPassword, Attribute::RadiusSecret, Attribute::AccountExpire, Attribute::IdVerificationEcKey,
        Attribute::from("c12_not_in_schema"),
    ];
    let servers: Vec<Uuid> = (1..=3u128).map(Uuid::from_u128).collect();
    let n_synth = 400 * scale as usize;
    for _ in 0..n_synth {
        let uuid = Uuid::from_u128(0xC12_0000 + rng.below(1000) as u128);
        let mut attrs: Vec<(Attribute, ValueSet, Vec<u64>)> = vec![];
        match rng.below(10) {
            0 => {} // no uuid attribute at all
            1 => {
                let mut v = ValueSetUuid::new(uuid);
                v.push(Uuid::from_u128(5));
                attrs.push((Attribute::Uuid, v as ValueSet, vec![]));
            }
            _ => attrs.push((Attribute::Uuid, ValueSetUuid::new(uuid) as ValueSet, vec![])),
        }
        let na = rng.range(1, 6);
        for _ in 0..na {
            let a = rng.pick(&attr_pool[1..]).clone();
            if attrs.iter().any(|(x, _, _)| *x == a) {
                continue;
            }
            let (vs, tags) = rng.pick(&synth).clone();
            let mut vs = vs;
            if rng.chance(1, 8) {
                // some types debug_assert in clear(); keep the set then
                let mut c = vs.clone();
                if guarded(AssertUnwindSafe(|| { c.clear(); c.len() })).map(|n| n == 0).unwrap_or(false) {
                    let mut c2 = vs.clone();
                    c2.clear();
                    vs = c2;
                }
            }
            attrs.push((a, vs, tags));
        }
        let mk_cid = |rng: &mut Rng| Cid { ts: Duration::from_nanos(rng.below(40)), s_uuid: *rng.pick(&servers) };
        let state = if rng.chance(1, 8) {
            HookState::Tombstone { at: mk_cid(&mut rng) }
        } else {
            let mut changes: Vec<(Attribute, Cid)> = vec![];
            for (a, _, _) in &attrs {
                if rng.chance(5, 6) {
                    changes.push((a.clone(), mk_cid(&mut rng)));
                }
            }
            // change records of attributes that are no longer present (purged)
            for _ in 0..rng.below(3) {
                let a = rng.pick(&attr_pool).clone();
                if !changes.iter().any(|(x, _)| *x == a) {
                    changes.push((a, mk_cid(&mut rng)));
                }
            }
            HookState::Live { at: mk_cid(&mut rng), changes }
        };
        let mut ranges = BTreeMap::new();
        for s in &servers {
            if rng.chance(3, 4) {
                let a = rng.below(40);
                let b = a + rng.below(40 - a);
                ranges.insert(*s, (Duration::from_nanos(a), Duration::from_nanos(b)));
            }
        }
        emit_entry(&mut sink, &mut ctx, &txn, "synthetic", uuid, &state, &attrs, &ranges);
    }
    sink.add_stat("distinct_valuesets_in_entries", ctx.pool.items.len() as u64);
    drop(txn);
    sink.finish();
}
