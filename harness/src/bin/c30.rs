//! C30 — Password::try_from(&str) / TryFrom<DbPasswordV1> + Password::verify (libs/crypto/src/lib.rs,
//! crypt_md5.rs, sha-crypt) vs the Coq model (agree) and the Coq reference generators (pcheck).
//!
//! Every case = one stored value (an imported string or a structured DbPasswordV1) with a list of
//! candidate cleartexts and what the REAL code answered for each (import refused / Ok(bool) / Err /
//! panic).  "Generated" cases also say with which format parameters and for which cleartext the hash
//! was produced; the harness produces it with ordinary Rust crates (sha1/sha2/md4/md-5/pbkdf2/sha-crypt
//! and a local reference md5-crypt), and the Coq side REGENERATES the stored value with its own
//! Gallina implementation and requires equality — a wrong harness generator is a pcheck failure.
//! The verdicts are computed inside Coq only.
use crypto_glue::argon2::{Algorithm, Argon2, Params, Version};
use crypto_glue::pbkdf2::pbkdf2_hmac;
use crypto_glue::traits::Digest;
use crypto_glue::{s256::Sha256, s512::Sha512, sha1::Sha1};
use kanidm_lib_crypto::{CryptoPolicy, DbPasswordV1, Password, PasswordError};
use kvh::*;
use std::convert::TryFrom;

// ------------------------------------------------------------------ encoders (harness side)
const STD: &[u8; 64] = b"ABCDEFGHIJKLMNOPQRSTUVWXYZabcdefghijklmnopqrstuvwxyz0123456789+/";
const URL: &[u8; 64] = b"ABCDEFGHIJKLMNOPQRSTUVWXYZabcdefghijklmnopqrstuvwxyz0123456789-_";
const H64: &[u8; 64] = b"./0123456789ABCDEFGHIJKLMNOPQRSTUVWXYZabcdefghijklmnopqrstuvwxyz";

fn b64(tab: &[u8; 64], pad: bool, b: &[u8]) -> String {
    let mut o = String::new();
    for ch in b.chunks(3) {
        let n = (ch[0] as u32) << 16 | (*ch.get(1).unwrap_or(&0) as u32) << 8 | *ch.get(2).unwrap_or(&0) as u32;
        o.push(tab[(n >> 18) as usize & 63] as char);
        o.push(tab[(n >> 12) as usize & 63] as char);
        if ch.len() > 1 {
            o.push(tab[(n >> 6) as usize & 63] as char);
        } else if pad {
            o.push('=');
        }
        if ch.len() > 2 {
            o.push(tab[n as usize & 63] as char);
        } else if pad {
            o.push('=');
        }
    }
    o
}
fn ab64(b: &[u8]) -> String {
    b64(STD, false, b).replace('+', ".")
}
fn hexs(up: bool, b: &[u8]) -> String {
    b.iter().map(|x| if up { format!("{:02X}", x) } else { format!("{:02x}", x) }).collect()
}
/// crypt(3) hash64 of a 24-bit group: low 6 bits first
fn to64(mut v: u32, n: usize, o: &mut String) {
    for _ in 0..n {
        o.push(H64[(v & 63) as usize] as char);
        v >>= 6;
    }
}

/// reference md5-crypt (FreeBSD crypt-md5.c structure: salt at most 8 characters)
fn md5crypt_ref(pw: &[u8], salt_in: &[u8]) -> String {
    use md5::Md5;
    let salt = &salt_in[..salt_in.len().min(8)];
    let mut alt = Md5::new();
    alt.update(pw);
    alt.update(salt);
    alt.update(pw);
    let fin = alt.finalize();
    let mut ctx = Md5::new();
    ctx.update(pw);
    ctx.update(b"$1$");
    ctx.update(salt);
    let mut pl = pw.len() as isize;
    while pl > 0 {
        ctx.update(&fin[..(if pl > 16 { 16 } else { pl as usize })]);
        pl -= 16;
    }
    let mut i = pw.len();
    while i > 0 {
        if i & 1 == 1 {
            ctx.update([0u8]);
        } else {
            ctx.update(&pw[..1]);
        }
        i >>= 1;
    }
    let mut f = ctx.finalize();
    for r in 0..1000 {
        let mut c = Md5::new();
        if r & 1 == 1 { c.update(pw) } else { c.update(f) }
        if r % 3 != 0 { c.update(salt) }
        if r % 7 != 0 { c.update(pw) }
        if r & 1 == 1 { c.update(f) } else { c.update(pw) }
        f = c.finalize();
    }
    let mut o = String::new();
    for (a, b, c) in [(0, 6, 12), (1, 7, 13), (2, 8, 14), (3, 9, 15), (4, 10, 5)] {
        to64((f[a] as u32) << 16 | (f[b] as u32) << 8 | f[c] as u32, 4, &mut o);
    }
    to64(f[11] as u32, 2, &mut o);
    o
}

// ------------------------------------------------------------------ generators
#[derive(Clone, Debug)]
enum Gen {
    DbArgon { m: u32, t: u32, p: u32, v: u32, salt: Vec<u8>, klen: usize },
    DbPbkdf2 { c: u32, salt: Vec<u8>, klen: usize },
    Django { c: u32, salt: Vec<u8> },
    Ldap { variant: u8, up: bool, c: u32, salt: Vec<u8> },
    Sha { bits: u32, up: bool },
    Ssha { bits: u32, up: bool, salt: Vec<u8> },
    NtIpa,
    NtSamba { up: bool },
    CryptMd5 { salt: Vec<u8> },
    CryptSha { is512: bool, rounds: Option<u64>, salt: Vec<u8> },
}

enum Stored {
    Str(String),
    Db(DbPasswordV1),
}

fn argon(m: u32, t: u32, p: u32, v: u32, salt: &[u8], pw: &[u8], klen: usize) -> Option<Vec<u8>> {
    let version: Version = v.try_into().ok()?;
    let params = Params::new(m, t, p, Some(klen)).ok()?;
    let a = Argon2::new(Algorithm::Argon2id, version, params);
    let mut out = vec![0u8; klen];
    a.hash_password_into(pw, salt, &mut out).ok()?;
    Some(out)
}

fn sha_n(bits: u32, data: &[u8]) -> Vec<u8> {
    match bits {
        1 => Sha1::digest(data).to_vec(),
        256 => Sha256::digest(data).to_vec(),
        _ => Sha512::digest(data).to_vec(),
    }
}
fn sha_name(bits: u32) -> &'static str {
    match bits {
        1 => "SHA",
        256 => "SHA256",
        _ => "SHA512",
    }
}
fn scheme(up: bool, name: &str) -> String {
    if up { format!("{{{}}}", name) } else { format!("{{{}}}", name.to_lowercase()) }
}
fn nt(pw: &str) -> Vec<u8> {
    use md4::Md4;
    let u: Vec<u8> = pw.encode_utf16().flat_map(|c| c.to_le_bytes()).collect();
    Md4::digest(&u).to_vec()
}

/// what an independent implementation stores for `pw` with parameters `g`
fn produce(g: &Gen, pw: &str) -> Option<Stored> {
    let pwb = pw.as_bytes();
    Some(match g {
        Gen::DbArgon { m, t, p, v, salt, klen } => {
            let k = argon(*m, *t, *p, *v, salt, pwb, *klen)?;
            Stored::Db(DbPasswordV1::ARGON2ID { m: *m, t: *t, p: *p, v: *v, s: salt.clone().into(), k: k.into() })
        }
        Gen::DbPbkdf2 { c, salt, klen } => {
            let mut k = vec![0u8; *klen];
            pbkdf2_hmac::<Sha256>(pwb, salt, *c, &mut k);
            Stored::Db(DbPasswordV1::PBKDF2(*c, salt.clone(), k))
        }
        Gen::Django { c, salt } => {
            let mut k = vec![0u8; 32];
            pbkdf2_hmac::<Sha256>(pwb, salt, *c, &mut k);
            Stored::Str(format!("pbkdf2_sha256${}${}${}", c, String::from_utf8_lossy(salt), b64(STD, true, &k)))
        }
        Gen::Ldap { variant, up, c, salt } => {
            let (name, k) = match variant {
                0 | 1 => {
                    let mut k = vec![0u8; 20];
                    pbkdf2_hmac::<Sha1>(pwb, salt, *c, &mut k);
                    (if *variant == 0 { "PBKDF2" } else { "PBKDF2-SHA1" }, k)
                }
                2 => {
                    let mut k = vec![0u8; 32];
                    pbkdf2_hmac::<Sha256>(pwb, salt, *c, &mut k);
                    ("PBKDF2-SHA256", k)
                }
                _ => {
                    let mut k = vec![0u8; 64];
                    pbkdf2_hmac::<Sha512>(pwb, salt, *c, &mut k);
                    ("PBKDF2-SHA512", k)
                }
            };
            Stored::Str(format!("{}{}${}${}", scheme(*up, name), c, ab64(salt), ab64(&k)))
        }
        Gen::Sha { bits, up } => Stored::Str(format!("{}{}", scheme(*up, sha_name(*bits)), b64(STD, true, &sha_n(*bits, pwb)))),
        Gen::Ssha { bits, up, salt } => {
            let mut d = pwb.to_vec();
            d.extend_from_slice(salt);
            let mut h = sha_n(*bits, &d);
            h.extend_from_slice(salt);
            Stored::Str(format!("{}{}", scheme(*up, &format!("S{}", sha_name(*bits))), b64(STD, true, &h)))
        }
        Gen::NtIpa => Stored::Str(format!("ipaNTHash: {}", b64(URL, false, &nt(pw)))),
        Gen::NtSamba { up } => Stored::Str(format!("sambaNTPassword: {}", hexs(*up, &nt(pw)))),
        Gen::CryptMd5 { salt } => {
            Stored::Str(format!("{{crypt}}$1${}${}", String::from_utf8_lossy(salt), md5crypt_ref(pwb, salt)))
        }
        Gen::CryptSha { is512, rounds, salt } => {
            let r = rounds.unwrap_or(5000) as usize;
            let h = if *is512 {
                sha_crypt::sha512_crypt_b64(pwb, salt, &sha_crypt::Sha512Params::new(r).ok()?).ok()?
            } else {
                sha_crypt::sha256_crypt_b64(pwb, salt, &sha_crypt::Sha256Params::new(r).ok()?).ok()?
            };
            let rs = match rounds {
                Some(r) => format!("rounds={}$", r),
                None => String::new(),
            };
            Stored::Str(format!("{{crypt}}${}${}{}${}", if *is512 { 6 } else { 5 }, rs, String::from_utf8_lossy(salt), h))
        }
    })
}

// ------------------------------------------------------------------ Coq printing
fn hx(b: &[u8]) -> String {
    format!("(hex \"{}\"%string)", hexs(false, b))
}
fn cgen(g: &Gen) -> String {
    let ob = |b: bool| cbool(b);
    match g {
        Gen::DbArgon { m, t, p, v, salt, klen } => capp(
            "GDbArgon2id",
            &[cn(*m as u64), cn(*t as u64), cn(*p as u64), cn(*v as u64), hx(salt), cnat(*klen)],
        ),
        Gen::DbPbkdf2 { c, salt, klen } => capp("GDbPbkdf2", &[cn(*c as u64), hx(salt), cnat(*klen)]),
        Gen::Django { c, salt } => capp("GDjango", &[cn(*c as u64), hx(salt)]),
        Gen::Ldap { variant, up, c, salt } => capp("GLdapPbkdf2", &[cn(*variant as u64), ob(*up), cn(*c as u64), hx(salt)]),
        Gen::Sha { bits, up } => capp("GSha", &[cn(*bits as u64), ob(*up)]),
        Gen::Ssha { bits, up, salt } => capp("GSsha", &[cn(*bits as u64), ob(*up), hx(salt)]),
        Gen::NtIpa => "GNtIpa".into(),
        Gen::NtSamba { up } => capp("GNtSamba", &[ob(*up)]),
        Gen::CryptMd5 { salt } => capp("GCryptMd5", &[hx(salt)]),
        Gen::CryptSha { is512, rounds, salt } => capp("GCryptSha", &[ob(*is512), copt(rounds, |r| cn(*r)), hx(salt)]),
    }
}
fn ckdf(d: &DbPasswordV1) -> Option<String> {
    Some(match d.clone() {
        DbPasswordV1::ARGON2ID { m, t, p, v, s, k } => {
            let s: Vec<u8> = s.into();
            let k: Vec<u8> = k.into();
            capp("KArgon2id", &[cn(m as u64), cn(t as u64), cn(p as u64), cn(v as u64), hx(&s), hx(&k)])
        }
        DbPasswordV1::PBKDF2(c, s, h) => capp("KPbkdf2", &[cn(c as u64), hx(&s), hx(&h)]),
        DbPasswordV1::PBKDF2_SHA1(c, s, h) => capp("KPbkdf2Sha1", &[cn(c as u64), hx(&s), hx(&h)]),
        DbPasswordV1::PBKDF2_SHA512(c, s, h) => capp("KPbkdf2Sha512", &[cn(c as u64), hx(&s), hx(&h)]),
        DbPasswordV1::SHA1(h) => capp("KSha1", &[hx(&h)]),
        DbPasswordV1::SSHA1(s, h) => capp("KSsha1", &[hx(&s), hx(&h)]),
        DbPasswordV1::SHA256(h) => capp("KSha256", &[hx(&h)]),
        DbPasswordV1::SSHA256(s, h) => capp("KSsha256", &[hx(&s), hx(&h)]),
        DbPasswordV1::SHA512(h) => capp("KSha512", &[hx(&h)]),
        DbPasswordV1::SSHA512(s, h) => capp("KSsha512", &[hx(&s), hx(&h)]),
        DbPasswordV1::NT_MD4(h) => capp("KNtMd4", &[hx(&h)]),
        DbPasswordV1::CRYPT_MD5 { s, h } => {
            let s: Vec<u8> = s.into();
            let h: Vec<u8> = h.into();
            capp("KCryptMd5", &[hx(&s), hx(&h)])
        }
        DbPasswordV1::CRYPT_SHA256 { h } => capp("KCryptSha256", &[hx(h.as_bytes())]),
        DbPasswordV1::CRYPT_SHA512 { h } => capp("KCryptSha512", &[hx(h.as_bytes())]),
        DbPasswordV1::TPM_ARGON2ID { .. } => return None,
    })
}
fn cerr(e: &PasswordError) -> &'static str {
    match e {
        PasswordError::Base64Decoding => "EBase64",
        PasswordError::InvalidFormat => "EInvalidFormat",
        PasswordError::InvalidKeyLength => "EInvalidKeyLength",
        PasswordError::InvalidLength => "EInvalidLength",
        PasswordError::InvalidSaltLength => "EInvalidSaltLength",
        PasswordError::UnsupportedAlgorithm(_) => "EUnsupported",
        PasswordError::NoDecoderFound(_) => "ENoDecoder",
        PasswordError::ParsingFailed => "EParsing",
    }
}

struct Out {
    coq: String,
    txt: String,
    nontrivial: bool,
    slow: bool,
    kind: String,
    accepted: u64,
    rejected: u64,
    panics: u64,
}

/// run the REAL code on one stored value and its candidates
fn run_case(gen: Option<(&Gen, &str)>, stored: &Stored, atts: &[String], kind: &str, slow: bool) -> Out {
    let (pw_obj, perr): (Option<Password>, Option<PasswordError>) = match stored {
        Stored::Str(s) => match guarded(|| Password::try_from(s.as_str())) {
            Ok(Ok(p)) => (Some(p), None),
            Ok(Err(e)) => (None, Some(e)),
            Err(_) => (None, None),
        },
        Stored::Db(d) => (Password::try_from(d.clone()).ok(), None),
    };
    // Argon2id oracle table (the primitive is trusted; kanidm's plumbing around it is what is checked)
    let mut oracle: Vec<String> = vec![];
    let argon_params: Option<(u32, u32, u32, u32, Vec<u8>, usize)> = match stored {
        Stored::Db(DbPasswordV1::ARGON2ID { m, t, p, v, s, k }) => {
            let s: Vec<u8> = s.clone().into();
            let k: Vec<u8> = k.clone().into();
            Some((*m, *t, *p, *v, s, k.len()))
        }
        _ => None,
    };
    if let Some((m, t, p, v, s, klen)) = &argon_params {
        let mut pws: Vec<&str> = atts.iter().map(|a| a.as_str()).collect();
        if let Some((_, pw0)) = gen {
            pws.push(pw0);
        }
        pws.sort();
        pws.dedup();
        for pw in pws {
            let r = argon(*m, *t, *p, *v, s, pw.as_bytes(), *klen);
            oracle.push(format!(
                "(({}, {}, {}, {}, {}, {}, {}), {})",
                cn(*m as u64), cn(*t as u64), cn(*p as u64), cn(*v as u64), hx(s), hx(pw.as_bytes()), cnat(*klen),
                copt(&r, |k| hx(k))
            ));
        }
    }
    let (mut acc, mut rej, mut pan) = (0, 0, 0);
    let mut catt = vec![];
    let mut tatt = vec![];
    for a in atts {
        let (o, t) = match (&pw_obj, &perr) {
            (Some(p), _) => {
                let p2 = p.clone();
                let a2 = a.clone();
                match guarded(move || p2.verify(a2.as_str())) {
                    Ok(Ok(b)) => {
                        if b { acc += 1 } else { rej += 1 }
                        (format!("(OVer (VOk {}))", cbool(b)), format!("{}", b))
                    }
                    Ok(Err(e)) => ("(OVer VErr)".to_string(), format!("Err({:?})", e)),
                    Err(_) => {
                        pan += 1;
                        ("(OVer VPanic)".to_string(), "PANIC".to_string())
                    }
                }
            }
            (None, Some(e)) => (format!("(OParse {})", cerr(e)), format!("import refused: {:?}", e)),
            (None, None) => ("(OVer VPanic)".to_string(), "PANIC at import".to_string()),
        };
        catt.push(format!("({}, {})", hx(a.as_bytes()), o));
        let shown: String = a.chars().take(40).collect();
        tatt.push(format!("{:?}[{}B]=>{}", shown, a.len(), t));
    }
    let cst = match stored {
        Stored::Str(s) => capp("SStr", &[hx(s.as_bytes())]),
        Stored::Db(d) => capp("SDb", &[ckdf(d).expect("kdf")]),
    };
    let tst = match stored {
        Stored::Str(s) => format!("{:?}", s),
        Stored::Db(d) => format!("Db:{:?}", d),
    };
    let cg = match gen {
        Some((g, pw0)) => format!("(Some ({}, {}))", cgen(g), hx(pw0.as_bytes())),
        None => "None".to_string(),
    };
    let tg = match gen {
        Some((g, pw0)) => format!("generated {:?} for {:?}[{}B]", g, pw0.chars().take(40).collect::<String>(), pw0.len()),
        None => "hand-made".to_string(),
    };
    Out {
        coq: format!("(Case {} {} {} {})", cg, cst, clist_s(&oracle), clist_s(&catt)),
        txt: format!("{} {} stored={} candidates: {}", kind, tg, tst, tatt.join(" ; ")),
        nontrivial: acc > 0 && (rej > 0 || gen.is_none()) || pan > 0,
        slow,
        kind: kind.to_string(),
        accepted: acc,
        rejected: rej,
        panics: pan,
    }
}

// ------------------------------------------------------------------ random inputs
const WORDS: &[&str] = &["password", "correct horse", "Tr0ub4dor&3", "hunter2", "pässwörd", "密码123", "пароль", "🔑secret🔒", "a", "", " ", "p@$$w0rd{}", "naïve café"];

fn cleartext(rng: &mut Rng) -> String {
    match rng.below(12) {
        0 => String::new(),
        1 => ((b'a' + rng.below(26) as u8) as char).to_string(),
        2 | 3 => {
            // non-ASCII: BMP and astral code points (surrogate pairs in UTF-16)
            let n = rng.range(1, 12);
            (0..n)
                .map(|_| match rng.below(5) {
                    0 => char::from_u32(0x1F600 + rng.below(64) as u32).unwrap_or('x'),
                    1 => char::from_u32(0x4E00 + rng.below(2000) as u32).unwrap_or('x'),
                    2 => char::from_u32(0xC0 + rng.below(0x100) as u32).unwrap_or('x'),
                    3 => char::from_u32(0x400 + rng.below(0x60) as u32).unwrap_or('x'),
                    _ => (0x21 + rng.below(0x5e) as u8) as char,
                })
                .collect()
        }
        4 => {
            // long: around the hash block sizes
            let n = *rng.pick(&[15usize, 16, 17, 31, 32, 33, 55, 56, 63, 64, 65, 111, 112, 119, 128, 129]);
            (0..n).map(|_| (0x21 + rng.below(0x5e) as u8) as char).collect()
        }
        5 | 6 => rng.pick(WORDS).to_string(),
        _ => {
            let n = rng.range(2, 24);
            (0..n).map(|_| (0x20 + rng.below(0x5f) as u8) as char).collect()
        }
    }
}
/// right, near-miss and wrong candidates for `pw`
fn candidates(rng: &mut Rng, pw: &str, n_wrong: usize) -> Vec<String> {
    let mut v = vec![pw.to_string()];
    let mut near: Vec<String> = vec![];
    // case flip of the first ASCII letter
    if let Some(i) = pw.find(|c: char| c.is_ascii_alphabetic()) {
        let mut b = pw.as_bytes().to_vec();
        b[i] ^= 0x20;
        near.push(String::from_utf8(b).unwrap_or_default());
    }
    near.push(format!("{}{}", pw, (0x21 + rng.below(0x5e) as u8) as char));
    near.push(format!("{} ", pw));
    near.push(format!("{}\0", pw));
    if !pw.is_empty() {
        let mut t = pw.to_string();
        t.pop();
        near.push(t);
        let mut cs: Vec<char> = pw.chars().collect();
        cs.remove(0);
        near.push(cs.into_iter().collect());
    }
    near.push(cleartext(rng));
    near.push(String::new());
    rng.shuffle(&mut near);
    for x in near {
        if v.len() > n_wrong {
            break;
        }
        if !v.contains(&x) {
            v.push(x);
        }
    }
    rng.shuffle(&mut v);
    v
}
fn h64salt(rng: &mut Rng, n: usize) -> Vec<u8> {
    (0..n).map(|_| H64[rng.below(64) as usize]).collect()
}
fn alnum(rng: &mut Rng, n: usize) -> Vec<u8> {
    (0..n).map(|_| *rng.pick(b"ABCDEFGHIJKLMNOPQRSTUVWXYZabcdefghijklmnopqrstuvwxyz0123456789")).collect()
}

fn main() {
    let args = parse_args();
    let mut rng = Rng::new(args.seed);
    let shard = if args.thorough { 40 } else { 26 };
    let mut sink = Sink::new(&args, "KV.C30.Model", shard);
    sink.import("Coq.Strings.String");
    sink.import("KV.C29.Hash");
    sink.import("KV.C30.Prim");
    sink.rule = "stored values: (a) GENERATED — for every supported format (DbPasswordV1 ARGON2ID and PBKDF2 incl. the \
                 ones kanidm's own Password::new_argon2id/new_pbkdf2 produce, Django pbkdf2_sha256, OpenLDAP {PBKDF2}/-SHA1/-SHA256/\
                 -SHA512, 389-ds {SHA}/{SSHA}/{SHA256}/{SSHA256}/{SHA512}/{SSHA512} in both spellings, ipaNTHash, \
                 sambaNTPassword, {crypt} $1$ / $5$ / $6$ with and without rounds=) the hash of a random cleartext (empty, \
                 1 byte, ASCII, non-ASCII incl. astral code points, lengths around the hash block sizes, up to and over 512 \
                 bytes) with random salt (lengths 0..32 as the format allows) and low cost (PBKDF2 1..12 iterations, crypt \
                 rounds 1000..1010 or the default 5000, Argon2id m 8..32 KiB t 1..2), checked with the right cleartext, near \
                 misses (case flip, one more / one fewer character, trailing space or NUL) and unrelated ones; (b) HAND-MADE — \
                 mutated, non-canonical and malformed strings (changed character, overlong crypt salts, surplus hash \
                 characters, rounds=01000 / out of range, '+' and padding in ab64, padded ipaNTHash, mixed-case schemes, \
                 truncated base64, wrong digest lengths, unknown schemes, undecodable $5$/$6$ hash fields). one case = one \
                 stored value with all its candidates and what the real Password::try_from + verify answered for each. \
                 non-trivial = a case in which the real code accepted at least one candidate and (for generated hashes) \
                 rejected at least one other, or panicked"
        .into();
    std::panic::set_hook(Box::new(|_| {}));
    // self-test of the harness-side reference md5-crypt against the glibc value used in kanidm's own test
    assert_eq!(md5crypt_ref(b"password", b"zaRIAsoe"), "7887GzjDTrst0XbDPpF5m.");

    let th = args.thorough;
    let mut outs: Vec<Out> = vec![];
    let gen_case = |rng: &mut Rng, outs: &mut Vec<Out>, g: Gen, pw: String, n_wrong: usize, kind: &str, slow: bool| {
        if let Some(st) = produce(&g, &pw) {
            let atts = candidates(rng, &pw, n_wrong);
            outs.push(run_case(Some((&g, &pw)), &st, &atts, kind, slow));
        }
    };

    // ---- (a) generated, cheap formats
    let n_cheap = if th { 40 } else { 8 };
    for _ in 0..n_cheap {
        for bits in [1u32, 256, 512] {
            let pw = cleartext(&mut rng);
            let g = Gen::Sha { bits, up: rng.chance(1, 2) };
            gen_case(&mut rng, &mut outs, g, pw, 4, "sha", false);
            let pw = cleartext(&mut rng);
            let sl = *rng.pick(&[1usize, 4, 8, 8, 16, 20, 32]);
            let salt = rng.bytes(sl);
            let g = Gen::Ssha { bits, up: rng.chance(1, 2), salt };
            gen_case(&mut rng, &mut outs, g, pw, 4, "ssha", false);
        }
        let pw = cleartext(&mut rng);
        gen_case(&mut rng, &mut outs, Gen::NtIpa, pw, 4, "nt-ipa", false);
        let pw = cleartext(&mut rng);
        let g = Gen::NtSamba { up: rng.chance(1, 2) };
        gen_case(&mut rng, &mut outs, g, pw, 4, "nt-samba", false);
    }
    // ---- PBKDF2 family (low cost)
    let n_pb = if th { 16 } else { 3 };
    for _ in 0..n_pb {
        let pw = cleartext(&mut rng);
        let sl = rng.range(0, 20) as usize;
        let g = Gen::Django { c: rng.range(1, 12) as u32, salt: alnum(&mut rng, sl.max(1)) };
        gen_case(&mut rng, &mut outs, g, pw, 2, "django", false);
        for variant in 0..4u8 {
            let pw = cleartext(&mut rng);
            let sl = *rng.pick(&[0usize, 1, 8, 16, 16, 17, 24]);
            let g = Gen::Ldap { variant, up: rng.chance(2, 3), c: rng.range(1, if variant == 3 { 4 } else { 10 }) as u32, salt: rng.bytes(sl) };
            gen_case(&mut rng, &mut outs, g, pw, 2, "ldap-pbkdf2", false);
        }
        let pw = cleartext(&mut rng);
        let klen = *rng.pick(&[32usize, 32, 33, 64, 40]);
        let g = Gen::DbPbkdf2 { c: rng.range(1, 10) as u32, salt: rng.bytes(24), klen };
        gen_case(&mut rng, &mut outs, g, pw, 2, "db-pbkdf2", false);
    }
    // ---- Argon2id (oracle primitive)
    let n_ar = if th { 24 } else { 6 };
    for i in 0..n_ar {
        let pw = cleartext(&mut rng);
        let p = rng.range(1, 2) as u32;
        let m = 8 * p + rng.below(3) as u32 * 8;
        let v = if i % 5 == 4 { 0x10 } else { 0x13 };
        let sl = *rng.pick(&[8usize, 16, 16, 24]);
        let g = Gen::DbArgon { m, t: rng.range(1, 2) as u32, p, v, salt: rng.bytes(sl), klen: *rng.pick(&[32usize, 32, 16, 64]) };
        gen_case(&mut rng, &mut outs, g, pw, 4, "db-argon2id", false);
    }
    // kanidm's own generators: the stored value comes from the REAL Password::new_*; the Coq side must
    // regenerate it from (parameters, cleartext) with its own PBKDF2 / the oracle
    {
        let pol = CryptoPolicy::danger_test_minimum();
        for _ in 0..(if th { 4 } else { 2 }) {
            let pw = cleartext(&mut rng);
            if let Ok(p) = Password::new_argon2id(&pol, &pw) {
                if let DbPasswordV1::ARGON2ID { m, t, p: pp, v, s, k } = p.to_dbpasswordv1() {
                    let s: Vec<u8> = s.into();
                    let k: Vec<u8> = k.into();
                    let g = Gen::DbArgon { m, t, p: pp, v, salt: s, klen: k.len() };
                    let atts = candidates(&mut rng, &pw, 3);
                    outs.push(run_case(Some((&g, &pw)), &Stored::Db(p.to_dbpasswordv1()), &atts, "kanidm-new-argon2id", false));
                }
            }
        }
        for _ in 0..(if th { 2 } else { 1 }) {
            // 1000 iterations (the smallest policy kanidm exposes): expensive inside Coq, one candidate only
            let pw = cleartext(&mut rng);
            if let Ok(p) = Password::new_pbkdf2(&pol, &pw) {
                if let DbPasswordV1::PBKDF2(c, s, h) = p.to_dbpasswordv1() {
                    let g = Gen::DbPbkdf2 { c, salt: s, klen: h.len() };
                    outs.push(run_case(Some((&g, &pw)), &Stored::Db(p.to_dbpasswordv1()), &[pw.clone()], "kanidm-new-pbkdf2", true));
                }
            }
        }
    }
    // ---- crypt formats (1000+ hash rounds each: few, short cleartexts, spread over the shards)
    let short = |rng: &mut Rng| -> String {
        match rng.below(4) {
            0 => rng.pick(&["pw", "abc", "x", "Zz9"]).to_string(),
            1 => "é1".to_string(),
            _ => (0..rng.range(1, 7)).map(|_| (0x21 + rng.below(0x5e) as u8) as char).collect(),
        }
    };
    for i in 0..(if th { 16 } else { 5 }) {
        let pw = if i % 4 == 3 { cleartext(&mut rng) } else { short(&mut rng) };
        let sl = *rng.pick(&[0usize, 1, 4, 8, 8, 8]);
        let g = Gen::CryptMd5 { salt: h64salt(&mut rng, sl) };
        gen_case(&mut rng, &mut outs, g, pw, 1, "crypt-md5", true);
    }
    for i in 0..(if th { 6 } else { 2 }) {
        let pw = short(&mut rng);
        let sl = *rng.pick(&[1usize, 8, 16, 16]);
        let rounds = if th && i == 5 { None } else { Some(rng.range(1000, 1010)) };
        let n_wrong = if i % 2 == 0 || rounds.is_none() { 0 } else { 1 };
        let g = Gen::CryptSha { is512: false, rounds, salt: h64salt(&mut rng, sl) };
        gen_case(&mut rng, &mut outs, g, pw, n_wrong, "crypt-sha256", true);
    }
    for i in 0..(if th { 4 } else { 1 }) {
        let pw = short(&mut rng);
        let sl = *rng.pick(&[2usize, 16, 16]);
        let rounds = if th && i == 3 { None } else { Some(rng.range(1000, 1010)) };
        let n_wrong = if th && i % 2 == 1 && rounds.is_some() { 1 } else { 0 };
        let g = Gen::CryptSha { is512: true, rounds, salt: h64salt(&mut rng, sl) };
        gen_case(&mut rng, &mut outs, g, pw, n_wrong, "crypt-sha512", true);
    }
    // ---- long cleartexts: 512 bytes is still checked, 513 and more are refused (known class long-cleartext)
    for (k, len) in [(0usize, 512usize), (1, 513), (2, 600), (3, 512), (4, 513), (5, 1024)] {
        let pw: String = (0..len).map(|_| (0x21 + rng.below(0x5e) as u8) as char).collect();
        let g = match k % 3 {
            0 => Gen::Sha { bits: 1, up: true },
            1 => Gen::Ssha { bits: 256, up: true, salt: rng.bytes(8) },
            _ => Gen::NtSamba { up: true },
        };
        if let Some(st) = produce(&g, &pw) {
            // one candidate per case so that the known class masks nothing else
            outs.push(run_case(Some((&g, &pw)), &st, &[pw.clone()], "long-right", false));
            let mut w = pw.clone();
            w.pop();
            outs.push(run_case(Some((&g, &pw)), &st, &[w], "long-near", false));
        }
    }

    // a credential kanidm itself generates for a cleartext of more than 512 bytes (e.g. 128 graphemes built
    // from combining characters) can never be verified again: known class long-cleartext
    {
        let pol = CryptoPolicy::danger_test_minimum();
        let pw: String = (0..100).map(|_| "e\u{301}\u{301}\u{301}").collect();
        if let Ok(p) = Password::new_argon2id(&pol, &pw) {
            if let DbPasswordV1::ARGON2ID { m, t, p: pp, v, s, k } = p.to_dbpasswordv1() {
                let s: Vec<u8> = s.into();
                let k: Vec<u8> = k.into();
                let g = Gen::DbArgon { m, t, p: pp, v, salt: s, klen: k.len() };
                outs.push(run_case(Some((&g, &pw)), &Stored::Db(p.to_dbpasswordv1()), &[pw.clone()], "long-right-kanidm-new-argon2id", false));
            }
        }
    }

    // ---- (b) hand-made / mutated / malformed
    let hand = |outs: &mut Vec<Out>, s: String, atts: Vec<String>, kind: &str, slow: bool| {
        outs.push(run_case(None, &Stored::Str(s), &atts, kind, slow));
    };
    let pwd = "password".to_string();
    let atts2 = vec![pwd.clone(), "Password".to_string()];
    // kanidm's own unit-test vectors (cheap ones)
    for s in [
        "{SHA}W6ph5Mm5Pz8GgiULbPgzG37mj9g=",
        "{ssha}EyzbBiP4u4zxOrLpKTORI/RX3HC6TCTJtnVOCQ==",
        "{SHA256}XohImNooBHFR0OVvjcYpJ3NgPQ1qq73WKhHvch0VQtg=",
        "{SSHA256}luYWfFJOZgxySTsJXHgIaCYww4yMpu6yest69j/wO5n5OycuHFV/GQ==",
        "{sha512}sQnzu7wkTrgkQZF+0G1hi5AI3Qmzvv0bXgc5THBqi7mAsdd4Xll27ASbRt9fEyavWi6m0QP9B8lThf+rDKy8hg==",
        "{SSHA512}JwrSUHkI7FTAfHRVR6KoFlSN0E3dmaQWARjZ+/UsShYlENOqDtFVU77HJLLrY2MuSp0jve52+pwtdVl2QUAHukQ0XUf5LDtM",
        "ipaNTHash: iEb36u6PsRetBr3YMLdYbA",
        "ipaNTHash: iEb36u6PsRetBr3YMLdYbA==",
        "sambaNTPassword: 8846F7EAEE8FB117AD06BDD830B7586C",
        "sambaNTPassword: 8846f7eaee8fb117ad06bdd830b7586c",
        "{SsHa}W6ph5Mm5Pz8GgiULbPgzG37mj9g=",
    ] {
        hand(&mut outs, s.to_string(), atts2.clone(), "vector", false);
    }
    hand(&mut outs, "{crypt}$1$zaRIAsoe$7887GzjDTrst0XbDPpF5m.".into(), vec![pwd.clone()], "vector-crypt-md5", true);
    // malformed / refused at import (no hashing involved)
    for s in [
        "", "password", "{", "{}", "{sha", "{SHA}", "{SHA}W6ph5Mm5Pz8GgiULbPgzG37mj9g", "{SHA}W6ph5Mm5Pz8GgiULbPgzG37mj9h=",
        "{SHA}W6ph5Mm5Pz8GgiULbPgzG37mjw==", "{SHA256}W6ph5Mm5Pz8GgiULbPgzG37mj9g=", "{SSHA}W6ph5Mm5Pz8GgiULbPgz", "{SSHA512}sQnzu7wkTrgkQZF+0G1hi5AI3Qmzvv0bXgc5THBqi7mAsdd4Xll27ASbRt9fEyavWi6m0QP9B8lThf+rDKy8hg==",
        "{SHA}W6ph5Mm5Pz8GgiULbPgzG37m=9g=", "{SHA}W6ph5Mm5Pz8G giULbPgzG37mj9g=", "{MD5}X03MO1qnZdYdgyfeuILPmQ==", "{pbkdf2_sha256}AAAA", "{crypt}$2b$12$abcdefghijklmnopqrstuu",
        "{crypt}$1$nodollar", "{PBKDF2}10$AAAA", "{PBKDF2}x$AAAA$AAAA", "{PBKDF2-SHA1}1$AAAA$AAAAAAAAAAAAAAAAAAAAAAAA", "{PBKDF2-SHA256}1$AAAA$AAAAAAAAAAAAAAAAAAAAAAAAAAAAAAAAAAAAAAAAAA",
        "{PBKDF2}1$AAAAA$AAAAAAAAAAAAAAAAAAAAAAAAAAAA", "{PBKDF2}4294967296$AAAA$AAAAAAAAAAAAAAAAAAAAAAAAAAAA", "{PBKDF2}-1$AAAA$AAAAAAAAAAAAAAAAAAAAAAAAAAAA",
        "pbkdf2_sha256$1$salt", "pbkdf2_sha256$1$sa$lt$AAAA", "pbkdf2_sha256$x$salt$AAAAAAAAAAAAAAAAAAAAAAAAAAAAAAAAAAAAAAAAAAA=", "pbkdf2_sha256$1$salt$AAAAAAAAAAAAAAAAAAAAAAAAAAAAAAAAAAAAAAAAAA==",
        "pbkdf2_sha256$1$salt$AAAAAAAAAAAAAAAAAAAAAAAAAAAAAAAAAAAAAAAAAAA", "ipaNTHash: ****", "ipaNTHash: iEb36u6PsRetBr3YMLdYbA=", "ipaNTHash:iEb36u6PsRetBr3YMLdYbA", "sambaNTPassword: 8846F7EAEE8FB117AD06BDD830B7586",
        "sambaNTPassword: 8846F7EAEE8FB117AD06BDD830B7586G", "SambaNTPassword: 8846F7EAEE8FB117AD06BDD830B7586C",
    ] {
        hand(&mut outs, s.to_string(), atts2.clone(), "malformed", false);
    }
    // accepted-at-import oddities that hash cheaply: short/odd NT hashes, empty samba, +/padding in ab64, trailing bits
    for s in [
        "sambaNTPassword: ", "sambaNTPassword: 8846", "ipaNTHash: ", "ipaNTHash: iEb36u6PsRc",
        "{PBKDF2}+1$AAAA$AAAAAAAAAAAAAAAAAAAAAAAAAAA=", "{PBKDF2-SHA1}1$////$AAAAAAAAAAAAAAAAAAAAAAAAAB", "{pbkdf2-sha256}2$ab.d$AAAAAAAAAAAAAAAAAAAAAAAAAAAAAAAAAAAAAAAAAAA",
        "{PBKDF2-SHA512}1$$AAAAAAAAAAAAAAAAAAAAAAAAAAAAAAAAAAAAAAAAAAAAAAAAAAAAAAAAAAAAAAAAAAAAAAAAAAAAAAAAAAAAAA",
        "{PBKDF2}0$AAAA$AAAAAAAAAAAAAAAAAAAAAAAAAAA", "pbkdf2_sha256$+3$$AAAAAAAAAAAAAAAAAAAAAAAAAAAAAAAAAAAAAAAAAAA=",
    ] {
        hand(&mut outs, s.to_string(), atts2.clone(), "odd-accepted", false);
    }
    // mutations of generated hashes: one changed character somewhere, right cleartext offered
    for _ in 0..(if th { 60 } else { 14 }) {
        let pw = cleartext(&mut rng);
        let g = match rng.below(7) {
            0 => Gen::Sha { bits: *rng.pick(&[1u32, 256, 512]), up: true },
            1 | 2 => Gen::Ssha { bits: *rng.pick(&[1u32, 256, 512]), up: rng.chance(1, 2), salt: rng.bytes(8) },
            3 => Gen::NtIpa,
            4 => Gen::NtSamba { up: false },
            5 => Gen::Ldap { variant: rng.below(4) as u8, up: true, c: rng.range(1, 3) as u32, salt: rng.bytes(16) },
            _ => {
                let salt = alnum(&mut rng, 12);
                Gen::Django { c: rng.range(1, 3) as u32, salt }
            }
        };
        if let Some(Stored::Str(s)) = produce(&g, &pw) {
            let mut b = s.into_bytes();
            let i = rng.below(b.len() as u64) as usize;
            match rng.below(4) {
                0 => b[i] = *rng.pick(b"ABCDEFGHIJKLMNOPQRSTUVWXYZabcdefghijklmnopqrstuvwxyz0123456789+/.=$}"),
                1 => {
                    b.remove(i);
                }
                2 => b.insert(i, *rng.pick(b"Aa0+/.=$")),
                _ => b[i] ^= 0x20,
            }
            if let Ok(s) = String::from_utf8(b) {
                let w = format!("{}x", pw);
                hand(&mut outs, s, vec![pw.clone(), w], "mutated", false);
            }
        }
    }
    // non-canonical crypt strings that the real code still evaluates (1000 rounds each: a handful)
    {
        // md5-crypt with a 9..12 character salt: kanidm hashes with the whole salt
        let sl9 = 9 + rng.below(4) as usize;
        let salt = h64salt(&mut rng, sl9);
        let s = format!("{{crypt}}$1${}${}", String::from_utf8_lossy(&salt), md5crypt_ref(b"pw", &salt));
        hand(&mut outs, s, vec!["pw".into()], "crypt-md5-longsalt-truncating-reference", true);
        // sha256-crypt: 20 character salt (hashed with the first 16), right hash
        let salt = h64salt(&mut rng, 20);
        if let Some(Stored::Str(s)) = produce(&Gen::CryptSha { is512: false, rounds: Some(1000), salt: salt[..16].to_vec() }, "pw") {
            let s2 = s.replace(&String::from_utf8_lossy(&salt[..16]).to_string(), &String::from_utf8_lossy(&salt).to_string());
            hand(&mut outs, s2, vec!["pw".into()], "crypt-sha256-longsalt", true);
            // rounds=01000 spelling
            hand(&mut outs, s.replace("rounds=1000$", "rounds=01000$"), vec!["pw".into()], "crypt-sha256-rounds-leading-zero", true);
            if th {
                // surplus canonical characters after the 43 character hash
                hand(&mut outs, format!("{}.", s), vec!["pw".into()], "crypt-sha256-surplus", true);
            }
        }
    }
    // crypt strings rejected or panicking WITHOUT the 1000 rounds being needed by the model
    for s in [
        "{crypt}$5$rounds=999$saltsalt$aaaaaaaaaaaaaaaaaaaaaaaaaaaaaaaaaaaaaaaaaaa",
        "{crypt}$5$rounds=1000000000$saltsalt$aaaaaaaaaaaaaaaaaaaaaaaaaaaaaaaaaaaaaaaaaaa",
        "{crypt}$5$rounds=$saltsalt$aaaaaaaaaaaaaaaaaaaaaaaaaaaaaaaaaaaaaaaaaaa",
        "{crypt}$5$rounds=1000$saltsalt",
        "{crypt}$5$saltsalt",
        "{crypt}$5$",
        "{crypt}$5$rounds=1000$saltsalt$aaaa$bbbb",
        "{crypt}$6$rounds=1000$saltsalt$***",
        "{crypt}$6$rounds=1000$saltsalt$a",
        "{crypt}$6$rounds=999$saltsalt$a",
        "{crypt}$6$saltsalt",
        "{crypt}$6$rounds=1000$saltsalt$aaaaaaaaaaaaaaaaaaaaaaaaaaaaaaaaaaaaaaaaaaaaaaaaaaaaaaaaaaaaaaaaaaaaaaaaaaaaaaaaaaaaaaaaaaaaaaaaaaaaaaaaaaaaaaaaaaaaaaaaaaaa",
    ] {
        hand(&mut outs, s.to_string(), vec![pwd.clone()], "crypt-rejected", false);
    }
    // the sha256-crypt hash field is not decodable: before /repo a666989 sha-crypt's decode_sha256().unwrap() panicked here
    for s in [
        "{crypt}$5$rounds=1000$saltsalt$***",
        "{crypt}$5$rounds=1000$saltsalt$a",
        "{crypt}$5$rounds=1000$saltsalt$aaaaaaaaaaaaaaaaaaaaaaaaaaaaaaaaaaaaaaaaaaz",
        "{crypt}$5$rounds=1000$saltsalt$aaaaaaaaaaaaaaaaaaaaaaaaaaaaaaaaaaaaaaaaaaaaaaaaaaaaaaaaaaaaaaaaaaaa",
        "{crypt}$5$saltsalt$not base64!",
    ] {
        hand(&mut outs, s.to_string(), vec![pwd.clone()], "crypt-sha256-bad-hash-field", false);
    }

    // ---- emit: the slow cases are dealt round-robin over the shards, the fast ones fill them up
    let (slow, fast): (Vec<Out>, Vec<Out>) = outs.into_iter().partition(|o| o.slow);
    let total = slow.len() + fast.len();
    let nshards = total.div_ceil(shard).max(1);
    let mut buckets: Vec<Vec<Out>> = (0..nshards).map(|_| vec![]).collect();
    for (i, o) in slow.into_iter().enumerate() {
        buckets[i % nshards].push(o);
    }
    let mut bi = 0;
    for o in fast {
        while buckets[bi].len() >= shard && bi + 1 < nshards {
            bi += 1;
        }
        buckets[bi].push(o);
    }
    for bucket in buckets {
        for o in bucket {
            sink.bump(&o.kind);
            sink.add_stat("candidates_accepted", o.accepted);
            sink.add_stat("candidates_rejected", o.rejected);
            sink.add_stat("candidates_panicked", o.panics);
            sink.case(o.coq, o.txt, o.nontrivial);
        }
    }
    sink.finish();
}
