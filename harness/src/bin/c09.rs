//! C09 — deleted entries are never resurrected by replication.
//!
//! Drives three REAL in-memory QueryServers of one domain (replicas 1,2 are refreshed from
//! replica 0) through histories of create / modify / delete (recycle) / purge_recycled /
//! purge_tombstones and incremental replication in random directions, at harness-chosen
//! (simulated) transaction times: strictly increasing whole seconds, with gaps shorter and
//! longer than the recycle-bin retention and the changelog window (both 7 days in this build).
//! After every transaction the touched replica is read back in a fresh read transaction: every
//! tracked entry (life-cycle class, creation / tombstone change id, per-attribute change ids),
//! the complete replication update vector (every change id with the tracked entries recorded
//! for it) and the published maximum change id.  For a replication step the variant of
//! ReplIncrementalContext answered by the supplier and the consumer's result are recorded.
//! The Coq model (KV.C09.Model) replays the op list (`agree`); `pcheck` tests the property on
//! the implementation's own dumps.
use kanidm_proto::internal::FsType;
use kanidmd_lib::be::{Backend, BackendConfig};
use kanidmd_lib::entry::{Entry, EntryInit, EntryNew};
use kanidmd_lib::prelude::*;
use kanidmd_lib::repl::proto::{ConsumerState, ReplIncrementalContext, ReplRuvRange};
use kanidmd_lib::schema::Schema;
use kanidmd_lib::verif_hooks::c09 as hook;
use kanidmd_lib::verif_hooks::c12::{entry_parts, HookState};
use kanidmd_lib::{filter, filter_all};
use kvh::*;

const T0: u64 = 1_700_000_000;
const W: u64 = 7 * 86400; // CHANGELOG_MAX_AGE = RECYCLEBIN_MAX_AGE (non-test build)
const NU: usize = 4; // uuid pool per history
const UBASE: u128 = 0x00c0_9000_aaaa_4000_8000_0000_0000_0000;

fn open_server(ct: Duration) -> QueryServer {
    let schema_outer = Schema::new().expect("schema");
    let idxmeta = {
        let schema_txn = schema_outer.write();
        schema_txn.reload_idxmeta()
    };
    let cfg = BackendConfig::new(None, 1, FsType::Generic, Some(2048));
    let be = Backend::new(cfg, idxmeta, false).expect("be");
    QueryServer::new(be, schema_outer, "example.com".to_string(), ct).expect("qs")
}

type C = (u64, u64); // (seconds since T0 (0 = the zero time stamp), replica index)

#[derive(Clone, Debug, PartialEq, Eq, PartialOrd, Ord)]
enum ESt {
    Live { at: C, cls: u64, chg: Vec<(u64, C, bool)> },
    Tomb { at: C },
}

#[derive(Clone, Debug, PartialEq, Eq)]
struct Snap {
    ents: Vec<(u64, ESt)>,
    ruv: Vec<(C, Vec<u64>)>,
    cidmax: u64,
}

struct Group {
    srv: Vec<QueryServer>,
    sids: Vec<Uuid>,
    t: u64,
    h: u64,
}

fn attr_id(a: &Attribute) -> u64 {
    match a.as_str() {
        "class" => 0,
        "name" => 1,
        "uuid" => 2,
        "spn" => 3,
        "description" => 4,
        "recycled_directmemberof" => 5,
        x => panic!("untracked replicated attribute {}", x),
    }
}

impl Group {
    fn uuid_of(&self, i: usize) -> Uuid {
        Uuid::from_u128(UBASE + ((self.h as u128) << 16) + i as u128 + 1)
    }
    fn pool_id(&self, u: &Uuid) -> Option<u64> {
        (0..NU).find(|i| self.uuid_of(*i) == *u).map(|i| i as u64 + 1)
    }
    fn name_of(&self, i: usize) -> String {
        format!("c09h{}u{}", self.h, i + 1)
    }
    fn ts(&self, d: Duration) -> u64 {
        if d == Duration::ZERO {
            return 0;
        }
        assert!(d.subsec_nanos() == 0, "time stamp with nanoseconds: {:?}", d);
        let s = d.as_secs();
        assert!(s > T0, "time stamp before the warm-up: {:?}", d);
        s - T0
    }
    fn cid(&self, c: &Cid) -> C {
        let sid = self.sids.iter().position(|x| *x == c.s_uuid).unwrap_or_else(|| panic!("unknown server id {:?}", c)) as u64;
        (self.ts(c.ts), sid)
    }

    async fn snapshot(&self, r: usize) -> Snap {
        let qs = &self.srv[r];
        let mut rd = qs.read().await.expect("read");
        let all = rd.internal_search(filter_all!(f_pres(Attribute::Class))).expect("search all");
        let mut ents = vec![];
        let mut ids: Vec<(u64, u64)> = vec![];
        for e in all.iter() {
            let Some(id) = self.pool_id(&e.get_uuid()) else { continue };
            ids.push((e.get_id(), id));
            let parts = entry_parts(e.as_ref());
            let st = match &parts.state {
                HookState::Tombstone { at } => ESt::Tomb { at: self.cid(at) },
                HookState::Live { at, changes } => {
                    let cl: Vec<String> = e.get_ava_set(Attribute::Class).map(|vs| vs.to_proto_string_clone_iter().collect()).unwrap_or_default();
                    let cls = if cl.iter().any(|c| c == "conflict") {
                        2
                    } else if cl.iter().any(|c| c == "recycled") {
                        1
                    } else {
                        0
                    };
                    let mut chg: Vec<(u64, C, bool)> =
                        changes.iter().map(|(a, c)| (attr_id(a), self.cid(c), e.get_ava_set(a).is_some())).collect();
                    chg.sort();
                    ESt::Live { at: self.cid(at), cls, chg }
                }
            };
            ents.push((id, st));
        }
        ents.sort();
        let (data, ranged) = hook::ruv_dump_read(&mut rd);
        // the two RUV indexes must describe the same set of change ids
        let mut flat: Vec<(Duration, Uuid)> = ranged.iter().flat_map(|(s, v)| v.iter().map(move |t| (*t, *s))).collect();
        flat.sort();
        let keys: Vec<(Duration, Uuid)> = data.iter().map(|(c, _)| (c.ts, c.s_uuid)).collect();
        assert_eq!(flat, keys, "RUV data / ranged out of step");
        let ruv: Vec<(C, Vec<u64>)> = data
            .iter()
            .map(|(c, idl)| {
                let mut us: Vec<u64> = idl.iter().filter_map(|i| ids.iter().find(|(x, _)| x == i).map(|(_, u)| *u)).collect();
                us.sort();
                (self.cid(c), us)
            })
            .collect();
        let cidmax = self.ts(qs.verif_cid_max());
        Snap { ents, ruv, cidmax }
    }
}

async fn new_group(h: u64) -> Group {
    let ct = Duration::from_secs(T0);
    let mut raw = vec![];
    for _ in 0..3 {
        let qs = open_server(ct);
        qs.initialise_helper(ct, DOMAIN_TGT_LEVEL).await.expect("init");
        raw.push(qs);
    }
    let mut t = T0 + 10;
    for i in 1..3 {
        t += 1;
        let mut w = raw[i].write(Duration::from_secs(t)).await.expect("write");
        let mut r = raw[0].read().await.expect("read");
        let ctx = r.supplier_provide_refresh().expect("refresh ctx");
        w.consumer_apply_refresh(ctx).expect("refresh");
        drop(r);
        w.commit().expect("commit");
    }
    let mut v = vec![];
    for qs in raw.into_iter() {
        t += 1;
        let w = qs.write(Duration::from_secs(t)).await.expect("write");
        let sid = w.verif_cid().s_uuid;
        drop(w);
        v.push((sid, qs));
    }
    v.sort_by_key(|(s, _)| *s);
    let sids: Vec<Uuid> = v.iter().map(|(s, _)| *s).collect();
    let srv: Vec<QueryServer> = v.into_iter().map(|(_, q)| q).collect();
    let mut g = Group { srv, sids, t, h };
    // warm-up: give every replica an anchor, exchange them, then move past the changelog window and trim
    // the initialisation change ids (nanosecond lamport steps at T0) out of every RUV
    g.t = T0 + 50;
    for r in 0..3 {
        g.t += 1;
        g.purge_tomb(r).await.expect("warm-up anchor");
    }
    g.full_mesh().await;
    g.t = T0 + W + 30;
    for r in 0..3 {
        g.t += 1;
        g.purge_tomb(r).await.expect("warm-up trim");
    }
    g.full_mesh().await;
    g
}

#[derive(Clone, Debug, PartialEq, Eq)]
enum ReplOut {
    V1(u64),     // consumer result: 0 applied+committed, else error code
    NoChanges,
    RefreshRequired,
    Unwilling,
    Other(String),
}

impl Group {
    fn ct(&self) -> Duration {
        Duration::from_secs(self.t)
    }
    async fn purge_tomb(&self, r: usize) -> Result<usize, OperationError> {
        let mut w = self.srv[r].write(self.ct()).await.expect("write");
        let n = w.purge_tombstones()?;
        w.commit()?;
        Ok(n)
    }
    async fn purge_rec(&self, r: usize) -> Result<usize, OperationError> {
        let mut w = self.srv[r].write(self.ct()).await.expect("write");
        let n = w.purge_recycled()?;
        w.commit()?;
        Ok(n)
    }
    async fn create(&self, r: usize, u: usize) -> Result<(), OperationError> {
        let mut w = self.srv[r].write(self.ct()).await.expect("write");
        let e: Entry<EntryInit, EntryNew> = kanidmd_lib::entry_init!(
            (Attribute::Class, EntryClass::Object.to_value()),
            (Attribute::Class, EntryClass::Group.to_value()),
            (Attribute::Name, Value::new_iname(&self.name_of(u))),
            (Attribute::Description, Value::new_utf8s("created")),
            (Attribute::Uuid, Value::Uuid(self.uuid_of(u)))
        );
        w.internal_create(vec![e])?;
        w.commit()
    }
    async fn modify(&self, r: usize, u: usize) -> Result<(), OperationError> {
        let mut w = self.srv[r].write(self.ct()).await.expect("write");
        let ml = ModifyList::new_purge_and_set(Attribute::Description, Value::new_utf8s(&format!("set at {} on {}", self.t - T0, r)));
        w.internal_modify(&filter!(f_eq(Attribute::Uuid, PartialValue::Uuid(self.uuid_of(u)))), &ml)?;
        w.commit()
    }
    async fn delete(&self, r: usize, u: usize) -> Result<(), OperationError> {
        let mut w = self.srv[r].write(self.ct()).await.expect("write");
        w.internal_delete(&filter!(f_eq(Attribute::Uuid, PartialValue::Uuid(self.uuid_of(u)))))?;
        w.commit()
    }
    async fn repl(&self, to: usize, from: usize) -> ReplOut {
        let mut w = self.srv[to].write(self.ct()).await.expect("write");
        let mut r = self.srv[from].read().await.expect("read");
        let range: ReplRuvRange = match w.consumer_get_state() {
            Ok(x) => x,
            Err(e) => return ReplOut::Other(format!("get_state {:?}", e)),
        };
        let changes = match r.supplier_provide_changes(range) {
            Ok(x) => x,
            Err(e) => return ReplOut::Other(format!("provide {:?}", e)),
        };
        let kind = match &changes {
            ReplIncrementalContext::V1 { .. } => 0,
            ReplIncrementalContext::NoChangesAvailable => 1,
            ReplIncrementalContext::RefreshRequired => 2,
            ReplIncrementalContext::UnwillingToSupply => 3,
            ReplIncrementalContext::DomainMismatch => 4,
        };
        let res = w.consumer_apply_changes(changes);
        drop(r);
        match (kind, res) {
            (0, Ok(ConsumerState::Ok)) => match w.commit() {
                Ok(()) => ReplOut::V1(0),
                Err(e) => ReplOut::Other(format!("commit {:?}", e)),
            },
            (0, Err(OperationError::ReplInvalidRUVState)) => ReplOut::V1(1),
            (0, Err(OperationError::ReplServerUuidSplitDataState)) => ReplOut::V1(2),
            (1, Ok(ConsumerState::Ok)) => {
                w.commit().expect("commit");
                ReplOut::NoChanges
            }
            (2, Ok(ConsumerState::RefreshRequired)) => ReplOut::RefreshRequired,
            (3, Ok(ConsumerState::Ok)) => {
                w.commit().expect("commit");
                ReplOut::Unwilling
            }
            (k, r) => ReplOut::Other(format!("kind {} result {:?}", k, r.map(|s| matches!(s, ConsumerState::Ok)))),
        }
    }
    async fn full_mesh(&mut self) {
        for _ in 0..2 {
            for to in 0..3 {
                for from in 0..3 {
                    if to != from {
                        self.t += 1;
                        let o = self.repl(to, from).await;
                        assert!(matches!(o, ReplOut::V1(0) | ReplOut::NoChanges), "warm-up replication {}<-{}: {:?}", to, from, o);
                    }
                }
            }
        }
    }
}

fn t_cid(c: &C) -> String {
    format!("{}.{}", c.0, c.1)
}
fn t_snap(s: &Snap) -> String {
    let es: Vec<String> = s
        .ents
        .iter()
        .map(|(u, st)| match st {
            ESt::Tomb { at } => format!("{}:TOMB@{}", u, t_cid(at)),
            ESt::Live { at, cls, chg } => format!(
                "{}:{}@{}{{{}}}",
                u,
                ["live", "rec", "CNF"][*cls as usize],
                t_cid(at),
                chg.iter().map(|(a, c, v)| format!("{}{}={}", a, if *v { "" } else { "!" }, t_cid(c))).collect::<Vec<_>>().join(",")
            ),
        })
        .collect();
    let rs: Vec<String> = s.ruv.iter().map(|(c, us)| format!("{}{:?}", t_cid(c), us)).collect();
    format!("ents[{}] ruv[{}] max={}", es.join(" "), rs.join(" "), s.cidmax)
}

async fn probe() {
    // S1: one-way break. replica 1 never hears replica 0 again; 0 keeps pulling from 1.
    let mut g = new_group(0).await;
    for r in 0..3 {
        println!("init r{}: {}", r, t_snap(&g.snapshot(r).await));
    }
    let step = |g: &mut Group, d: u64| g.t += d;
    step(&mut g, 10);
    println!("create u1,u2@0 {:?}", (g.create(0, 0).await, { g.t += 1; g.create(0, 1).await }));
    println!(" r0: {}", t_snap(&g.snapshot(0).await));
    step(&mut g, 10);
    println!("repl 1<-0 {:?}", g.repl(1, 0).await);
    println!(" r1: {}", t_snap(&g.snapshot(1).await));
    step(&mut g, 10);
    println!("mod u1@0 {:?}", g.modify(0, 0).await);
    println!(" r0: {}", t_snap(&g.snapshot(0).await));
    step(&mut g, 10);
    println!("delete u1@0 {:?}", g.delete(0, 0).await);
    println!(" r0: {}", t_snap(&g.snapshot(0).await));
    // periodic: 0 pulls from 1, both purge, every W/4
    for i in 0..12 {
        step(&mut g, W / 4);
        let a = g.purge_rec(0).await;
        step(&mut g, 1);
        let b = g.purge_tomb(0).await;
        step(&mut g, 1);
        let c = g.purge_tomb(1).await;
        step(&mut g, 1);
        let d = g.repl(0, 1).await;
        println!("round {} t={} purge_rec0 {:?} purge_tomb0 {:?} purge_tomb1 {:?} repl 0<-1 {:?}", i, g.t - T0, a, b, c, d);
        let s0 = g.snapshot(0).await;
        println!(" r0: {}", t_snap(&s0));
        if !s0.ents.iter().any(|(u, _)| *u == 1) {
            println!("== u1 reaped on replica 0");
            break;
        }
    }
    println!(" r1: {}", t_snap(&g.snapshot(1).await));
    step(&mut g, 10);
    println!("S2: mod u2@1 {:?}", g.modify(1, 1).await);
    step(&mut g, 10);
    println!("repl 0<-1 {:?}", g.repl(0, 1).await);
    println!(" r0: {}", t_snap(&g.snapshot(0).await));
    step(&mut g, 10);
    println!("repl 1<-0 (replica 1 has not heard 0 for > 2W) {:?}", g.repl(1, 0).await);
    println!(" r1: {}", t_snap(&g.snapshot(1).await));
    step(&mut g, 10);
    println!("S1: mod u1@1 {:?}", g.modify(1, 0).await);
    println!(" r1: {}", t_snap(&g.snapshot(1).await));
    step(&mut g, 10);
    println!("repl 0<-1 {:?}", g.repl(0, 1).await);
    println!(" r0: {}", t_snap(&g.snapshot(0).await));
    let mut rd = g.srv[0].read().await.expect("read");
    match rd.internal_search_all_uuid(g.uuid_of(0)) {
        Ok(e) => println!(" u1 on r0: {:?}", e),
        Err(e) => println!(" u1 on r0: {:?}", e),
    }
    println!(" normal search u1 on r0: {:?}", rd.internal_search_uuid(g.uuid_of(0)).map(|_| "FOUND"));
    drop(rd);
    println!("verify r0: {:?}", g.srv[0].verify().await);
}

#[derive(Clone, Debug)]
enum Op {
    Create(usize, usize),
    Mod(usize, usize),
    Delete(usize, usize),
    PurgeRec(usize),
    PurgeTomb(usize),
    Repl(usize, usize), // to, from
}

impl Op {
    fn rep(&self) -> usize {
        match self {
            Op::Create(r, _) | Op::Mod(r, _) | Op::Delete(r, _) | Op::PurgeRec(r) | Op::PurgeTomb(r) => *r,
            Op::Repl(to, _) => *to,
        }
    }
}

fn local_code(r: Result<(), OperationError>) -> u64 {
    match r {
        Ok(()) => 0,
        Err(OperationError::NoMatchingEntries) => 3,
        Err(OperationError::ReplInvalidRUVState) => 5,
        Err(e) => panic!("unexpected error of a local transaction: {:?}", e),
    }
}

impl Group {
    async fn exec(&self, op: &Op) -> u64 {
        match op {
            Op::Create(r, u) => local_code(self.create(*r, *u).await),
            Op::Mod(r, u) => local_code(self.modify(*r, *u).await),
            Op::Delete(r, u) => local_code(self.delete(*r, *u).await),
            Op::PurgeRec(r) => local_code(self.purge_rec(*r).await.map(|_| ())),
            Op::PurgeTomb(r) => local_code(self.purge_tomb(*r).await.map(|_| ())),
            Op::Repl(to, from) => match self.repl(*to, *from).await {
                ReplOut::V1(k) => k,
                ReplOut::NoChanges => 10,
                ReplOut::RefreshRequired => 20,
                ReplOut::Unwilling => 30,
                ReplOut::Other(x) => panic!("unexpected replication outcome {}<-{}: {}", to, from, x),
            },
        }
    }
}

fn c_cid(c: &C) -> String {
    format!("({}, {})", cn(c.0), cn(c.1))
}
fn c_snap(s: &Snap) -> String {
    let ents = clist(&s.ents, |(u, st)| {
        let st = match st {
            ESt::Tomb { at } => capp("ETomb", &[c_cid(at)]),
            ESt::Live { at, cls, chg } => {
                capp("ELive", &[c_cid(at), cn(*cls), clist(chg, |(a, c, v)| format!("({}, {}, {})", cn(*a), c_cid(c), cbool(*v)))])
            }
        };
        format!("({}, {})", cn(*u), st)
    });
    let ruv = clist(&s.ruv, |(c, us)| format!("({}, {})", c_cid(c), clist(us, |u| cn(*u))));
    capp("mkR", &[ents, ruv, cn(s.cidmax)])
}
fn c_op(o: &Op, t: u64) -> String {
    let n = |x: &usize| cn(*x as u64);
    match o {
        Op::Create(r, u) => capp("OCreate", &[n(r), cn(t), cn(*u as u64 + 1)]),
        Op::Mod(r, u) => capp("OMod", &[n(r), cn(t), cn(*u as u64 + 1)]),
        Op::Delete(r, u) => capp("ODelete", &[n(r), cn(t), cn(*u as u64 + 1)]),
        Op::PurgeRec(r) => capp("OPurgeRec", &[n(r), cn(t)]),
        Op::PurgeTomb(r) => capp("OPurgeTomb", &[n(r), cn(t)]),
        Op::Repl(to, from) => capp("ORepl", &[n(to), n(from), cn(t)]),
    }
}
fn t_op(o: &Op, t: u64, code: u64) -> String {
    let what = match o {
        Op::Create(r, u) => format!("create u{}@{}", u + 1, r),
        Op::Mod(r, u) => format!("mod u{}@{}", u + 1, r),
        Op::Delete(r, u) => format!("delete u{}@{}", u + 1, r),
        Op::PurgeRec(r) => format!("purge_recycled@{}", r),
        Op::PurgeTomb(r) => format!("purge_tombstones@{}", r),
        Op::Repl(to, from) => format!("repl {}<-{}", to, from),
    };
    let res = match (o, code) {
        (Op::Repl(..), 0) => "V1 applied",
        (Op::Repl(..), 1) => "V1 ReplInvalidRUVState",
        (Op::Repl(..), 2) => "V1 ReplServerUuidSplitDataState",
        (Op::Repl(..), 10) => "NoChangesAvailable",
        (Op::Repl(..), 20) => "RefreshRequired",
        (Op::Repl(..), 30) => "UnwillingToSupply",
        (_, 0) => "Ok",
        (_, 3) => "NoMatchingEntries",
        (_, 5) => "ReplInvalidRUVState",
        _ => "?",
    };
    format!("t{} {} => {}", t, what, res)
}

/// the generator's own bookkeeping of one history (used for statistics and the non-triviality rule only)
#[derive(Default)]
struct Book {
    was_tomb: Vec<std::collections::BTreeSet<u64>>,
    reaped: u64,
    resurrect_visible: u64,
    zombies: u64,
    accepted: u64,
    refused: u64,
    accepted_stale: u64,
    tomb_meets_live: u64,
    tomb_meets_tomb: u64,
}

struct Hist {
    g: Group,
    init: Vec<Snap>,
    last: Vec<Snap>,
    steps: Vec<String>,
    txt: String,
    book: Book,
}

impl Hist {
    async fn new(h: u64, kind: &str) -> Hist {
        let g = new_group(h).await;
        let mut init = vec![];
        for r in 0..3 {
            init.push(g.snapshot(r).await);
        }
        let book = Book { was_tomb: vec![Default::default(); 3], ..Default::default() };
        Hist { txt: format!("{}#{}:", kind, h), g, last: init.clone(), init, steps: vec![], book }
    }
    /// advance the clock by `gap` seconds and run one transaction
    async fn run(&mut self, gap: u64, op: Op) -> u64 {
        self.g.t += gap.max(1);
        let t = self.g.t - T0;
        let code = self.g.exec(&op).await;
        let rep = op.rep();
        let snap = self.g.snapshot(rep).await;
        // bookkeeping
        if let Op::Repl(to, from) = &op {
            let holds_live = |s: &Snap, u: u64| s.ents.iter().any(|(x, st)| *x == u && matches!(st, ESt::Live { .. }));
            let gone = |s: &Snap, u: u64| !s.ents.iter().any(|(x, _)| *x == u);
            let mut stale = false;
            for u in 1..=NU as u64 {
                if self.book.was_tomb[*from].contains(&u) && gone(&self.last[*from], u) && holds_live(&self.last[*to], u) {
                    stale = true;
                }
                if self.book.was_tomb[*to].contains(&u) && gone(&self.last[*to], u) && holds_live(&self.last[*from], u) {
                    stale = true;
                }
            }
            if code == 0 {
                let tomb_at = |s: &Snap, u: u64| s.ents.iter().find_map(|(x, st)| match st {
                    ESt::Tomb { at } if *x == u => Some(*at),
                    _ => None,
                });
                for u in 1..=NU as u64 {
                    match (tomb_at(&self.last[*to], u), tomb_at(&self.last[*from], u)) {
                        (Some(a), Some(b)) if a != b => self.book.tomb_meets_tomb += 1,
                        (Some(_), None) if holds_live(&self.last[*from], u) => self.book.tomb_meets_live += 1,
                        (None, Some(_)) if holds_live(&self.last[*to], u) => self.book.tomb_meets_live += 1,
                        _ => {}
                    }
                }
            }
            if code == 0 || code == 10 {
                self.book.accepted += 1;
                if stale {
                    self.book.accepted_stale += 1;
                }
            } else if code == 20 || code == 30 {
                self.book.refused += 1;
            }
        }
        for (u, st) in snap.ents.iter() {
            if self.book.was_tomb[rep].contains(u) {
                if let ESt::Live { cls, .. } = st {
                    let before = self.last[rep].ents.iter().any(|(x, s)| x == u && matches!(s, ESt::Live { .. }));
                    if !before {
                        self.book.zombies += 1;
                        if *cls == 0 {
                            self.book.resurrect_visible += 1;
                        }
                    }
                }
            }
        }
        for (u, st) in self.last[rep].ents.iter() {
            if matches!(st, ESt::Tomb { .. }) && !snap.ents.iter().any(|(x, _)| x == u) {
                self.book.reaped += 1;
            }
        }
        for (u, st) in snap.ents.iter() {
            if matches!(st, ESt::Tomb { .. }) {
                self.book.was_tomb[rep].insert(*u);
            }
        }
        if std::env::var("C09_DEBUG").is_ok() {
            eprintln!("{} | r{}: {}", t_op(&op, t, code), rep, t_snap(&snap));
        }
        let _ = std::fmt::Write::write_fmt(&mut self.txt, format_args!(" [{} | r{}: {}]", t_op(&op, t, code), rep, t_snap(&snap)));
        self.steps.push(capp("Obs", &[c_op(&op, t), cn(code), c_snap(&snap)]));
        self.last[rep] = snap;
        code
    }
    async fn quiesce(&mut self, rng: &mut Rng) {
        for _ in 0..2 {
            for to in 0..3 {
                for from in 0..3 {
                    if to != from {
                        let gap = rng.range(1, 60);
                        self.run(gap, Op::Repl(to, from)).await;
                    }
                }
            }
        }
    }
    fn finish(self, sink: &mut Sink) {
        let b = &self.book;
        sink.add_stat("tombstones_reaped", b.reaped);
        sink.add_stat("replications_accepted", b.accepted);
        sink.add_stat("replications_refused", b.refused);
        sink.add_stat("replications_accepted_although_a_deletion_was_forgotten", b.accepted_stale);
        sink.add_stat("entries_back_after_tombstone_any_class", b.zombies);
        sink.add_stat("entries_back_after_tombstone_visible", b.resurrect_visible);
        sink.add_stat("applied_replications_tombstone_meets_live_entry", b.tomb_meets_live);
        sink.add_stat("applied_replications_two_different_tombstones", b.tomb_meets_tomb);
        let nontrivial = (b.reaped > 0 && b.accepted > 0 && b.refused > 0) || b.tomb_meets_live + b.tomb_meets_tomb > 0;
        let init: Vec<String> = self.init.iter().map(c_snap).collect();
        sink.case(capp("CHist", &[clist_s(&init), clist_s(&self.steps)]), self.txt, nontrivial);
    }
}

fn gap_of(rng: &mut Rng) -> u64 {
    match rng.below(100) {
        0..=64 => rng.range(1, 2000),
        65..=87 => W / 3 + rng.below(1000),
        88..=97 => W + 1 + rng.below(5000),
        _ => 2 * W + rng.below(5000),
    }
}

/// random history; `blocked` directed links (to, from) are never used before the final rounds
async fn random_history(h: u64, rng: &mut Rng, sink: &mut Sink, max_len: u64) {
    let mut hi = Hist::new(h, "random").await;
    let mut blocked: Vec<(usize, usize)> = vec![];
    if rng.chance(2, 3) {
        for _ in 0..rng.range(1, 2) {
            let to = rng.below(3) as usize;
            let from = (to + 1 + rng.below(2) as usize) % 3;
            blocked.push((to, from));
        }
    }
    let n = rng.range(18, max_len);
    let mut created: Vec<usize> = vec![];
    for _ in 0..n {
        let r = rng.below(3) as usize;
        let k = rng.below(100);
        let op = if k < 12 && created.len() < NU {
            created.push(created.len());
            Op::Create(r, created.len() - 1)
        } else if k < 27 && !created.is_empty() {
            Op::Mod(r, *rng.pick(&created))
        } else if k < 37 && !created.is_empty() {
            Op::Delete(r, *rng.pick(&created))
        } else if k < 47 {
            Op::PurgeRec(r)
        } else if k < 62 {
            Op::PurgeTomb(r)
        } else {
            let from = (r + 1 + rng.below(2) as usize) % 3;
            if blocked.contains(&(r, from)) {
                Op::PurgeTomb(r)
            } else {
                Op::Repl(r, from)
            }
        };
        let gap = gap_of(rng);
        hi.run(gap, op).await;
        if rng.chance(1, 6) {
            // housekeeping round: every replica purges, every open link is pulled once
            for r in 0..3 {
                hi.run(rng.range(1, 5), Op::PurgeRec(r)).await;
                hi.run(rng.range(1, 5), Op::PurgeTomb(r)).await;
            }
            for to in 0..3 {
                for from in 0..3 {
                    if to != from && !blocked.contains(&(to, from)) {
                        hi.run(rng.range(1, 5), Op::Repl(to, from)).await;
                    }
                }
            }
        }
    }
    hi.quiesce(rng).await;
    sink.bump("random_histories");
    hi.finish(sink);
}

/// one-way break: replica `b` stops hearing `a` while `a` keeps pulling from `b` and both keep their
/// housekeeping (purge_recycled / purge_tombstones) running; `a` deletes an entry and finally forgets it.
async fn oneway_history(h: u64, rng: &mut Rng, sink: &mut Sink) {
    let mut hi = Hist::new(h, "oneway").await;
    let a = rng.below(3) as usize;
    let b = (a + 1 + rng.below(2) as usize) % 3;
    let c = 3 - a - b;
    let creator = if rng.chance(1, 2) { a } else { c };
    hi.run(rng.range(1, 100), Op::Create(creator, 0)).await;
    hi.run(rng.range(1, 100), Op::Create(creator, 1)).await;
    if creator != a {
        hi.run(rng.range(1, 100), Op::Repl(a, creator)).await;
    }
    hi.run(rng.range(1, 100), Op::Repl(b, a)).await;
    if rng.chance(1, 2) {
        hi.run(rng.range(1, 100), Op::Mod(a, 0)).await;
    }
    hi.run(rng.range(1, 100), Op::Delete(a, 0)).await;
    let period = W / rng.range(3, 6);
    let third = rng.chance(1, 2);
    for _ in 0..(2 * W / period + 8) {
        hi.run(period, Op::PurgeRec(a)).await;
        hi.run(rng.range(1, 10), Op::PurgeTomb(a)).await;
        hi.run(rng.range(1, 10), Op::PurgeTomb(b)).await;
        hi.run(rng.range(1, 10), Op::Repl(a, b)).await;
        if third {
            hi.run(rng.range(1, 10), Op::PurgeTomb(c)).await;
            hi.run(rng.range(1, 10), Op::Repl(c, a)).await;
            hi.run(rng.range(1, 10), Op::Repl(a, c)).await;
        }
        if hi.book.reaped > 0 && rng.chance(1, 2) {
            break;
        }
    }
    // the link comes back
    let mut tail = vec![Op::Mod(b, 1), Op::Repl(a, b), Op::Repl(b, a), Op::Mod(b, 0), Op::Repl(a, b)];
    if rng.chance(1, 2) {
        tail.swap(1, 2);
    }
    if rng.chance(1, 3) {
        tail.remove(0);
    }
    for op in tail {
        hi.run(rng.range(1, 100), op).await;
    }
    hi.quiesce(rng).await;
    sink.bump("oneway_histories");
    hi.finish(sink);
}

/// stale supplier clock: X creates an entry and falls silent; C deletes it (nobody hears C), turns it into a
/// tombstone and reaps it, which also trims X out of C's RUV; S holds the entry live, never trims, and has not
/// written for a while, so its trim point (taken from its last write) still lets X into its view.
async fn staleclock_history(h: u64, rng: &mut Rng, sink: &mut Sink) {
    let mut hi = Hist::new(h, "staleclock").await;
    let x = rng.below(3) as usize;
    let c = (x + 1 + rng.below(2) as usize) % 3;
    let s = 3 - x - c;
    let e = rng.range(1, 50);
    hi.run(rng.range(1, 100), Op::Create(x, 0)).await; // b
    hi.run(e, Op::Create(x, 1)).await;
    hi.run(e, Op::Repl(s, x)).await;
    hi.run(e, Op::Repl(c, x)).await;
    hi.run(W / 100, Op::Delete(c, 0)).await; // c2 ~ b + 0.01 W
    if rng.chance(1, 2) {
        hi.run(W / 2, Op::PurgeTomb(x)).await;
        hi.run(e, Op::Repl(c, x)).await;
        hi.run(W / 2 - W / 50, Op::Mod(x, 1)).await; // xmax ~ b + W
    } else {
        hi.run(W - W / 50, Op::Mod(x, 1)).await; // xmax ~ b + W
    }
    hi.run(e, Op::Repl(s, x)).await;
    hi.run(e, Op::Repl(c, x)).await;
    hi.run(W / 50, Op::PurgeRec(c)).await; // c3 > c2 + W
    hi.run(W / 50, Op::Mod(s, 1)).await; // s* : S's last write
    hi.run(e, Op::Repl(c, s)).await;
    hi.run(W - W / 100 - e - 1, Op::PurgeTomb(c)).await; // T4 - W in (c3, s*]: reaps, X trimmed out of C, S's last write kept
    hi.run(e, Op::Repl(c, s)).await; // S's clock is stale
    hi.quiesce(rng).await;
    sink.bump("staleclock_histories");
    hi.finish(sink);
}

/// tombstone racing concurrent edits: a replica that never heard of the deletion keeps modifying (or deletes and
/// purges on its own) while the deleting replica already holds a tombstone and has not trimmed its RUV; then both
/// directions are pulled, so every tombstone arm of merge_state is met.
async fn race_history(h: u64, rng: &mut Rng, sink: &mut Sink) {
    let mut hi = Hist::new(h, "race").await;
    let c = rng.below(3) as usize;
    let s = (c + 1 + rng.below(2) as usize) % 3;
    let o = 3 - c - s;
    hi.run(rng.range(1, 100), Op::Create(c, 0)).await;
    hi.run(rng.range(1, 100), Op::Create(s, 1)).await;
    hi.run(rng.range(1, 100), Op::Repl(s, c)).await;
    hi.run(rng.range(1, 100), Op::Repl(c, s)).await;
    hi.run(rng.range(1, 100), Op::Repl(o, c)).await;
    hi.run(rng.range(1, 100), Op::Delete(c, 0)).await;
    let both = rng.chance(1, 2);
    if both {
        // the other replica deletes the same entry on its own
        hi.run(rng.range(1, 100), Op::Delete(s, 0)).await;
    }
    hi.run(rng.range(1, 1000), Op::Mod(s, 1)).await;
    hi.run(W + rng.range(1, 5000), Op::PurgeRec(c)).await; // tombstone on c
    if both {
        hi.run(rng.range(1, 100), Op::PurgeRec(s)).await; // a second, later tombstone on s
    } else {
        hi.run(rng.range(1, 100), Op::Mod(s, 0)).await; // concurrent edit of the deleted entry
    }
    let mut tail = vec![Op::Repl(c, s), Op::Repl(s, c), Op::Repl(o, s), Op::Repl(o, c), Op::Repl(c, o)];
    if rng.chance(1, 2) {
        tail.swap(0, 1);
    }
    if rng.chance(1, 2) {
        tail.swap(2, 3);
    }
    for op in tail {
        hi.run(rng.range(1, 100), op).await;
    }
    hi.quiesce(rng).await;
    sink.bump("race_histories");
    hi.finish(sink);
}

fn main() {
    let args = parse_args();
    let rt = tokio::runtime::Builder::new_current_thread().enable_all().build().expect("rt");
    if args.extra.iter().any(|x| x == "--probe") {
        rt.block_on(probe());
        return;
    }
    let mut rng = Rng::new(args.seed);
    let mut sink = Sink::new(&args, "KV.C09.Model", 6);
    sink.rule = "histories on three real in-memory QueryServers of one domain at simulated transaction times (distinct whole \
seconds; gaps from 1 s to more than twice the 7-day changelog window): create / modify / delete of up to 4 groups, purge_recycled, \
purge_tombstones, housekeeping rounds and incremental replication in random directions, 0-2 directed links silent until the end, two full \
replication rounds at the end; plus scripted tombstone-versus-concurrent-edit races, stale-supplier-clock histories and one-way-break histories (one replica stops hearing another for longer than the window while the reverse \
direction and all housekeeping keep running) with random roles, periods and tails. non-trivial = (at least one tombstone was reaped, at \
least one replication was accepted and at least one was refused) or an applied replication brought a tombstone together with a live entry or a different tombstone"
        .into();
    let (n_groups, max_len) = if args.thorough { (70u64, 50u64) } else { (10, 36) };
    rt.block_on(async {
        for h in 0..n_groups * 6 {
            if h % 6 == 5 {
                oneway_history(h, &mut rng, &mut sink).await;
            } else if h % 12 == 4 {
                staleclock_history(h, &mut rng, &mut sink).await;
            } else if h % 6 == 3 {
                race_history(h, &mut rng, &mut sink).await;
            } else {
                random_history(h, &mut rng, &mut sink, max_len).await;
            }
        }
    });
    sink.finish();
}
