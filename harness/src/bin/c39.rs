//! C39 — OAuth2 tokens are redeemable only as issued.
//!
//! Random histories on a REAL in-memory IdmServer: one person with two parent (user auth)
//! sessions, two confidential OAuth2 clients (A: PKCE enforced, B: PKCE optional, different
//! refresh-token lifetimes). Operations: issue an authorisation code through the real
//! authorisation endpoint, redeem codes and refresh tokens with mutated client / secret /
//! redirect URI / verifier / scopes / times, introspect, userinfo, revoke tokens, revoke a
//! parent session, move the account validity window, unrelated modifies, and direct probes of
//! `check_oauth2_account_uuid_valid`. After every op the account's session maps are read back.
//! The Coq model (KV.C39.Model) replays the same history (`agree`), and `pcheck` evaluates the
//! property on the implementation's own outputs.
use kanidm_lib_crypto::CryptoPolicy;
use kanidm_proto::internal::{UatPurpose, UserAuthToken};
use kanidm_proto::oauth2::{
    AccessTokenIntrospectRequest, AccessTokenRequest, AuthorisationRequest, ClientPostAuth,
    GrantTypeReq, OAuth2RFC9068Token, OAuth2RFC9068TokenExtensions, ResponseType,
    TokenRevokeRequest,
};
use kanidmd_lib::credential::Credential;
use kanidmd_lib::entry::{Entry, EntryInit, EntryNew};
use kanidmd_lib::idm::oauth2::{
    AuthorisationRequestContext, AuthoriseResponse, Oauth2Error,
};
use kanidmd_lib::idm::server::IdmServerTransaction;
use kanidmd_lib::prelude::*;
use kanidmd_lib::testkit::{setup_idm_test, TestConfiguration};
use kanidmd_lib::value::{AuthType, Session, SessionState};
use kanidmd_lib::filter;
use kvh::*;
use std::collections::{BTreeMap, BTreeSet};

const G: u64 = 1_000_000_000;
const T0: u64 = 10_000 * G;

fn d(ns: u64) -> Duration {
    Duration::from_nanos(ns)
}
// `time::OffsetDateTime` is not a dependency of this crate: made through kanidm's own
// `From<&Cid> for OffsetDateTime` (UNIX_EPOCH + ts).
macro_rules! odt {
    ($ns:expr) => {
        (&Cid { ts: Duration::from_nanos($ns), s_uuid: Uuid::from_u128(0) }).into()
    };
}

// ---------------------------------------------------------------- independent SHA-256 (FIPS 180-4)
fn sha256(msg: &[u8]) -> [u8; 32] {
    const K: [u32; 64] = [
        0x428a2f98, 0x71374491, 0xb5c0fbcf, 0xe9b5dba5, 0x3956c25b, 0x59f111f1, 0x923f82a4, 0xab1c5ed5,
        0xd807aa98, 0x12835b01, 0x243185be, 0x550c7dc3, 0x72be5d74, 0x80deb1fe, 0x9bdc06a7, 0xc19bf174,
        0xe49b69c1, 0xefbe4786, 0x0fc19dc6, 0x240ca1cc, 0x2de92c6f, 0x4a7484aa, 0x5cb0a9dc, 0x76f988da,
        0x983e5152, 0xa831c66d, 0xb00327c8, 0xbf597fc7, 0xc6e00bf3, 0xd5a79147, 0x06ca6351, 0x14292967,
        0x27b70a85, 0x2e1b2138, 0x4d2c6dfc, 0x53380d13, 0x650a7354, 0x766a0abb, 0x81c2c92e, 0x92722c85,
        0xa2bfe8a1, 0xa81a664b, 0xc24b8b70, 0xc76c51a3, 0xd192e819, 0xd6990624, 0xf40e3585, 0x106aa070,
        0x19a4c116, 0x1e376c08, 0x2748774c, 0x34b0bcb5, 0x391c0cb3, 0x4ed8aa4a, 0x5b9cca4f, 0x682e6ff3,
        0x748f82ee, 0x78a5636f, 0x84c87814, 0x8cc70208, 0x90befffa, 0xa4506ceb, 0xbef9a3f7, 0xc67178f2,
    ];
    let mut h: [u32; 8] = [
        0x6a09e667, 0xbb67ae85, 0x3c6ef372, 0xa54ff53a, 0x510e527f, 0x9b05688c, 0x1f83d9ab, 0x5be0cd19,
    ];
    let mut m = msg.to_vec();
    let bitlen = (msg.len() as u64) * 8;
    m.push(0x80);
    while m.len() % 64 != 56 {
        m.push(0);
    }
    m.extend_from_slice(&bitlen.to_be_bytes());
    for chunk in m.chunks(64) {
        let mut w = [0u32; 64];
        for i in 0..16 {
            w[i] = u32::from_be_bytes([chunk[4 * i], chunk[4 * i + 1], chunk[4 * i + 2], chunk[4 * i + 3]]);
        }
        for i in 16..64 {
            let s0 = w[i - 15].rotate_right(7) ^ w[i - 15].rotate_right(18) ^ (w[i - 15] >> 3);
            let s1 = w[i - 2].rotate_right(17) ^ w[i - 2].rotate_right(19) ^ (w[i - 2] >> 10);
            w[i] = w[i - 16].wrapping_add(s0).wrapping_add(w[i - 7]).wrapping_add(s1);
        }
        let mut v = h;
        for i in 0..64 {
            let s1 = v[4].rotate_right(6) ^ v[4].rotate_right(11) ^ v[4].rotate_right(25);
            let ch = (v[4] & v[5]) ^ (!v[4] & v[6]);
            let t1 = v[7].wrapping_add(s1).wrapping_add(ch).wrapping_add(K[i]).wrapping_add(w[i]);
            let s0 = v[0].rotate_right(2) ^ v[0].rotate_right(13) ^ v[0].rotate_right(22);
            let mj = (v[0] & v[1]) ^ (v[0] & v[2]) ^ (v[1] & v[2]);
            let t2 = s0.wrapping_add(mj);
            v = [t1.wrapping_add(t2), v[0], v[1], v[2], v[3].wrapping_add(t1), v[4], v[5], v[6]];
        }
        for i in 0..8 {
            h[i] = h[i].wrapping_add(v[i]);
        }
    }
    let mut out = [0u8; 32];
    for i in 0..8 {
        out[4 * i..4 * i + 4].copy_from_slice(&h[i].to_be_bytes());
    }
    out
}

fn b64url_decode(s: &str) -> Vec<u8> {
    let mut bits: u32 = 0;
    let mut nb = 0;
    let mut out = vec![];
    for c in s.bytes() {
        let v = match c {
            b'A'..=b'Z' => c - b'A',
            b'a'..=b'z' => c - b'a' + 26,
            b'0'..=b'9' => c - b'0' + 52,
            b'-' => 62,
            b'_' => 63,
            _ => continue,
        } as u32;
        bits = (bits << 6) | v;
        nb += 6;
        if nb >= 8 {
            nb -= 8;
            out.push((bits >> nb) as u8);
            bits &= (1 << nb) - 1;
        }
    }
    out
}

// ---------------------------------------------------------------- fixed world
const U_PERSON: Uuid = Uuid::from_u128(0xc39_0000_0000_0000_0000_0000_0000_0001);
const U_GROUP: Uuid = Uuid::from_u128(0xc39_0000_0000_0000_0000_0000_0000_0002);
const U_RS: [Uuid; 2] = [
    Uuid::from_u128(0xc39_0000_0000_0000_0000_0000_0000_00a0),
    Uuid::from_u128(0xc39_0000_0000_0000_0000_0000_0000_00b0),
];
const U_UAT: [Uuid; 2] = [
    Uuid::from_u128(0xc39_0000_0000_0000_0000_0000_0000_0100),
    Uuid::from_u128(0xc39_0000_0000_0000_0000_0000_0000_0101),
];
const CLIENT_NAME: [&str; 3] = ["c39_client_a", "c39_client_b", "c39_nosuch"];
const REDIR: [&str; 3] = ["https://app.example.com/cb", "https://app.example.com/cb2", "https://evil.example.net/cb"];
const SCOPES: [&str; 5] = ["openid", "profile", "email", "groups", "read"];
const VERIFIERS: [&str; 4] = [
    "Yeez8ahchi0eesh9iegh5Ooxaixoong3aeT0aidu1oh",
    "yeez8ahchi0eesh9iegh5Ooxaixoong3aeT0aidu1oh",
    "Yeez8ahchi0eesh9iegh5Ooxaixoong3aeT0aidu1o",
    "",
];

#[derive(Clone, Debug)]
enum Op {
    Code { ct: u64, client: usize, parent: usize, chal: Option<usize>, redir: usize, scopes: Vec<usize> },
    Exch { ct: u64, client: usize, sec_ok: bool, code: Option<usize>, redir: usize, ver: Option<usize> },
    Refr { ct: u64, client: usize, sec_ok: bool, tok: Option<(usize, bool)>, req: Option<Vec<usize>> },
    Intro { ct: u64, tok: usize, refresh: bool },
    User { ct: u64, client: usize, tok: usize },
    Revoke { ct: u64, tok: usize, refresh: bool },
    RevokeParent { ct: u64, parent: usize },
    SetWin { ct: u64, from: Option<u64>, exp: Option<u64> },
    Touch { ct: u64 },
    Probe { ct: u64, sid: u64, parent: Option<u64>, iat: u64 },
}

#[derive(Clone, Debug)]
struct TokObs {
    sid: u64,
    scopes: Vec<u64>,
    iat: u64,
    aexp: u64,
    rexp: u64,
    parent: Option<u64>,
}

#[derive(Clone, Debug)]
enum Res {
    Unit,
    Tok(TokObs),
    Err(u64),
    Intro(bool, Vec<u64>),
    Bool(bool),
}

fn err_code(e: &Oauth2Error) -> u64 {
    match e {
        Oauth2Error::InvalidRequest => 1,
        Oauth2Error::InvalidGrant => 2,
        Oauth2Error::InvalidOrigin => 3,
        Oauth2Error::InvalidScope => 4,
        Oauth2Error::AuthenticationRequired => 5,
        Oauth2Error::InvalidToken => 6,
        Oauth2Error::InvalidClientId => 7,
        Oauth2Error::ServerError(_) => 8,
        _ => 9,
    }
}

struct World {
    idms: IdmServer,
    secrets: [String; 2],
    uats: [UserAuthToken; 2],
    /// challenge bytes of each entry of the challenge table (index = challenge id)
    chals: Vec<Vec<u8>>,
    codes: BTreeMap<usize, String>,
    /// op index -> (access token, refresh token)
    toks: BTreeMap<usize, (String, String)>,
    /// real session uuid -> interned id (op index of the exchange that created it)
    sids: BTreeMap<Uuid, u64>,
}

fn scope_set(ix: &[usize]) -> BTreeSet<String> {
    ix.iter().map(|i| SCOPES[*i].to_string()).collect()
}
fn scope_ids(s: &BTreeSet<String>) -> Vec<u64> {
    let mut v: Vec<u64> = s
        .iter()
        .map(|x| SCOPES.iter().position(|y| y == x).map(|p| p as u64).unwrap_or(99))
        .collect();
    v.sort();
    v
}

async fn setup(uat_exp: [Option<u64>; 2], refresh_exp: [u32; 2]) -> World {
    let (idms, _delayed, _audit) = setup_idm_test(TestConfiguration::default()).await;
    let ct = d(T0);
    let mut wr = idms.proxy_write(ct).await.expect("write");
    let all_scopes: BTreeSet<String> = SCOPES.iter().map(|s| s.to_string()).collect();
    let e_group: Entry<EntryInit, EntryNew> = kanidmd_lib::entry_init!(
        (Attribute::Class, EntryClass::Object.to_value()),
        (Attribute::Class, EntryClass::Group.to_value()),
        (Attribute::Name, Value::new_iname("c39group")),
        (Attribute::Uuid, Value::Uuid(U_GROUP)),
        (Attribute::Member, Value::Refer(U_PERSON))
    );
    let e_person: Entry<EntryInit, EntryNew> = kanidmd_lib::entry_init!(
        (Attribute::Class, EntryClass::Object.to_value()),
        (Attribute::Class, EntryClass::Account.to_value()),
        (Attribute::Class, EntryClass::Person.to_value()),
        (Attribute::Name, Value::new_iname("c39person")),
        (Attribute::Uuid, Value::Uuid(U_PERSON)),
        (Attribute::Description, Value::new_utf8s("c39person")),
        (Attribute::DisplayName, Value::new_utf8s("c39person"))
    );
    let mut entries = vec![e_group, e_person];
    for k in 0..2 {
        let e_rs: Entry<EntryInit, EntryNew> = kanidmd_lib::entry_init!(
            (Attribute::Class, EntryClass::Object.to_value()),
            (Attribute::Class, EntryClass::Account.to_value()),
            (Attribute::Class, EntryClass::OAuth2ResourceServer.to_value()),
            (Attribute::Class, EntryClass::OAuth2ResourceServerBasic.to_value()),
            (Attribute::Uuid, Value::Uuid(U_RS[k])),
            (Attribute::Name, Value::new_iname(CLIENT_NAME[k])),
            (Attribute::DisplayName, Value::new_utf8s(CLIENT_NAME[k])),
            (Attribute::OAuth2RsOriginLanding, Value::new_url_s("https://app.example.com").unwrap()),
            (Attribute::OAuth2RsOrigin, Value::new_url_s(REDIR[0]).unwrap()),
            (Attribute::OAuth2RsOrigin, Value::new_url_s(REDIR[1]).unwrap()),
            (
                Attribute::OAuth2RsScopeMap,
                Value::new_oauthscopemap(U_GROUP, all_scopes.clone()).expect("scopemap")
            ),
            (Attribute::OAuth2AllowInsecureClientDisablePkce, Value::new_bool(k == 1)),
            (Attribute::OAuth2ConsentPromptEnable, Value::new_bool(false)),
            (Attribute::OAuth2RefreshTokenExpiry, Value::new_uint32(refresh_exp[k]))
        );
        entries.push(e_rs);
    }
    wr.qs_write.internal_create(entries).expect("create world");

    let mut secrets = [String::new(), String::new()];
    for k in 0..2 {
        let e = wr.qs_write.internal_search_uuid(U_RS[k]).expect("rs");
        secrets[k] = e
            .get_ava_single_secret(Attribute::OAuth2RsBasicSecret)
            .expect("secret")
            .to_string();
    }

    let p = CryptoPolicy::minimum();
    let cred = Credential::new_password_only(&p, "eicieY7ahchaoCh0eeTa", odt!(0)).expect("cred");
    let cred_id = kanidmd_lib::verif_hooks::c28::cred_uuid(&cred);
    let mut mods = vec![Modify::Present(
        Attribute::PrimaryCredential,
        Value::Cred("primary".to_string(), cred),
    )];
    let mk_uat = |k: usize| UserAuthToken {
        session_id: U_UAT[k],
        issued_at: odt!(T0),
        expiry: uat_exp[k].map(|e| odt!(e)),
        purpose: UatPurpose::ReadOnly,
        uuid: U_PERSON,
        displayname: "c39person".to_string(),
        spn: "c39person@example.com".to_string(),
        mail_primary: None,
        ui_hints: Default::default(),
        limit_search_max_results: None,
        limit_search_max_filter_test: None,
    };
    let uats = [mk_uat(0), mk_uat(1)];
    for k in 0..2 {
        let state = match uat_exp[k] {
            Some(e) => SessionState::ExpiresAt(odt!(e)),
            None => SessionState::NeverExpires,
        };
        mods.push(Modify::Present(
            Attribute::UserAuthTokenSession,
            Value::Session(
                U_UAT[k],
                Session {
                    label: format!("c39 parent {}", k),
                    state,
                    issued_at: odt!(T0),
                    issued_by: IdentityId::Internal(U_PERSON),
                    cred_id,
                    scope: SessionScope::ReadOnly,
                    type_: AuthType::Passkey,
                    ext_metadata: Default::default(),
                },
            ),
        ));
    }
    wr.qs_write
        .internal_modify(
            &filter!(f_eq(Attribute::Uuid, PartialValue::Uuid(U_PERSON))),
            &ModifyList::new_list(mods),
        )
        .expect("person sessions");
    wr.commit().expect("commit world");
    World {
        idms,
        secrets,
        uats,
        chals: vec![],
        codes: BTreeMap::new(),
        toks: BTreeMap::new(),
        sids: BTreeMap::new(),
    }
}

fn post_auth(w: &World, client: usize, sec_ok: bool) -> ClientPostAuth {
    ClientPostAuth {
        client_id: Some(CLIENT_NAME[client].to_string()),
        client_secret: Some(if client < 2 && sec_ok {
            w.secrets[client].clone()
        } else {
            "ohngaeyeiQu3ooM8aeH9aiQu".to_string()
        }),
    }
}

fn parse_access(w: &mut World, i: usize, access: &str) -> (OAuth2RFC9068Token<OAuth2RFC9068TokenExtensions>, u64, Option<u64>) {
    let payload = access.split('.').nth(1).expect("jws payload");
    let raw = b64url_decode(payload);
    let at: OAuth2RFC9068Token<OAuth2RFC9068TokenExtensions> =
        serde_json::from_slice(&raw).expect("access token json");
    let sid = *w.sids.entry(at.extensions.session_id).or_insert(i as u64);
    let parent = at.extensions.parent_session_id.map(|p| {
        U_UAT.iter().position(|u| *u == p).map(|x| x as u64).unwrap_or(77)
    });
    (at, sid, parent)
}

/// Runs one op against the real server; None = the op could not be set up (skipped).
async fn run_op(w: &mut World, i: usize, op: &Op) -> Option<Res> {
    let none_auth = ClientAuthInfo::new(Source::Internal, None, None, None);
    match op {
        Op::Code { ct, client, parent, chal, redir, scopes } => {
            let ct_d = d(*ct);
            // the identity is rebuilt from the user auth token for every request, as the
            // HTTP layer does: an expired / revoked login cannot start an authorisation
            let uat = &w.uats[*parent];
            let mut rd = w.idms.proxy_read().await.expect("read");
            if let Some(_e) = &uat.expiry {
                let e_ns = _e.unix_timestamp_nanos() as u64;
                if e_ns < *ct {
                    return None;
                }
            }
            let ident = match rd.process_uat_to_identity(uat, ct_d, Source::Internal) {
                Ok(id) => id,
                Err(_) => return None,
            };
            let pkce_request = chal.map(|c| kanidm_proto::oauth2::PkceRequest {
                code_challenge: w.chals[c].clone(),
                code_challenge_method: kanidm_proto::oauth2::CodeChallengeMethod::S256,
            });
            let auth_req = AuthorisationRequest {
                response_type: ResponseType::Code,
                response_mode: None,
                client_id: CLIENT_NAME[*client].to_string(),
                state: Some("st".to_string()),
                pkce_request,
                redirect_uri: Url::parse(REDIR[*redir]).unwrap(),
                scope: scope_set(scopes),
                nonce: Some("n0nce".to_string()),
                oidc_ext: Default::default(),
                max_age: None,
                prompt: Default::default(),
                ui_locales: Default::default(),
                unknown_keys: Default::default(),
            };
            match rd.check_oauth2_authorisation(
                Some(&ident),
                &auth_req,
                &AuthorisationRequestContext::default(),
                ct_d,
            ) {
                Ok(AuthoriseResponse::Permitted(p)) => {
                    w.codes.insert(i, p.code);
                    Some(Res::Unit)
                }
                _ => None,
            }
        }
        Op::Exch { ct, client, sec_ok, code, redir, ver } => {
            let ct_d = d(*ct);
            let code_s = match code {
                Some(c) => w.codes.get(c).cloned().expect("code ref"),
                None => "bm90IGEgY29kZQ.at.all".to_string(),
            };
            let req = AccessTokenRequest {
                grant_type: GrantTypeReq::AuthorizationCode {
                    code: code_s,
                    redirect_uri: Url::parse(REDIR[*redir]).unwrap(),
                    code_verifier: ver.map(|v| VERIFIERS[v].to_string()),
                },
                client_post_auth: post_auth(w, *client, *sec_ok),
            };
            let mut wr = w.idms.proxy_write(ct_d).await.expect("write");
            let r = wr.check_oauth2_token_exchange(&none_auth, &req, ct_d);
            match &r {
                Ok(_) | Err(Oauth2Error::InvalidGrant) => wr.commit().expect("commit"),
                _ => drop(wr),
            }
            Some(token_result(w, i, r).await)
        }
        Op::Refr { ct, client, sec_ok, tok, req } => {
            let ct_d = d(*ct);
            let tok_s = match tok {
                Some((t, true)) => w.toks.get(t).expect("tok ref").1.clone(),
                Some((t, false)) => w.toks.get(t).expect("tok ref").0.clone(),
                None => "bm90IGEgdG9rZW4.not.a.tok.en".to_string(),
            };
            let rq = AccessTokenRequest {
                grant_type: GrantTypeReq::RefreshToken {
                    refresh_token: tok_s,
                    scope: req.as_ref().map(|s| scope_set(s)),
                },
                client_post_auth: post_auth(w, *client, *sec_ok),
            };
            let mut wr = w.idms.proxy_write(ct_d).await.expect("write");
            let r = wr.check_oauth2_token_exchange(&none_auth, &rq, ct_d);
            match &r {
                Ok(_) | Err(Oauth2Error::InvalidGrant) => wr.commit().expect("commit"),
                _ => drop(wr),
            }
            Some(token_result(w, i, r).await)
        }
        Op::Intro { ct, tok, refresh } => {
            let pair = w.toks.get(tok).expect("tok ref");
            let req = AccessTokenIntrospectRequest {
                token: if *refresh { pair.1.clone() } else { pair.0.clone() },
                token_type_hint: None,
                client_post_auth: ClientPostAuth::default(),
            };
            let mut rd = w.idms.proxy_read().await.expect("read");
            Some(match rd.check_oauth2_token_introspect(&req, d(*ct)) {
                Ok(r) => Res::Intro(r.active, scope_ids(&r.scope)),
                Err(e) => Res::Err(err_code(&e)),
            })
        }
        Op::User { ct, client, tok } => {
            let pair = w.toks.get(tok).expect("tok ref");
            let mut rd = w.idms.proxy_read().await.expect("read");
            Some(match rd.verif_c39_userinfo(CLIENT_NAME[*client], &pair.0, d(*ct)) {
                Ok(_) => Res::Unit,
                Err(Some(e)) => Res::Err(err_code(&e)),
                Err(None) => Res::Err(9),
            })
        }
        Op::Revoke { ct, tok, refresh } => {
            let pair = w.toks.get(tok).expect("tok ref");
            let req = TokenRevokeRequest {
                token: if *refresh { pair.1.clone() } else { pair.0.clone() },
                token_type_hint: None,
                client_post_auth: ClientPostAuth::default(),
            };
            let mut wr = w.idms.proxy_write(d(*ct)).await.expect("write");
            let r = wr.oauth2_token_revoke(&req, d(*ct));
            Some(match r {
                Ok(()) => {
                    wr.commit().expect("commit");
                    Res::Unit
                }
                Err(e) => Res::Err(err_code(&e)),
            })
        }
        Op::RevokeParent { ct, parent } => {
            let mut wr = w.idms.proxy_write(d(*ct)).await.expect("write");
            wr.qs_write
                .internal_modify(
                    &filter!(f_eq(Attribute::Uuid, PartialValue::Uuid(U_PERSON))),
                    &ModifyList::new_list(vec![Modify::Removed(
                        Attribute::UserAuthTokenSession,
                        PartialValue::Refer(U_UAT[*parent]),
                    )]),
                )
                .expect("revoke parent");
            wr.commit().expect("commit");
            Some(Res::Unit)
        }
        Op::SetWin { ct, from, exp } => {
            let mut mods = vec![
                Modify::Purged(Attribute::AccountValidFrom),
                Modify::Purged(Attribute::AccountExpire),
            ];
            if let Some(f) = from {
                mods.push(Modify::Present(Attribute::AccountValidFrom, Value::new_datetime_epoch(d(*f))));
            }
            if let Some(e) = exp {
                mods.push(Modify::Present(Attribute::AccountExpire, Value::new_datetime_epoch(d(*e))));
            }
            let mut wr = w.idms.proxy_write(d(*ct)).await.expect("write");
            wr.qs_write
                .internal_modify(
                    &filter!(f_eq(Attribute::Uuid, PartialValue::Uuid(U_PERSON))),
                    &ModifyList::new_list(mods),
                )
                .expect("set window");
            wr.commit().expect("commit");
            Some(Res::Unit)
        }
        Op::Touch { ct } => {
            let mut wr = w.idms.proxy_write(d(*ct)).await.expect("write");
            wr.qs_write
                .internal_modify(
                    &filter!(f_eq(Attribute::Uuid, PartialValue::Uuid(U_PERSON))),
                    &ModifyList::new_list(vec![
                        Modify::Purged(Attribute::Description),
                        Modify::Present(Attribute::Description, Value::new_utf8s(&format!("touched at {}", ct))),
                    ]),
                )
                .expect("touch");
            wr.commit().expect("commit");
            Some(Res::Unit)
        }
        Op::Probe { ct, sid, parent, iat } => {
            let sid_u = w
                .sids
                .iter()
                .find(|(_, v)| **v == *sid)
                .map(|(k, _)| *k)
                .unwrap_or(Uuid::from_u128(0xdead_0000 + *sid as u128));
            let par_u = parent.map(|p| {
                if (p as usize) < 2 { U_UAT[p as usize] } else { Uuid::from_u128(0xbeef_0000 + p as u128) }
            });
            let mut rd = w.idms.proxy_read().await.expect("read");
            Some(match rd.check_oauth2_account_uuid_valid(U_PERSON, sid_u, par_u, *iat as i64, d(*ct)) {
                Ok(Some(_)) => Res::Bool(true),
                Ok(None) => Res::Bool(false),
                Err(_) => Res::Err(8),
            })
        }
    }
}

async fn token_result(
    w: &mut World,
    i: usize,
    r: Result<kanidm_proto::oauth2::AccessTokenResponse, Oauth2Error>,
) -> Res {
    match r {
        Err(e) => Res::Err(err_code(&e)),
        Ok(resp) => {
            let refresh = resp.refresh_token.clone().expect("refresh token");
            let (at, sid, parent) = parse_access(w, i, &resp.access_token);
            let rd = w.idms.proxy_read().await.expect("read");
            let rr = rd.verif_c39_reflect_refresh(&refresh).expect("reflect refresh");
            drop(rd);
            // the three carriers of the grant must tell the same story; anything else is
            // reported as an impossible scope id so that the case fails visibly
            let mut scopes = scope_ids(&resp.scope);
            if scope_ids(&at.extensions.scope) != scopes || scope_ids(&rr.scopes) != scopes {
                scopes.push(98);
            }
            if rr.session_id != at.extensions.session_id
                || rr.parent_session_id != at.extensions.parent_session_id
                || rr.account != U_PERSON
                || at.sub != U_PERSON
                || rr.iat != at.iat
                || resp.expires_in as i64 != at.exp - at.iat
            {
                scopes.push(97);
            }
            w.toks.insert(i, (resp.access_token.clone(), refresh));
            Res::Tok(TokObs {
                sid,
                scopes,
                iat: at.iat as u64,
                aexp: at.exp as u64,
                rexp: rr.exp as u64,
                parent,
            })
        }
    }
}

#[derive(Clone, Debug)]
enum SState {
    Revoked,
    Expires(u64),
    Never,
}
fn sstate_of(s: &SessionState) -> SState {
    match s {
        SessionState::RevokedAt(_) => SState::Revoked,
        SessionState::ExpiresAt(t) => SState::Expires(t.unix_timestamp_nanos() as u64),
        SessionState::NeverExpires => SState::Never,
    }
}
fn c_sstate(s: &SState) -> String {
    match s {
        SState::Revoked => "SRevoked".to_string(),
        SState::Expires(t) => capp("SExpires", &[cn(*t)]),
        SState::Never => "SNever".to_string(),
    }
}

type Obs = (Vec<(u64, SState)>, Vec<(u64, Option<u64>, SState, u64, u64)>);

async fn observe(w: &World) -> Obs {
    let mut rd = w.idms.proxy_read().await.expect("read");
    let e = rd.get_qs_txn().internal_search_uuid(U_PERSON).expect("person");
    let mut us = vec![];
    if let Some(m) = e.get_ava_as_session_map(Attribute::UserAuthTokenSession) {
        for (u, s) in m.iter() {
            let id = U_UAT.iter().position(|x| x == u).map(|x| x as u64).unwrap_or(77);
            us.push((id, sstate_of(&s.state)));
        }
    }
    us.sort_by_key(|x| x.0);
    let mut os = vec![];
    if let Some(m) = e.get_ava_as_oauth2session_map(Attribute::OAuth2Session) {
        for (u, s) in m.iter() {
            let id = w.sids.get(u).copied().unwrap_or(9999);
            let par = s.parent.map(|p| U_UAT.iter().position(|x| *x == p).map(|x| x as u64).unwrap_or(77));
            let rs = U_RS.iter().position(|x| *x == s.rs_uuid).map(|x| x as u64).unwrap_or(9);
            os.push((id, par, sstate_of(&s.state), s.issued_at.unix_timestamp_nanos() as u64, rs));
        }
    }
    os.sort_by_key(|x| x.0);
    (us, os)
}

fn c_scopes(v: &[u64]) -> String {
    clist(v, |x| cn(*x))
}
fn c_scopes_us(v: &[usize]) -> String {
    let mut v: Vec<u64> = v.iter().map(|x| *x as u64).collect();
    v.sort();
    v.dedup();
    clist(&v, |x| cn(*x))
}
fn copt_n(o: &Option<u64>) -> String {
    copt(o, |x| cn(*x))
}
fn copt_us(o: &Option<usize>) -> String {
    copt(o, |x| cn(*x as u64))
}

fn c_op(op: &Op) -> String {
    match op {
        Op::Code { ct, client, parent, chal, redir, scopes } => capp(
            "OCode",
            &[cn(*ct), cn(*client as u64), cn(*parent as u64), copt(chal, |c| cn(*c as u64 + 1)), cn(*redir as u64), c_scopes_us(scopes)],
        ),
        Op::Exch { ct, client, sec_ok, code, redir, ver } => capp(
            "OExch",
            &[cn(*ct), cn(*client as u64), cbool(*sec_ok), copt_us(code), cn(*redir as u64), copt_us(ver)],
        ),
        Op::Refr { ct, client, sec_ok, tok, req } => capp(
            "ORefr",
            &[
                cn(*ct),
                cn(*client as u64),
                cbool(*sec_ok),
                copt(tok, |(t, b)| cpair(&cn(*t as u64), &cbool(*b))),
                copt(req, |s| c_scopes_us(s)),
            ],
        ),
        Op::Intro { ct, tok, refresh } => capp("OIntro", &[cn(*ct), cn(*tok as u64), cbool(*refresh)]),
        Op::User { ct, client, tok } => capp("OUser", &[cn(*ct), cn(*client as u64), cn(*tok as u64)]),
        Op::Revoke { ct, tok, refresh } => capp("ORevoke", &[cn(*ct), cn(*tok as u64), cbool(*refresh)]),
        Op::RevokeParent { ct, parent } => capp("ORevokeParent", &[cn(*ct), cn(*parent as u64)]),
        Op::SetWin { ct, from, exp } => capp("OSetWin", &[cn(*ct), copt_n(from), copt_n(exp)]),
        Op::Touch { ct } => capp("OTouch", &[cn(*ct)]),
        Op::Probe { ct, sid, parent, iat } => capp("OProbe", &[cn(*ct), cn(*sid), copt_n(parent), cn(*iat)]),
    }
}

fn c_res(r: &Res) -> String {
    match r {
        Res::Unit => "RUnit".to_string(),
        Res::Tok(t) => capp(
            "RTok",
            &[cn(t.sid), c_scopes(&t.scopes), cn(t.iat), cn(t.aexp), cn(t.rexp), copt_n(&t.parent)],
        ),
        Res::Err(e) => capp("RErr", &[cn(*e)]),
        Res::Intro(a, s) => capp("RIntro", &[cbool(*a), c_scopes(s)]),
        Res::Bool(b) => capp("RBool", &[cbool(*b)]),
    }
}

fn c_obs(o: &Obs) -> String {
    let us = clist(&o.0, |(i, s)| cpair(&cn(*i), &c_sstate(s)));
    let os = clist(&o.1, |(i, p, s, t, r)| {
        format!("({}, {}, {}, {}, {})", cn(*i), copt_n(p), c_sstate(s), cn(*t), cn(*r))
    });
    cpair(&us, &os)
}

fn pick_scopes(rng: &mut Rng) -> Vec<usize> {
    let mut v = vec![];
    for i in 0..SCOPES.len() {
        if rng.chance(2, 5) {
            v.push(i);
        }
    }
    if v.is_empty() {
        v.push(rng.below(SCOPES.len() as u64) as usize);
    }
    v
}

fn main() {
    let args = parse_args();
    let mut rng = Rng::new(args.seed);
    let mut sink = Sink::new(&args, "KV.C39.Model", 4);
    sink.rule = "random histories (quick: 56 x 40..80 ops, thorough: 400 x 50..100 ops) on a real in-memory IdmServer: \
codes issued by the real authorisation endpoint, then code / refresh exchanges with mutated client, secret, redirect URI, \
verifier, scopes and times (time steps 0, 0.2 s, 0.5 s, 1 s, 5 s, 61 s, 200 s, 301 s, 700 s, 901 s so that same-second reuse, \
code expiry, grace window, access and refresh expiry, parent-session expiry all occur), interleaved with introspection, userinfo, \
token revocation, parent session revocation, account validity window changes, unrelated modifies and direct probes of \
check_oauth2_account_uuid_valid. non-trivial = the history contains at least one successful refresh AND at least one refused \
refresh/introspection/userinfo of a genuine token AND a revocation or window change".into();
    let rt = tokio::runtime::Builder::new_current_thread().enable_all().build().expect("rt");

    // sanity of the independent SHA-256 (FIPS 180-4 "abc" vector) and of its relation to the server's PKCE type
    let abc = sha256(b"abc");
    assert_eq!(abc[0..4], [0xba, 0x78, 0x16, 0xbf]);

    let n_hist = if args.thorough { 400 } else { 56 };
    let (lo, hi) = if args.thorough { (50, 100) } else { (40, 80) };
    let steps_ns: [u64; 10] = [0, G / 5, G / 2, G, 5 * G, 61 * G, 200 * G, 301 * G, 700 * G, 901 * G];

    for _hid in 0..n_hist {
        let uat_exp = [
            *rng.pick(&[Some(T0 + 400 * G), Some(T0 + 1500 * G), Some(T0 + 100_000 * G), None]),
            *rng.pick(&[Some(T0 + 900 * G), Some(T0 + 100_000 * G), None]),
        ];
        let refresh_exp = [*rng.pick(&[1200u32, 2400, 57600]), *rng.pick(&[600u32, 1800])];
        let mut w = rt.block_on(setup(uat_exp, refresh_exp));

        // challenge table: id c < 4 = SHA-256 of verifier c (independent implementation),
        // id 4 = 32 bytes that are nobody's hash
        let mut htab = vec![];
        for (vi, v) in VERIFIERS.iter().enumerate() {
            w.chals.push(sha256(v.as_bytes()).to_vec());
            htab.push((vi as u64, vi as u64 + 1));
        }
        w.chals.push(vec![0x5a; 32]);
        // challenge ids in Coq are 1-based (0 = "no such verifier"), chal index c -> id c+1

        let len = rng.range(lo, hi) as usize;
        let mut now = T0 + G;
        let mut steps: Vec<(Op, Res, Obs)> = vec![];
        let mut code_ix: Vec<usize> = vec![];
        let mut tok_ix: Vec<usize> = vec![];
        let mut n_ok_refresh = 0;
        let mut n_refused = 0;
        let mut n_admin = 0;
        let mut txt = format!("hist uat_exp={:?} refresh_exp={:?}:", uat_exp, refresh_exp);
        let mut guard = 0;
        let mut pending_code: Option<usize> = None;
        while steps.len() < len && guard < 400 {
            guard += 1;
            // time mostly creeps, sometimes jumps
            let redeem_now = pending_code.is_some() && rng.chance(17, 20);
            let dt = if redeem_now || rng.chance(17, 20) { steps_ns[rng.below(5) as usize] } else { *rng.pick(&steps_ns) };
            now += dt;
            let ct = now;
            let i = steps.len();
            let k = if redeem_now { 10 } else { rng.below(100) };
            let pend = pending_code.take();
            let op = if code_ix.is_empty() || k < 8 || (tok_ix.is_empty() && !redeem_now && k >= 14) {
                let client = rng.below(2) as usize;
                let chal = if client == 1 && rng.chance(1, 2) {
                    None
                } else {
                    Some(*rng.pick(&[0usize, 0, 0, 1, 4]))
                };
                Op::Code {
                    ct,
                    client,
                    parent: rng.below(2) as usize,
                    chal,
                    redir: rng.below(2) as usize,
                    scopes: pick_scopes(&mut rng),
                }
            } else if k < 14 || tok_ix.is_empty() {
                // redeem a code: mostly the latest, mostly with the right parameters, one mutation at a time
                let ci = match pend {
                    Some(c) if redeem_now => c,
                    _ => if rng.chance(3, 4) { *code_ix.last().unwrap() } else { *rng.pick(&code_ix) },
                };
                let (c_client, c_chal, c_redir) = match &steps[ci].0 {
                    Op::Code { client, chal, redir, .. } => (*client, *chal, *redir),
                    _ => unreachable!(),
                };
                let mut client = c_client;
                let mut sec_ok = true;
                let mut code = Some(ci);
                let mut redir = c_redir;
                let mut ver = match c_chal {
                    Some(c) if c < 4 => Some(c),
                    Some(_) => Some(0),
                    None => None,
                };
                match rng.below(12) {
                    0 => client = 1 - c_client,
                    1 => client = 2,
                    2 => sec_ok = false,
                    3 => code = None,
                    4 => redir = 1 - c_redir,
                    5 => redir = 2,
                    6 => ver = Some(rng.below(4) as usize),
                    7 => ver = None,
                    8 => ver = Some(*rng.pick(&[1usize, 2, 3])),
                    _ => {}
                }
                Op::Exch { ct, client, sec_ok, code, redir, ver }
            } else if k < 55 {
                let ti = if rng.chance(1, 2) { *tok_ix.last().unwrap() } else { *rng.pick(&tok_ix) };
                let (t_client, t_scopes) = match &steps[ti] {
                    (Op::Exch { client, .. }, Res::Tok(t), _) | (Op::Refr { client, .. }, Res::Tok(t), _) => {
                        (*client, t.scopes.clone())
                    }
                    _ => unreachable!(),
                };
                let mut client = t_client;
                let mut sec_ok = true;
                let mut tok = Some((ti, true));
                let mut req = None;
                match rng.below(14) {
                    0 => client = 1 - t_client,
                    1 => client = 2,
                    2 => sec_ok = false,
                    3 => tok = None,
                    4 => tok = Some((ti, false)),
                    5 | 6 => {
                        // a subset of the token's scopes
                        let sub: Vec<usize> =
                            t_scopes.iter().filter(|_| rng.chance(1, 2)).map(|x| *x as usize).collect();
                        req = Some(if sub.is_empty() { vec![t_scopes[0] as usize] } else { sub });
                    }
                    7 => req = Some(t_scopes.iter().map(|x| *x as usize).collect()),
                    8 | 9 => {
                        // try to widen
                        let mut s: Vec<usize> = t_scopes.iter().map(|x| *x as usize).collect();
                        s.push(rng.below(SCOPES.len() as u64) as usize);
                        req = Some(s);
                    }
                    10 => req = Some(pick_scopes(&mut rng)),
                    _ => {}
                }
                Op::Refr { ct, client, sec_ok, tok, req }
            } else if k < 68 {
                Op::Intro { ct, tok: *rng.pick(&tok_ix), refresh: rng.chance(1, 8) }
            } else if k < 77 {
                let ti = *rng.pick(&tok_ix);
                let t_client = match &steps[ti].0 {
                    Op::Exch { client, .. } | Op::Refr { client, .. } => *client,
                    _ => unreachable!(),
                };
                let client = match rng.below(8) {
                    0 => 1 - t_client,
                    1 => 2,
                    _ => t_client,
                };
                Op::User { ct, client, tok: ti }
            } else if k < 79 {
                Op::Revoke { ct, tok: *rng.pick(&tok_ix), refresh: rng.chance(1, 2) }
            } else if k < 80 {
                Op::RevokeParent { ct, parent: rng.below(2) as usize }
            } else if k < 83 {
                let cs = ct / G * G;
                let from = *rng.pick(&[None, None, None, Some(cs - 50 * G), Some(cs + 3 * G)]);
                let exp = *rng.pick(&[None, None, None, Some(cs + 2 * G), Some(cs + 400 * G), Some(cs - 10 * G)]);
                Op::SetWin { ct, from, exp }
            } else if k < 88 {
                Op::Touch { ct }
            } else {
                let sid = if rng.chance(4, 5) {
                    w.sids.values().copied().collect::<Vec<_>>().get(rng.below(8) as usize).copied().unwrap_or(9000)
                } else {
                    9000 + rng.below(3)
                };
                let parent = *rng.pick(&[None, Some(0u64), Some(1), Some(70)]);
                let iat = *rng.pick(&[ct / G, (ct / G).saturating_sub(299), (ct / G).saturating_sub(300), (ct / G).saturating_sub(301), T0 / G]);
                Op::Probe { ct, sid, parent, iat }
            };
            let res = match rt.block_on(run_op(&mut w, i, &op)) {
                Some(r) => r,
                None => {
                    sink.bump("op_skipped_no_login");
                    continue;
                }
            };
            let obs = rt.block_on(observe(&w));
            match (&op, &res) {
                (Op::Code { .. }, _) => {
                    code_ix.push(i);
                    pending_code = Some(i);
                    sink.bump("code_issued");
                }
                (Op::Exch { .. }, Res::Tok(_)) => {
                    tok_ix.push(i);
                    sink.bump("exchange_ok");
                }
                (Op::Exch { .. }, Res::Err(e)) => sink.bump(&format!("exchange_err_{}", e)),
                (Op::Refr { .. }, Res::Tok(_)) => {
                    tok_ix.push(i);
                    n_ok_refresh += 1;
                    sink.bump("refresh_ok");
                }
                (Op::Refr { tok: Some((_, true)), sec_ok: true, .. }, Res::Err(e)) => {
                    n_refused += 1;
                    sink.bump(&format!("refresh_err_{}", e));
                }
                (Op::Refr { .. }, Res::Err(e)) => sink.bump(&format!("refresh_err_{}", e)),
                (Op::Intro { refresh: false, .. }, Res::Intro(false, _)) => {
                    n_refused += 1;
                    sink.bump("introspect_inactive");
                }
                (Op::Intro { .. }, Res::Intro(true, _)) => sink.bump("introspect_active"),
                (Op::Intro { .. }, _) => sink.bump("introspect_other"),
                (Op::User { .. }, Res::Unit) => sink.bump("userinfo_ok"),
                (Op::User { .. }, Res::Err(6)) => {
                    n_refused += 1;
                    sink.bump("userinfo_invalid_token");
                }
                (Op::User { .. }, _) => sink.bump("userinfo_other_err"),
                (Op::Revoke { .. }, _) => {
                    n_admin += 1;
                    sink.bump("revoke");
                }
                (Op::RevokeParent { .. }, _) => {
                    n_admin += 1;
                    sink.bump("revoke_parent");
                }
                (Op::SetWin { .. }, _) => {
                    n_admin += 1;
                    sink.bump("set_window");
                }
                (Op::Touch { .. }, _) => sink.bump("touch"),
                (Op::Probe { .. }, Res::Bool(b)) => sink.bump(if *b { "probe_valid" } else { "probe_invalid" }),
                _ => sink.bump("other"),
            }
            let _ = std::fmt::Write::write_fmt(&mut txt, format_args!(" [{}] {:?} => {:?};", i, op, res));
            steps.push((op, res, obs));
        }
        let coq_steps: Vec<String> = steps
            .iter()
            .map(|(o, r, ob)| format!("({}, {}, {})", c_op(o), c_res(r), c_obs(ob)))
            .collect();
        // the Coq side uses challenge id = index + 1; patch OCode's chal accordingly
        let cfg = clist(&[(true, refresh_exp[0]), (false, refresh_exp[1])], |(p, r)| cpair(&cbool(*p), &cn(*r as u64)));
        let tab = clist(&htab, |(v, c)| cpair(&cn(*v), &cn(*c)));
        let us0 = clist(&[0usize, 1], |k| {
            cpair(
                &cn(*k as u64),
                &match uat_exp[*k] {
                    Some(e) => capp("SExpires", &[cn(e)]),
                    None => "SNever".to_string(),
                },
            )
        });
        sink.case(
            capp("CHist", &[cfg, tab, us0, clist_s(&coq_steps)]),
            txt,
            n_ok_refresh > 0 && n_refused > 0 && n_admin > 0,
        );
    }
    sink.finish();
}
