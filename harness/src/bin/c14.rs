//! C14 — replication wire framing (server/core/src/repl/codec.rs) vs the Coq model KV.C14.Model.
//!
//! The REAL codec source file is compiled into this binary (`#[path]`), so the run always
//! exercises /repo's current encode_length_checked_json / decode_length_checked_json through
//! the public ConsumerCodec / SupplierCodec, both by calling `decode` directly after every
//! simulated read and through the real tokio_util `FramedRead` over a reader that returns
//! exactly the chosen read chunks.
#[macro_use]
extern crate tracing;

#[allow(dead_code)]
#[path = "/repo/server/core/src/repl/codec.rs"]
mod codec;

use bytes::{Buf, BytesMut};
use codec::{ConsumerCodec, ConsumerRequest, SupplierCodec, SupplierResponse};
use futures_core::Stream;
use kanidmd_lib::repl::proto::{
    ReplAnchoredCidRange, ReplCidRange, ReplIncrementalContext, ReplRefreshContext, ReplRuvRange,
};
use kvh::*;
use serde::{de::DeserializeOwned, Serialize};
use std::collections::{BTreeMap, VecDeque};
use std::io;
use std::panic::{catch_unwind, AssertUnwindSafe};
use std::pin::Pin;
use std::sync::Arc;
use std::task::{Context, Poll, Wake, Waker};
use std::time::Duration;
use tokio::io::{AsyncRead, ReadBuf};
use tokio_util::codec::{Decoder, Encoder, FramedRead};
use uuid::Uuid;

// ------------------------------------------------------------------ directions

trait Dir {
    type Msg: Serialize + DeserializeOwned;
    type Enc: Encoder<Self::Msg, Error = io::Error>;
    type Dec: Decoder<Item = Self::Msg, Error = io::Error> + Unpin;
    const NAME: &'static str;
    fn enc(max: usize) -> Self::Enc;
    fn dec(max: usize) -> Self::Dec;
    fn gen(rng: &mut Rng, big: bool) -> Self::Msg;
    fn simple(i: u64) -> Self::Msg;
}

fn uuid(rng: &mut Rng) -> Uuid {
    Uuid::from_u128(((rng.next() as u128) << 64) | rng.next() as u128)
}
fn anchored(rng: &mut Rng, n: u64) -> BTreeMap<Uuid, ReplAnchoredCidRange> {
    let mut m = BTreeMap::new();
    for _ in 0..n {
        let a = rng.below(1 << 40);
        let k = rng.below(3);
        m.insert(
            uuid(rng),
            ReplAnchoredCidRange {
                ts_min: Duration::from_nanos(a),
                anchors: (0..k).map(|i| Duration::from_nanos(a + i + 1)).collect(),
                ts_max: Duration::from_nanos(a + 10 + rng.below(1000)),
            },
        );
    }
    m
}

/// consumer -> supplier
struct Req;
impl Dir for Req {
    type Msg = ConsumerRequest;
    type Enc = ConsumerCodec;
    type Dec = SupplierCodec;
    const NAME: &'static str = "req";
    fn enc(max: usize) -> ConsumerCodec {
        ConsumerCodec::new(max)
    }
    fn dec(max: usize) -> SupplierCodec {
        SupplierCodec::new(max)
    }
    fn simple(i: u64) -> ConsumerRequest {
        if i % 2 == 0 { ConsumerRequest::Ping } else { ConsumerRequest::Refresh }
    }
    fn gen(rng: &mut Rng, big: bool) -> ConsumerRequest {
        match rng.below(if big { 3 } else { 4 }) {
            0 => ConsumerRequest::Ping,
            1 => ConsumerRequest::Refresh,
            _ => {
                let n = if big { rng.range(4, 12) } else { rng.below(3) };
                let mut ranges = BTreeMap::new();
                for _ in 0..n {
                    let a = rng.below(1 << 40);
                    ranges.insert(
                        uuid(rng),
                        ReplCidRange { ts_min: Duration::from_nanos(a), ts_max: Duration::from_nanos(a + rng.below(1000)) },
                    );
                }
                ConsumerRequest::Incremental(ReplRuvRange::V1 { domain_uuid: uuid(rng), ranges })
            }
        }
    }
}

/// supplier -> consumer
struct Resp;
impl Dir for Resp {
    type Msg = SupplierResponse;
    type Enc = SupplierCodec;
    type Dec = ConsumerCodec;
    const NAME: &'static str = "resp";
    fn enc(max: usize) -> SupplierCodec {
        SupplierCodec::new(max)
    }
    fn dec(max: usize) -> ConsumerCodec {
        ConsumerCodec::new(max)
    }
    fn simple(i: u64) -> SupplierResponse {
        if i % 2 == 0 {
            SupplierResponse::Pong
        } else {
            SupplierResponse::Incremental(ReplIncrementalContext::NoChangesAvailable)
        }
    }
    fn gen(rng: &mut Rng, big: bool) -> SupplierResponse {
        match rng.below(if big { 2 } else { 7 }) {
            0 => {
                let n = if big { rng.range(4, 10) } else { rng.below(2) };
                SupplierResponse::Incremental(ReplIncrementalContext::V1 {
                    domain_version: rng.below(20) as u32,
                    domain_patch_level: rng.below(3) as u32,
                    domain_uuid: uuid(rng),
                    ranges: anchored(rng, n),
                    schema_entries: vec![],
                    meta_entries: vec![],
                    entries: vec![],
                })
            }
            1 => {
                let n = if big { rng.range(4, 10) } else { rng.below(2) };
                SupplierResponse::Refresh(ReplRefreshContext::V1 {
                    domain_version: rng.below(20) as u32,
                    domain_devel: rng.chance(1, 2),
                    domain_uuid: uuid(rng),
                    ranges: anchored(rng, n),
                    schema_entries: vec![],
                    meta_entries: vec![],
                    entries: vec![],
                })
            }
            2 => SupplierResponse::Pong,
            3 => SupplierResponse::Incremental(ReplIncrementalContext::DomainMismatch),
            4 => SupplierResponse::Incremental(ReplIncrementalContext::NoChangesAvailable),
            5 => SupplierResponse::Incremental(ReplIncrementalContext::RefreshRequired),
            _ => SupplierResponse::Incremental(ReplIncrementalContext::UnwillingToSupply),
        }
    }
}

// ------------------------------------------------------------------ observation helpers

#[derive(Clone, Copy, PartialEq, Eq, Debug)]
enum EK {
    Empty,
    TooLarge,
    BadJson,
    Remaining,
    Other,
}
impl EK {
    fn coq(self) -> &'static str {
        match self {
            EK::Empty => "EEmpty",
            EK::TooLarge => "ETooLarge",
            EK::BadJson => "EBadJson",
            EK::Remaining => "ERemaining",
            EK::Other => "EOther",
        }
    }
}
fn ekind(e: &io::Error) -> EK {
    let s = e.to_string();
    match (e.kind(), s.as_str()) {
        (io::ErrorKind::InvalidInput, "empty request") => EK::Empty,
        (io::ErrorKind::OutOfMemory, "request too large") => EK::TooLarge,
        (io::ErrorKind::InvalidInput, "JSON decode error") => EK::BadJson,
        (io::ErrorKind::Other, "bytes remaining on stream") => EK::Remaining,
        _ => EK::Other,
    }
}

#[derive(Clone, Copy, PartialEq, Eq, Debug)]
enum R {
    Need,
    Err(EK),
    Msg(u64),
}

/// A reader that hands out exactly the given chunks, one per poll_read, then EOF or Pending.
struct ChunkReader {
    chunks: VecDeque<Vec<u8>>,
    eof: bool,
}
impl AsyncRead for ChunkReader {
    fn poll_read(mut self: Pin<&mut Self>, _cx: &mut Context<'_>, buf: &mut ReadBuf<'_>) -> Poll<io::Result<()>> {
        match self.chunks.front_mut() {
            Some(c) => {
                let n = c.len().min(buf.remaining());
                buf.put_slice(&c[..n]);
                c.drain(..n);
                if c.is_empty() {
                    self.chunks.pop_front();
                }
                Poll::Ready(Ok(()))
            }
            None => {
                if self.eof {
                    Poll::Ready(Ok(()))
                } else {
                    Poll::Pending
                }
            }
        }
    }
}
struct NoWake;
impl Wake for NoWake {
    fn wake(self: Arc<Self>) {}
}

/// JSON oracle of one case: payload -> Some(message id) | None, in insertion order.
struct Oracle {
    ids: Intern<String>,
    rows: Vec<(Vec<u8>, Option<u64>)>,
}
impl Oracle {
    fn new() -> Self {
        Oracle { ids: Intern::new(), rows: vec![] }
    }
    fn canon_id<T: Serialize>(&mut self, m: &T) -> u64 {
        let s = serde_json::to_string(m).expect("canonical json");
        self.ids.id(&s)
    }
    /// the real serde_json on the real message type, independent of the codec
    fn ask<T: Serialize + DeserializeOwned>(&mut self, payload: &[u8]) -> Option<u64> {
        if let Some((_, r)) = self.rows.iter().find(|(p, _)| p == payload) {
            return *r;
        }
        let r = match serde_json::from_slice::<T>(payload) {
            Ok(m) => Some(self.canon_id(&m)),
            Err(_) => None,
        };
        self.rows.push((payload.to_vec(), r));
        r
    }
}

struct Spec {
    max: u64,
    /// canonical JSON of the messages handed to the encoder
    msgs: Vec<String>,
    flush_each: bool,
    extra: Vec<u8>,
    /// payloads of hand-made frames inside `extra` (oracle hints)
    hints: Vec<Vec<u8>>,
    cuts: Vec<usize>,
    eof: bool,
    label: String,
}

fn hex(b: &[u8]) -> String {
    let mut s = String::with_capacity(b.len() * 2);
    for x in b {
        s.push_str(&format!("{:02x}", x));
    }
    s
}

fn split_cuts(cuts: &[usize], stream: &[u8]) -> Vec<Vec<u8>> {
    let mut out = vec![];
    let mut pos = 0usize;
    for c in cuts {
        let n = (*c).min(stream.len() - pos);
        out.push(stream[pos..pos + n].to_vec());
        pos += n;
    }
    if pos < stream.len() {
        out.push(stream[pos..].to_vec());
    }
    out
}

fn run_case<D: Dir>(sink: &mut Sink, sp: &Spec) {
    let max = sp.max as usize;
    let mut or = Oracle::new();
    // register the messages (canonical rows first) and check serde's own round trip
    let mut ids = vec![];
    for c in &sp.msgs {
        let m: D::Msg = serde_json::from_str(c).expect("message json");
        let id = or.canon_id(&m);
        let back = or.ask::<D::Msg>(c.as_bytes());
        assert_eq!(back, Some(id), "serde_json does not round-trip {}", c);
        ids.push(id);
    }
    for h in &sp.hints {
        or.ask::<D::Msg>(h);
    }
    // ---- the real Encoder
    let mut e = D::enc(max);
    let mut dst = BytesMut::new();
    let mut wire: Vec<u8> = vec![];
    let mut enc_ok = true;
    for c in &sp.msgs {
        let m: D::Msg = serde_json::from_str(c).expect("message json");
        let r = catch_unwind(AssertUnwindSafe(|| e.encode(m, &mut dst)));
        match r {
            Ok(Ok(())) => {}
            _ => {
                enc_ok = false;
                break;
            }
        }
        if sp.flush_each {
            wire.extend_from_slice(&dst[..]);
            let n = dst.len();
            dst.advance(n);
        }
    }
    wire.extend_from_slice(&dst[..]);
    let mut stream = if enc_ok { wire.clone() } else { vec![] };
    stream.extend_from_slice(&sp.extra);
    let chunks = split_cuts(&sp.cuts, &stream);

    // ---- direct run: append each read to the buffer, call decode until None / Err
    let mut d = D::dec(max);
    let mut buf = BytesMut::new();
    let mut trace: Vec<Vec<(R, usize)>> = vec![];
    let mut stopped = false;
    let mut offset = 0usize;
    let mut frame_bounds = vec![0usize];
    for ch in &chunks {
        buf.extend_from_slice(ch);
        let mut tr = vec![];
        loop {
            let before = buf.to_vec();
            let r = catch_unwind(AssertUnwindSafe(|| d.decode(&mut buf)));
            let after = buf.len();
            let consumed = before.len().saturating_sub(after);
            if consumed >= 8 {
                or.ask::<D::Msg>(&before[8..consumed]);
            }
            offset += consumed;
            if matches!(r, Ok(Ok(Some(_)))) {
                frame_bounds.push(offset);
            }
            match r {
                Ok(Ok(None)) => {
                    tr.push((R::Need, after));
                    break;
                }
                Ok(Ok(Some(m))) => {
                    let id = or.canon_id(&m);
                    tr.push((R::Msg(id), after));
                }
                Ok(Err(err)) => {
                    tr.push((R::Err(ekind(&err)), after));
                    stopped = true;
                    break;
                }
                Err(_) => {
                    tr.push((R::Err(EK::Other), after));
                    stopped = true;
                    break;
                }
            }
            if tr.len() > stream.len() + 2 {
                tr.push((R::Err(EK::Other), after));
                stopped = true;
                break;
            }
        }
        trace.push(tr);
        if stopped {
            break;
        }
    }
    let rest = buf.to_vec();

    // ---- the real tokio_util FramedRead over the same reads
    let reader = ChunkReader { chunks: chunks.iter().cloned().collect(), eof: sp.eof };
    let mut fr = FramedRead::with_capacity(reader, D::dec(max), stream.len() + 64);
    let waker = Waker::from(Arc::new(NoWake));
    let mut cx = Context::from_waker(&waker);
    let mut items: Vec<R> = vec![];
    for _ in 0..(stream.len() + 8) {
        let p = catch_unwind(AssertUnwindSafe(|| Pin::new(&mut fr).poll_next(&mut cx)));
        match p {
            Ok(Poll::Ready(Some(Ok(m)))) => items.push(R::Msg(or.canon_id(&m))),
            Ok(Poll::Ready(Some(Err(err)))) => items.push(R::Err(ekind(&err))),
            Ok(Poll::Ready(None)) | Ok(Poll::Pending) => break,
            Err(_) => {
                items.push(R::Err(EK::Other));
                break;
            }
        }
    }

    // ---- print
    let jt = clist(&or.rows, |(p, r)| format!("({}, {})", cbytes(p), copt(r, |i| cn(*i))));
    let ctrace = clist(&trace, |tr| {
        clist(tr, |(r, n)| {
            let rs = match r {
                R::Need => "RNeed".to_string(),
                R::Err(k) => format!("RErr {}", k.coq()),
                R::Msg(i) => format!("RMsg {}", cn(*i)),
            };
            format!("({}, {})", rs, cn(*n as u64))
        })
    });
    let citems = clist(&items, |r| match r {
        R::Msg(i) => format!("OMsg {}", cn(*i)),
        R::Err(k) => format!("OErr {}", k.coq()),
        R::Need => "OErr EOther".to_string(),
    });
    let coq = capp(
        "CStream",
        &[
            cn(sp.max),
            jt,
            clist(&ids, |i| cn(*i)),
            if enc_ok { format!("(Some {})", cbytes(&wire)) } else { "None".to_string() },
            cbytes(&sp.extra),
            clist(&sp.cuts, |c| cn(*c as u64)),
            cbool(sp.eof),
            ctrace,
            cbytes(&rest),
            citems,
        ],
    );
    let n_msgs = items.iter().filter(|r| matches!(r, R::Msg(_))).count();
    let rejected = items.iter().any(|r| matches!(r, R::Err(EK::Empty) | R::Err(EK::TooLarge) | R::Err(EK::BadJson)));
    // is some read boundary strictly inside a frame that was delivered?
    let mut bounds = vec![];
    let mut pos = 0;
    for ch in &chunks {
        pos += ch.len();
        bounds.push(pos);
    }
    let delivered_end = *frame_bounds.last().unwrap_or(&0);
    let split_inside = bounds.iter().any(|b| *b < delivered_end && !frame_bounds.contains(b));
    let nontrivial = (n_msgs >= 1 && chunks.len() >= 2 && split_inside) || rejected;
    let txt = format!(
        "{} {} max={} msgs={:?} lens={:?} flush_each={} extra={} cuts={:?} eof={} stream={} -> enc_ok={} trace={:?} rest_len={} framed={:?}",
        sp.label,
        D::NAME,
        sp.max,
        ids,
        sp.msgs.iter().map(|m| m.len()).collect::<Vec<_>>(),
        sp.flush_each,
        hex(&sp.extra),
        sp.cuts,
        sp.eof,
        hex(&stream),
        enc_ok,
        trace,
        rest.len(),
        items
    );
    sink.bump(&format!("kind_{}", sp.label));
    sink.bump(&format!("dir_{}", D::NAME));
    if rejected {
        sink.bump("with_rejection");
    }
    if split_inside {
        sink.bump("read_boundary_inside_frame");
    }
    sink.add_stat("decode_calls", trace.iter().map(|t| t.len() as u64).sum());
    sink.add_stat("messages_delivered", n_msgs as u64);
    sink.case(coq, txt, nontrivial);
}

// ------------------------------------------------------------------ generators

fn canon<T: Serialize>(m: &T) -> String {
    serde_json::to_string(m).expect("json")
}

fn frame(len: u64, body: &[u8]) -> Vec<u8> {
    let mut v = len.to_be_bytes().to_vec();
    v.extend_from_slice(body);
    v
}

/// all ways to cut `n` bytes into at most `k` non-empty reads (as lists of read sizes; the last read is implicit)
fn all_cuts(n: usize, k: usize) -> Vec<Vec<usize>> {
    fn go(start: usize, n: usize, left: usize, cur: &mut Vec<usize>, out: &mut Vec<Vec<usize>>) {
        out.push(cur.clone());
        if left == 0 {
            return;
        }
        for c in 1..(n - start) {
            cur.push(c);
            go(start + c, n, left - 1, cur, out);
            cur.pop();
        }
    }
    let mut out = vec![];
    if n == 0 {
        return vec![vec![]];
    }
    go(0, n, k - 1, &mut vec![], &mut out);
    out
}

fn exhaustive<D: Dir>(sink: &mut Sink, n_msgs: u64, extra: Vec<u8>, hints: Vec<Vec<u8>>, max: u64, k: usize, label: &str) {
    let msgs: Vec<String> = (0..n_msgs).map(|i| canon(&D::simple(i))).collect();
    let total: usize = msgs.iter().map(|m| m.len() + 8).sum::<usize>() + extra.len();
    let mut i = 0u64;
    for cuts in all_cuts(total, k) {
        i += 1;
        let sp = Spec {
            max,
            msgs: msgs.clone(),
            flush_each: i % 2 == 0,
            extra: extra.clone(),
            hints: hints.clone(),
            cuts,
            eof: i % 3 != 0,
            label: label.to_string(),
        };
        run_case::<D>(sink, &sp);
    }
}

fn random_case<D: Dir>(sink: &mut Sink, rng: &mut Rng, big: bool) {
    let n = if big { rng.range(1, 3) } else { rng.below(6) };
    let mut msgs: Vec<String> = vec![];
    for _ in 0..n {
        if !msgs.is_empty() && rng.chance(1, 4) {
            let m = rng.pick(&msgs).clone();
            msgs.push(m);
        } else {
            let b = big && rng.chance(1, 2);
            msgs.push(canon(&D::gen(rng, b)));
        }
    }
    let lens: Vec<u64> = msgs.iter().map(|m| m.len() as u64).collect();
    // the frame limit: generous, or right at / around one of the payload lengths
    let mut label = "random";
    let max = if lens.is_empty() || rng.chance(1, 2) {
        *rng.pick(&[1u64 << 20, 4096, 268_435_456, u64::MAX >> 1])
    } else {
        label = "limit_boundary";
        let l = *rng.pick(&lens);
        match rng.below(4) {
            0 => l - 1,
            1 => l,
            2 => l + 1,
            _ => *lens.iter().max().unwrap(),
        }
    };
    // hand-made bytes after the encoded frames
    let mut extra: Vec<u8> = vec![];
    let mut hints: Vec<Vec<u8>> = vec![];
    let other = canon(&D::gen(rng, false));
    match rng.below(14) {
        0 => {
            label = "empty_frame";
            let k = rng.below(12) as usize;
            extra = frame(0, &rng.bytes(k));
        }
        1 => {
            label = "oversize_frame";
            let l = match rng.below(5) {
                0 => max.saturating_add(1),
                1 => max.saturating_add(rng.range(2, 300)),
                2 => 1u64 << 63,
                3 => u64::MAX,
                _ => max.saturating_add(1 << 32),
            };
            // the body may be absent, partial or complete
            let blen = match rng.below(3) {
                0 => 0,
                1 => rng.below(20) as usize,
                _ => (l.min(600)) as usize,
            };
            extra = frame(l, &rng.bytes(blen));
            if l <= max {
                label = "random";
            }
        }
        2 => {
            // a payload padded with JSON whitespace to exactly max / max+1 / max-1 bytes (small limits only)
            if max <= 2000 && max as usize > other.len() + 1 {
                let target = (max as i64 + rng.range(0, 2) as i64 - 1) as usize;
                let mut p = other.clone().into_bytes();
                while p.len() < target {
                    p.push(b' ');
                }
                extra = frame(p.len() as u64, &p);
                hints.push(p);
                label = "exact_limit_frame";
            }
        }
        3 => {
            label = "bad_json_frame";
            let p = match rng.below(3) {
                0 => {
                    let k = rng.range(1, 24) as usize;
                    rng.bytes(k)
                }
                1 => b"\"Pang\"".to_vec(),
                _ => {
                    let mut p = other.clone().into_bytes();
                    p.pop();
                    p
                }
            };
            extra = frame(p.len() as u64, &p);
            // something after it must not be delivered
            extra.extend_from_slice(&frame(other.len() as u64, other.as_bytes()));
            hints.push(p);
            hints.push(other.clone().into_bytes());
        }
        4 => {
            label = "padded_json_frame";
            let mut p = b" ".to_vec();
            p.extend_from_slice(other.as_bytes());
            p.extend_from_slice(b"\n ");
            extra = frame(p.len() as u64, &p);
            hints.push(p);
        }
        5 => {
            label = "truncated_frame";
            let p = other.as_bytes();
            let keep = rng.below(p.len() as u64) as usize;
            extra = frame(p.len() as u64, &p[..keep]);
            hints.push(p.to_vec());
        }
        6 => {
            label = "partial_header";
            let f = frame(other.len() as u64, other.as_bytes());
            extra = f[..rng.range(1, 7) as usize].to_vec();
        }
        7 => {
            label = "raw_bytes";
            let k = rng.range(1, 40) as usize;
            extra = rng.bytes(k);
            if rng.chance(1, 2) {
                // make the header small so the junk is framed
                for b in extra.iter_mut().take(7) {
                    *b = 0;
                }
            }
        }
        8 => {
            label = "declared_longer_than_payload";
            // header claims more bytes than the JSON: the next frame's bytes are swallowed into the payload
            let l = other.len() as u64 + rng.range(1, 12);
            extra = frame(l, other.as_bytes());
            extra.extend_from_slice(&frame(other.len() as u64, other.as_bytes()));
            hints.push(other.clone().into_bytes());
        }
        9 => {
            label = "declared_shorter_than_payload";
            let l = rng.range(1, other.len() as u64 - 1);
            extra = frame(l, other.as_bytes());
            hints.push(other.as_bytes()[..l as usize].to_vec());
        }
        _ => {}
    }
    let total: usize = msgs.iter().map(|m| m.len() + 8).sum::<usize>() + extra.len();
    // read pattern
    let mut cuts: Vec<usize> = vec![];
    if total > 0 {
        match rng.below(7) {
            0 => {} // one read
            1 if total <= 400 => cuts = vec![1; total], // byte at a time
            2 => {
                // exactly at the frame boundaries
                for m in &msgs {
                    cuts.push(m.len() + 8);
                }
            }
            3 => {
                // header and body of every frame arrive separately
                for m in &msgs {
                    cuts.push(8);
                    cuts.push(m.len());
                }
            }
            4 => {
                // one byte short of / past every frame boundary
                let mut carry = 0i64;
                for m in &msgs {
                    let d = if rng.chance(1, 2) { 1i64 } else { -1 };
                    let c = (m.len() as i64 + 8) - carry + d;
                    carry = d;
                    cuts.push(c.max(1) as usize);
                }
            }
            _ => {
                let k = rng.range(1, 7);
                let mut left = total;
                for _ in 0..k {
                    if left <= 1 {
                        break;
                    }
                    let c = if rng.chance(1, 3) { rng.range(1, 9.min(left as u64 - 1)) } else { rng.range(1, left as u64 - 1) } as usize;
                    cuts.push(c);
                    left -= c;
                }
            }
        }
    }
    // keep the cuts within the stream so no read is empty
    let mut left = total;
    let mut ok = vec![];
    for c in cuts {
        if left == 0 {
            break;
        }
        let c = c.min(left);
        ok.push(c);
        left -= c;
    }
    let sp = Spec {
        max,
        msgs,
        flush_each: rng.chance(1, 3),
        extra,
        hints,
        cuts: ok,
        eof: rng.chance(2, 3),
        label: label.to_string(),
    };
    run_case::<D>(sink, &sp);
}

fn main() {
    let args = parse_args();
    let mut rng = Rng::new(args.seed);
    let mut sink = Sink::new(&args, "KV.C14.Model", 200);
    sink.rule = "exhaustive: every split into <=3 (quick) / <=4 (thorough) non-empty reads of a short two-frame request stream (response stream: <=2 / <=3 reads), also followed by an empty-length header, by an over-limit header, and with the limit exactly at / one below a payload length; random: 0-5 real ConsumerRequest / SupplierResponse messages through the real Encoder, limits generous or at len-1/len/len+1 of a payload, optional hand-made tail (zero header, over-limit headers up to 2^64-1 with absent/partial/complete body, payload padded to exactly the limit, bad JSON, padded JSON, truncated frame, partial header, raw bytes, header longer/shorter than the JSON), reads = one / byte-at-a-time / at frame boundaries / header and body apart / one byte off the boundaries / random. non-trivial = a message was delivered although a read boundary fell strictly inside a frame, or a frame was rejected".into();

    let k = if args.thorough { 4 } else { 3 };
    // exhaustive part
    exhaustive::<Req>(&mut sink, 2, vec![], vec![], 1 << 20, k, "exh_two_frames");
    exhaustive::<Resp>(&mut sink, 2, vec![], vec![], 1 << 20, if args.thorough { 3 } else { 2 }, "exh_two_frames");
    // the limit is exactly the longer payload (accepted) ...
    let l_req = canon(&Req::simple(1)).len() as u64;
    exhaustive::<Req>(&mut sink, 2, vec![], vec![], l_req, 2, "exh_limit_exact");
    // ... and one below it: the second frame must be rejected as soon as its header is complete
    exhaustive::<Req>(&mut sink, 2, vec![], vec![], l_req - 1, 3, "exh_limit_minus_one");
    // an empty-length header after one good frame, with trailing bytes
    exhaustive::<Req>(&mut sink, 1, frame(0, b"\"Ping\""), vec![], 64, 3, "exh_empty_frame");
    // an over-limit header after one good frame, with a partial body
    exhaustive::<Resp>(&mut sink, 1, frame(65, b"0123"), vec![], 64, 3, "exh_oversize_frame");
    if args.thorough {
        exhaustive::<Resp>(&mut sink, 3, vec![], vec![], 1 << 20, 3, "exh_three_frames");
        exhaustive::<Req>(&mut sink, 1, frame(u64::MAX, b""), vec![], 1 << 20, 4, "exh_oversize_frame");
    }
    // random part
    let n_rand = if args.thorough { 12000 } else { 900 };
    for i in 0..n_rand {
        let big = i % 40 == 0;
        if rng.chance(1, 2) {
            random_case::<Req>(&mut sink, &mut rng, big);
        } else {
            random_case::<Resp>(&mut sink, &mut rng, big);
        }
    }
    sink.finish();
}
